#!/bin/bash
# usage: ./run.sh <Cxx> <quick|thorough>
# Rebuilds the harness against /repo's current working tree (hooks on: -tags verif) and runs one check.
set -u
cd "$(dirname "$0")"
export GOFLAGS=-mod=mod GOPROXY=off GOSUMDB=off GOTOOLCHAIN=local
export VERIF_DIR="$(pwd)"
ID="${1:?property id}"; TIER="${2:-quick}"
export VERIF_TIER="$TIER"
mkdir -p build evidence replays
rm -f "replays/${ID}_"*.json "replays/${ID}_"*.log
cp -f /repo/go.sum harness/.repo.go.sum 2>/dev/null || true
build() { # build <out> <tags> [extra go build args...]
  local out="$1" tags="$2"; shift 2
  (cd harness && go build -tags "$tags" "$@" -o "../build/$out" ./cmd/vcheck) 
}
LOG="build/build-$ID.log"
# optional per-check pre-step (extra build variants); it may define functions/vars and must not exit on success
if [ -f "scripts/pre-$ID.sh" ]; then . "scripts/pre-$ID.sh" >"build/pre-$ID.log" 2>&1 || { echo "PRE-STEP-FAILED property=$ID (see build/pre-$ID.log)"; exit 3; }; fi
if ! build vcheck verif >"$LOG" 2>&1; then
  echo "BUILD-FAILED property=$ID (see $LOG)"; cat "$LOG"; exit 3
fi
# race-detector variant (plain sources): re-entrancy pass of every check, free-running pass of C13
build vcheck-race verif -race >"build/build-race-$ID.log" 2>&1 || echo "note: race variant does not build (re-entrancy pass skipped)"
# 32-bit variant (GOARCH=386): the word-size independent checks run once more inside it (see harness/checks/arch386.go)
case "$ID" in C01|C02|C03|C04|C05|C06|C07|C08|C09|C10|C11|C12|C13|C14|C15|C16|C17|C18|C19|C20)
  (cd harness && GOARCH=386 CGO_ENABLED=0 go build -tags verif -o ../build/vcheck-386 ./cmd/vcheck) >"build/build-386-$ID.log" 2>&1 || { rm -f build/vcheck-386; echo "note: 386 variant does not build (32-bit pass skipped)"; } ;;
esac
# GOAMD64=v3 variant: the word-size generic curl comparison runs inside it (a build constraint may select other assembly)
case "$ID" in C06|C20)
  (cd harness && GOAMD64=v3 go build -tags verif -o ../build/vcheck-v3 ./cmd/vcheck) >"build/build-v3-$ID.log" 2>&1 || { rm -f build/vcheck-v3; echo "note: GOAMD64=v3 variant does not build (pass skipped)"; } ;;
esac
if [ -n "${VARIANT_FAILED:-}" ]; then
  cp "build/pre-$ID.log" "replays/${ID}_variant-build.log" 2>/dev/null
  echo "VIOLATION property=$ID replay=$(pwd)/replays/${ID}_variant-build.log"
  echo "  key=$ID/variant-build: $VARIANT_FAILED"
  exit 1
fi
exec "./build/${BIN:-vcheck}" "$ID" "$TIER"
