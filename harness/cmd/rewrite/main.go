// Command rewrite produces the build overlay for the "sched" variant of the harness from the CURRENT repository
// sources: pkg/pow/worker.go and pkg/pow/v2/worker.go are rewritten so that sync, sync/atomic, the batched Curl,
// go statements and channel operations go through the shim packages, and the shim packages are mounted as virtual
// packages inside the repository module. The repository itself is never touched.
//
// usage: rewrite <repo dir> <shim dir> <out dir>     (writes <out dir>/overlay.json and the rewritten files)
//
// A construct the rewriter does not know makes it exit with status 4 and a line "UNSUPPORTED: ..." - the checks
// then run without the scheduler and report exhaustive:false; that is never a violation.
package main

import (
	"bytes"
	"encoding/json"
	"fmt"
	"go/ast"
	"go/format"
	"go/parser"
	"go/printer"
	"go/token"
	"os"
	"path/filepath"
	"sort"
	"strconv"
	"strings"
)

const shimBase = "github.com/wollac/iota-crypto-demo/pkg/verifshim/"

var importMap = map[string]string{
	"sync":                                   shimBase + "vsync",
	"sync/atomic":                            shimBase + "vatomic",
	"github.com/iotaledger/iota.go/curl/bct": shimBase + "vbct",
	"github.com/iotaledger/iota.go/curl":     shimBase + "vcurl",
	// a PoW that hashes through this module's own batched Curl gets the same instrumented object
	"github.com/wollac/iota-crypto-demo/pkg/curl": shimBase + "vpcurl",
}

type unsupported string

func fail(format string, a ...interface{}) { panic(unsupported(fmt.Sprintf(format, a...))) }

func exprString(fset *token.FileSet, e ast.Node) string {
	var b bytes.Buffer
	printer.Fprint(&b, fset, e)
	return b.String()
}

func chanShim(fset *token.FileSet, ct *ast.ChanType) string {
	switch strings.ReplaceAll(exprString(fset, ct.Value), " ", "") {
	case "uint64":
		return "Uint64"
	case "struct{}":
		return "Struct"
	}
	fail("channel element type %s", exprString(fset, ct.Value))
	return ""
}

func sel(pkg, name string) ast.Expr {
	return &ast.SelectorExpr{X: ast.NewIdent(pkg), Sel: ast.NewIdent(name)}
}

func call(fun ast.Expr, args ...ast.Expr) *ast.CallExpr { return &ast.CallExpr{Fun: fun, Args: args} }

func method(x ast.Expr, name string, args ...ast.Expr) *ast.CallExpr {
	return call(&ast.SelectorExpr{X: x, Sel: ast.NewIdent(name)}, args...)
}

type rewriter struct {
	fset           *token.FileSet
	tmp            int
	usedSched      bool
	usedChan       bool
	usedAtomicDecl bool
	hasAtomic      bool // the file imports sync/atomic under the name "atomic"
	splice         map[*ast.BlockStmt]bool
	chanNames      map[string]bool // identifiers (variables, parameters, fields) declared with a channel type in this file
}

// collectChanNames finds the names bound to channel types (syntactically: declared with a chan type or from make(chan)).
func collectChanNames(f *ast.File) map[string]bool {
	names := map[string]bool{}
	isMakeChan := func(e ast.Expr) bool {
		c, ok := e.(*ast.CallExpr)
		if !ok || len(c.Args) == 0 {
			return false
		}
		id, ok := c.Fun.(*ast.Ident)
		if !ok || id.Name != "make" {
			return false
		}
		_, ok = c.Args[0].(*ast.ChanType)
		return ok
	}
	add := func(e ast.Expr) {
		switch v := e.(type) {
		case *ast.Ident:
			names[v.Name] = true
		case *ast.SelectorExpr:
			names[v.Sel.Name] = true
		}
	}
	ast.Inspect(f, func(n ast.Node) bool {
		switch v := n.(type) {
		case *ast.AssignStmt:
			if len(v.Lhs) == len(v.Rhs) {
				for i := range v.Rhs {
					if isMakeChan(v.Rhs[i]) || isDoneCall(v.Rhs[i]) {
						add(v.Lhs[i])
					}
				}
			}
		case *ast.ValueSpec:
			if _, ok := v.Type.(*ast.ChanType); ok {
				for _, n := range v.Names {
					names[n.Name] = true
				}
			}
			if len(v.Names) == len(v.Values) {
				for i := range v.Values {
					if isMakeChan(v.Values[i]) || isDoneCall(v.Values[i]) {
						names[v.Names[i].Name] = true
					}
				}
			}
		case *ast.Field:
			if _, ok := v.Type.(*ast.ChanType); ok {
				for _, n := range v.Names {
					names[n.Name] = true
				}
			}
		}
		return true
	})
	return names
}

func (r *rewriter) isChanExpr(e ast.Expr) bool {
	switch v := e.(type) {
	case *ast.Ident:
		return r.chanNames[v.Name]
	case *ast.SelectorExpr:
		return r.chanNames[v.Sel.Name]
	case *ast.ParenExpr:
		return r.isChanExpr(v.X)
	}
	return false
}

func isRecv(e ast.Expr) (ast.Expr, bool) {
	if p, ok := e.(*ast.ParenExpr); ok {
		return isRecv(p.X)
	}
	u, ok := e.(*ast.UnaryExpr)
	if ok && u.Op == token.ARROW {
		return u.X, true
	}
	return nil, false
}

// isDoneCall: X.Done() with no arguments. As a statement it is sync.WaitGroup.Done; as a VALUE it can only be a
// channel the code under test did not make (context.Context.Done) - wrapped by vchan.Foreign so that it can be stored,
// passed on and received from like the shim channels.
func isDoneCall(x ast.Expr) bool {
	c, ok := x.(*ast.CallExpr)
	if !ok || len(c.Args) != 0 {
		return false
	}
	s, ok := c.Fun.(*ast.SelectorExpr)
	return ok && s.Sel.Name == "Done"
}

// rewriteExpr rewrites expressions bottom-up.
func (r *rewriter) expr(e ast.Expr) ast.Expr {
	if e == nil {
		return nil
	}
	switch v := e.(type) {
	case *ast.ChanType:
		r.usedChan = true
		return &ast.StarExpr{X: sel("vchan", chanShim(r.fset, v))}
	case *ast.UnaryExpr:
		if v.Op == token.ARROW {
			return method(r.expr(v.X), "Recv")
		}
		v.X = r.expr(v.X)
		return v
	case *ast.CallExpr:
		if id, ok := v.Fun.(*ast.Ident); ok {
			if id.Name == "make" && len(v.Args) >= 1 {
				if ct, ok := v.Args[0].(*ast.ChanType); ok {
					r.usedChan = true
					var args []ast.Expr
					for _, a := range v.Args[1:] {
						args = append(args, r.expr(a))
					}
					return call(sel("vchan", "Make"+chanShim(r.fset, ct)), args...)
				}
			}
			if id.Name == "close" && len(v.Args) == 1 {
				return method(r.expr(v.Args[0]), "Close")
			}
		}
		wrap := isDoneCall(v)
		v.Fun = r.expr(v.Fun)
		for i := range v.Args {
			v.Args[i] = r.expr(v.Args[i])
		}
		if wrap {
			r.usedChan = true
			return call(sel("vchan", "Foreign"), v)
		}
		return v
	case *ast.FuncLit:
		r.fieldList(v.Type.Params)
		r.fieldList(v.Type.Results)
		r.block(v.Body)
		return v
	case *ast.ParenExpr:
		v.X = r.expr(v.X)
		return v
	case *ast.SelectorExpr:
		v.X = r.expr(v.X)
		return v
	case *ast.IndexExpr:
		v.X, v.Index = r.expr(v.X), r.expr(v.Index)
		return v
	case *ast.SliceExpr:
		v.X, v.Low, v.High, v.Max = r.expr(v.X), r.expr(v.Low), r.expr(v.High), r.expr(v.Max)
		return v
	case *ast.StarExpr:
		v.X = r.expr(v.X)
		return v
	case *ast.BinaryExpr:
		v.X, v.Y = r.expr(v.X), r.expr(v.Y)
		return v
	case *ast.KeyValueExpr:
		v.Key, v.Value = r.expr(v.Key), r.expr(v.Value)
		return v
	case *ast.CompositeLit:
		v.Type = r.expr(v.Type)
		for i := range v.Elts {
			v.Elts[i] = r.expr(v.Elts[i])
		}
		return v
	case *ast.TypeAssertExpr:
		v.X, v.Type = r.expr(v.X), r.expr(v.Type)
		return v
	case *ast.ArrayType:
		v.Len, v.Elt = r.expr(v.Len), r.expr(v.Elt)
		return v
	case *ast.MapType:
		v.Key, v.Value = r.expr(v.Key), r.expr(v.Value)
		return v
	case *ast.FuncType:
		r.fieldList(v.Params)
		r.fieldList(v.Results)
		return v
	case *ast.StructType:
		r.fieldList(v.Fields)
		return v
	case *ast.InterfaceType:
		r.fieldList(v.Methods)
		return v
	case *ast.Ellipsis:
		v.Elt = r.expr(v.Elt)
		return v
	}
	return e
}

func (r *rewriter) fieldList(fl *ast.FieldList) {
	if fl == nil {
		return
	}
	for _, f := range fl.List {
		f.Type = r.expr(f.Type)
	}
}

func (r *rewriter) block(b *ast.BlockStmt) {
	if b == nil {
		return
	}
	b.List = r.stmts(b.List)
}

// stmts rewrites a statement list; statements marked for splicing are expanded in place (no new scope).
func (r *rewriter) stmts(l []ast.Stmt) []ast.Stmt {
	var out []ast.Stmt
	for i := range l {
		s := r.stmt(l[i])
		if b, ok := s.(*ast.BlockStmt); ok && r.splice[b] {
			out = append(out, b.List...)
			continue
		}
		out = append(out, s)
	}
	return out
}

func (r *rewriter) stmt(s ast.Stmt) ast.Stmt {
	switch v := s.(type) {
	case nil:
		return nil
	case *ast.GoStmt:
		r.usedSched = true
		c := v.Call
		c.Fun = r.expr(c.Fun)
		// evaluate the arguments now, run the call in the new thread
		var pre []ast.Stmt
		var args []ast.Expr
		for _, a := range c.Args {
			name := ast.NewIdent(fmt.Sprintf("verifGoArg%d", r.tmp))
			r.tmp++
			pre = append(pre, &ast.AssignStmt{Lhs: []ast.Expr{name}, Tok: token.DEFINE, Rhs: []ast.Expr{r.expr(a)}})
			args = append(args, name)
		}
		if c.Ellipsis != token.NoPos {
			fail("go statement with variadic spread")
		}
		var body ast.Stmt
		if fl, ok := c.Fun.(*ast.FuncLit); ok && len(args) == 0 {
			return &ast.ExprStmt{X: call(sel("vsched", "Go"), fl)}
		}
		body = &ast.ExprStmt{X: call(c.Fun, args...)}
		goCall := &ast.ExprStmt{X: call(sel("vsched", "Go"), &ast.FuncLit{Type: &ast.FuncType{Params: &ast.FieldList{}}, Body: &ast.BlockStmt{List: []ast.Stmt{body}}})}
		return &ast.BlockStmt{List: append(pre, goCall)}
	case *ast.SendStmt:
		return &ast.ExprStmt{X: method(r.expr(v.Chan), "Send", r.expr(v.Value))}
	case *ast.SelectStmt:
		r.usedChan = true
		var cases []ast.Expr
		var clauses []ast.Stmt
		var pre []ast.Stmt // declarations hoisted in front of the select (value-carrying receives)
		for i, cl := range v.Body.List {
			cc := cl.(*ast.CommClause)
			switch comm := cc.Comm.(type) {
			case nil:
				cases = append(cases, call(sel("vchan", "Default")))
			case *ast.ExprStmt:
				x, ok := isRecv(comm.X)
				if !ok {
					fail("select case %s", exprString(r.fset, comm))
				}
				cases = append(cases, call(sel("vchan", "RecvFrom"), r.expr(x)))
			case *ast.SendStmt:
				cases = append(cases, call(sel("vchan", "SendTo"), r.expr(comm.Chan), r.expr(comm.Value)))
			case *ast.AssignStmt:
				// case v := <-ch / case v, ok := <-ch / case v = <-ch / case v, ok = <-ch
				if len(comm.Rhs) != 1 || len(comm.Lhs) < 1 || len(comm.Lhs) > 2 {
					fail("select case %s", exprString(r.fset, comm))
				}
				x, ok := isRecv(comm.Rhs[0])
				if !ok {
					fail("select case %s", exprString(r.fset, comm))
				}
				chv := ast.NewIdent(fmt.Sprintf("verifSelCh%d", r.tmp))
				r.tmp++
				pre = append(pre, &ast.AssignStmt{Lhs: []ast.Expr{chv}, Tok: token.DEFINE, Rhs: []ast.Expr{r.expr(x)}})
				args := []ast.Expr{ast.NewIdent("nil"), ast.NewIdent("nil")}
				for k, lhs := range comm.Lhs {
					if id, isID := lhs.(*ast.Ident); isID && id.Name == "_" {
						continue
					}
					if comm.Tok == token.DEFINE {
						id, isID := lhs.(*ast.Ident)
						if !isID {
							fail("select case %s", exprString(r.fset, comm))
						}
						var init ast.Expr = method(chv, "Zero")
						if k == 1 {
							init = ast.NewIdent("false")
						}
						pre = append(pre, &ast.AssignStmt{Lhs: []ast.Expr{ast.NewIdent(id.Name)}, Tok: token.DEFINE, Rhs: []ast.Expr{init}})
						args[k] = &ast.UnaryExpr{Op: token.AND, X: ast.NewIdent(id.Name)}
					} else {
						args[k] = &ast.UnaryExpr{Op: token.AND, X: r.expr(lhs)}
					}
				}
				cases = append(cases, method(chv, "RecvInto", args...))
			default:
				fail("select case %s", exprString(r.fset, cc.Comm))
			}
			cc.Body = r.stmts(cc.Body)
			clauses = append(clauses, &ast.CaseClause{List: []ast.Expr{&ast.BasicLit{Kind: token.INT, Value: strconv.Itoa(i)}}, Body: cc.Body})
		}
		clauses = append(clauses, &ast.CaseClause{Body: []ast.Stmt{&ast.ExprStmt{X: call(ast.NewIdent("panic"), &ast.BasicLit{Kind: token.STRING, Value: strconv.Quote("vchan: select returned no case")})}}})
		sw := &ast.SwitchStmt{Tag: call(sel("vchan", "Select"), cases...), Body: &ast.BlockStmt{List: clauses}}
		if len(pre) > 0 {
			return &ast.BlockStmt{List: append(pre, sw)}
		}
		return sw
	case *ast.AssignStmt:
		if len(v.Lhs) == 2 && len(v.Rhs) == 1 {
			if x, ok := isRecv(v.Rhs[0]); ok {
				v.Rhs[0] = method(r.expr(x), "Recv2")
				for i := range v.Lhs {
					v.Lhs[i] = r.expr(v.Lhs[i])
				}
				return v
			}
		}
		for i := range v.Lhs {
			v.Lhs[i] = r.expr(v.Lhs[i])
		}
		for i := range v.Rhs {
			v.Rhs[i] = r.expr(v.Rhs[i])
		}
		return v
	case *ast.DeclStmt:
		r.decl(v.Decl)
		// name integer variables after their declaration, so that atomics on them have schedule-independent names
		if gd, ok := v.Decl.(*ast.GenDecl); ok && gd.Tok == token.VAR {
			var decls []ast.Stmt
			for _, sp := range gd.Specs {
				vs := sp.(*ast.ValueSpec)
				if id, ok := vs.Type.(*ast.Ident); ok && (id.Name == "uint32" || id.Name == "uint64" || id.Name == "int32" || id.Name == "int64") {
					for _, n := range vs.Names {
						if n.Name == "_" {
							continue
						}
						r.usedAtomicDecl = true
						decls = append(decls, &ast.ExprStmt{X: call(sel("atomic", "Declare"), &ast.UnaryExpr{Op: token.AND, X: ast.NewIdent(n.Name)}, &ast.BasicLit{Kind: token.STRING, Value: strconv.Quote(n.Name)})})
					}
				}
			}
			if len(decls) > 0 && r.hasAtomic {
				b := &ast.BlockStmt{List: append([]ast.Stmt{v}, decls...)}
				r.splice[b] = true
				return b
			}
		}
		return v
	case *ast.ExprStmt:
		if isDoneCall(v.X) { // a statement: sync.WaitGroup.Done, not a channel value
			c := v.X.(*ast.CallExpr)
			c.Fun = r.expr(c.Fun)
			return v
		}
		// atomic.AddX(...) whose result is dropped: the returned value is not an observation of the thread
		if ce, ok := v.X.(*ast.CallExpr); ok {
			if se, ok := ce.Fun.(*ast.SelectorExpr); ok {
				if id, ok := se.X.(*ast.Ident); ok && id.Name == "atomic" && strings.HasPrefix(se.Sel.Name, "Add") && r.hasAtomic {
					se.Sel = ast.NewIdent(se.Sel.Name + "Discard")
				}
			}
		}
		v.X = r.expr(v.X)
		return v
	case *ast.BlockStmt:
		r.block(v)
		return v
	case *ast.IfStmt:
		v.Init, v.Cond = r.stmt(v.Init), r.expr(v.Cond)
		r.block(v.Body)
		v.Else = r.stmt(v.Else)
		return v
	case *ast.ForStmt:
		v.Init, v.Cond, v.Post = r.stmt(v.Init), r.expr(v.Cond), r.stmt(v.Post)
		r.block(v.Body)
		return v
	case *ast.RangeStmt:
		if r.isChanExpr(v.X) {
			// for v := range ch { B }  =>  for { v, ok := ch.Recv2(); if !ok { break }; B }
			okv := ast.NewIdent(fmt.Sprintf("verifRangeOk%d", r.tmp))
			r.tmp++
			var head []ast.Stmt
			recv := method(r.expr(v.X), "Recv2")
			switch {
			case v.Key == nil:
				head = append(head, &ast.AssignStmt{Lhs: []ast.Expr{ast.NewIdent("_"), okv}, Tok: token.DEFINE, Rhs: []ast.Expr{recv}})
			case v.Tok == token.DEFINE:
				head = append(head, &ast.AssignStmt{Lhs: []ast.Expr{v.Key, okv}, Tok: token.DEFINE, Rhs: []ast.Expr{recv}})
			default:
				tmpv := ast.NewIdent(fmt.Sprintf("verifRangeVal%d", r.tmp))
				r.tmp++
				head = append(head, &ast.AssignStmt{Lhs: []ast.Expr{tmpv, okv}, Tok: token.DEFINE, Rhs: []ast.Expr{recv}},
					&ast.AssignStmt{Lhs: []ast.Expr{r.expr(v.Key)}, Tok: token.ASSIGN, Rhs: []ast.Expr{tmpv}})
			}
			brk := &ast.IfStmt{Cond: &ast.UnaryExpr{Op: token.NOT, X: okv}, Body: &ast.BlockStmt{List: []ast.Stmt{&ast.BranchStmt{Tok: token.BREAK}}}}
			r.block(v.Body)
			// the break test comes right after the receive (before an assignment to an existing variable, Go leaves it untouched at the end)
			body := append([]ast.Stmt{head[0], brk}, head[1:]...)
			body = append(body, v.Body.List...)
			return &ast.ForStmt{Body: &ast.BlockStmt{List: body}}
		}
		v.X = r.expr(v.X)
		r.block(v.Body)
		return v
	case *ast.SwitchStmt:
		v.Init, v.Tag = r.stmt(v.Init), r.expr(v.Tag)
		r.block(v.Body)
		return v
	case *ast.TypeSwitchStmt:
		r.block(v.Body)
		return v
	case *ast.CaseClause:
		for i := range v.List {
			v.List[i] = r.expr(v.List[i])
		}
		v.Body = r.stmts(v.Body)
		return v
	case *ast.ReturnStmt:
		for i := range v.Results {
			v.Results[i] = r.expr(v.Results[i])
		}
		return v
	case *ast.DeferStmt:
		if isDoneCall(v.Call) {
			v.Call.Fun = r.expr(v.Call.Fun)
			return v
		}
		v.Call = r.expr(v.Call).(*ast.CallExpr)
		return v
	case *ast.LabeledStmt:
		v.Stmt = r.stmt(v.Stmt)
		return v
	case *ast.IncDecStmt:
		v.X = r.expr(v.X)
		return v
	}
	return s
}

func (r *rewriter) decl(d ast.Decl) {
	switch v := d.(type) {
	case *ast.GenDecl:
		for _, sp := range v.Specs {
			switch s := sp.(type) {
			case *ast.ValueSpec:
				s.Type = r.expr(s.Type)
				if len(s.Names) == 2 && len(s.Values) == 1 {
					if x, ok := isRecv(s.Values[0]); ok {
						s.Values[0] = method(r.expr(x), "Recv2")
						continue
					}
				}
				for i := range s.Values {
					s.Values[i] = r.expr(s.Values[i])
				}
			case *ast.TypeSpec:
				s.Type = r.expr(s.Type)
			}
		}
	case *ast.FuncDecl:
		r.fieldList(v.Recv)
		r.fieldList(v.Type.Params)
		r.fieldList(v.Type.Results)
		r.block(v.Body)
	}
}

func rewriteFile(src string) (out []byte, err error) {
	defer func() {
		if p := recover(); p != nil {
			if u, ok := p.(unsupported); ok {
				err = fmt.Errorf("%s: %s", src, string(u))
				return
			}
			panic(p)
		}
	}()
	fset := token.NewFileSet()
	f, perr := parser.ParseFile(fset, src, nil, 0)
	if perr != nil {
		return nil, perr
	}
	f.Comments = nil // positions shift; comments are irrelevant for the compiled variant
	r := &rewriter{fset: fset, splice: map[*ast.BlockStmt]bool{}, chanNames: collectChanNames(f)}
	for _, is := range f.Imports {
		if p, _ := strconv.Unquote(is.Path.Value); p == "sync/atomic" && (is.Name == nil || is.Name.Name == "atomic") {
			r.hasAtomic = true
		}
	}
	for _, d := range f.Decls {
		r.decl(d)
	}
	// imports
	var gd *ast.GenDecl
	for _, d := range f.Decls {
		if g, ok := d.(*ast.GenDecl); ok && g.Tok == token.IMPORT {
			gd = g
			for _, sp := range g.Specs {
				is := sp.(*ast.ImportSpec)
				p, _ := strconv.Unquote(is.Path.Value)
				if np, ok := importMap[p]; ok {
					is.Path.Value = strconv.Quote(np)
				}
			}
		}
	}
	addImport := func(path string) {
		sp := &ast.ImportSpec{Path: &ast.BasicLit{Kind: token.STRING, Value: strconv.Quote(path)}}
		if gd == nil {
			gd = &ast.GenDecl{Tok: token.IMPORT, Lparen: 1}
			f.Decls = append([]ast.Decl{gd}, f.Decls...)
		}
		gd.Specs = append(gd.Specs, sp)
		if !gd.Lparen.IsValid() {
			gd.Lparen = gd.Pos()
		}
	}
	if r.usedSched {
		addImport(shimBase + "vsched")
	}
	if r.usedChan {
		addImport(shimBase + "vchan")
	}
	var b bytes.Buffer
	if err := printer.Fprint(&b, token.NewFileSet(), f); err != nil {
		return nil, err
	}
	src2 := append([]byte(buildConstraints(src)), b.Bytes()...)
	res, ferr := format.Source(src2)
	if ferr != nil {
		return src2, nil
	}
	return res, nil
}

// needsRewrite: the file imports a package the shims replace, or contains goroutine / channel syntax.
func needsRewrite(path string) bool {
	fset := token.NewFileSet()
	f, err := parser.ParseFile(fset, path, nil, 0)
	if err != nil {
		return false
	}
	for _, is := range f.Imports {
		if p, _ := strconv.Unquote(is.Path.Value); importMap[p] != "" {
			return true
		}
	}
	found := false
	ast.Inspect(f, func(n ast.Node) bool {
		switch v := n.(type) {
		case *ast.GoStmt, *ast.ChanType, *ast.SendStmt, *ast.SelectStmt:
			found = true
		case *ast.UnaryExpr:
			if v.Op == token.ARROW {
				found = true
			}
		}
		return !found
	})
	return found
}

// buildConstraints returns the //go:build and // +build lines in front of the package clause (the rewritten file is
// printed without comments; these must survive).
func buildConstraints(path string) string {
	b, err := os.ReadFile(path)
	if err != nil {
		return ""
	}
	var out []string
	for _, line := range strings.Split(string(b), "\n") {
		t := strings.TrimSpace(line)
		if strings.HasPrefix(t, "package ") {
			break
		}
		if strings.HasPrefix(t, "//go:build ") || strings.HasPrefix(t, "// +build ") {
			out = append(out, t)
		}
	}
	if len(out) == 0 {
		return ""
	}
	return strings.Join(out, "\n") + "\n\n"
}

func main() {
	if len(os.Args) != 4 {
		fmt.Fprintln(os.Stderr, "usage: rewrite <repo> <shimdir> <outdir>")
		os.Exit(3)
	}
	repo, shim, out := os.Args[1], os.Args[2], os.Args[3]
	os.MkdirAll(out, 0o755)
	replace := map[string]string{}
	// every non-test source file below pkg/pow (the PoW packages and whatever internal packages they are split into)
	// that uses something the shims replace
	var rels []string
	filepath.Walk(filepath.Join(repo, "pkg", "pow"), func(path string, info os.FileInfo, err error) error {
		if err != nil || info.IsDir() || !strings.HasSuffix(path, ".go") || strings.HasSuffix(path, "_test.go") {
			return nil
		}
		if needsRewrite(path) {
			rel, _ := filepath.Rel(repo, path)
			rels = append(rels, rel)
		}
		return nil
	})
	sort.Strings(rels)
	for i, rel := range rels {
		src := filepath.Join(repo, rel)
		b, err := rewriteFile(src)
		if err != nil {
			fmt.Println("UNSUPPORTED:", err)
			os.Exit(4)
		}
		dst := filepath.Join(out, fmt.Sprintf("worker_%d.go", i))
		if err := os.WriteFile(dst, b, 0o644); err != nil {
			fmt.Fprintln(os.Stderr, err)
			os.Exit(3)
		}
		replace[src] = dst
	}
	for _, pkg := range []string{"vsched", "vsync", "vatomic", "vchan", "vbct", "vcurl", "vpcurl"} {
		files, _ := filepath.Glob(filepath.Join(shim, pkg, "*.go"))
		for _, f := range files {
			replace[filepath.Join(repo, "pkg", "verifshim", pkg, filepath.Base(f))] = f
		}
	}
	j, _ := json.MarshalIndent(map[string]interface{}{"Replace": replace}, "", " ")
	if err := os.WriteFile(filepath.Join(out, "overlay.json"), j, 0o644); err != nil {
		fmt.Fprintln(os.Stderr, err)
		os.Exit(3)
	}
	fmt.Println("overlay written:", filepath.Join(out, "overlay.json"))
}
