// Command vcheck dispatches to one check: vcheck <id> <quick|thorough>.
package main

import (
	"fmt"
	"os"

	_ "verifharness/checks"
	"verifharness/core"
)

func main() {
	if len(os.Args) < 3 {
		fmt.Fprintln(os.Stderr, "usage: vcheck <id> <quick|thorough>; ids:", core.IDs())
		os.Exit(2)
	}
	id, tier := os.Args[1], os.Args[2]
	if tier != "quick" && tier != "thorough" {
		fmt.Fprintln(os.Stderr, "tier must be quick or thorough")
		os.Exit(2)
	}
	ch, ok := core.Lookup(id)
	if !ok {
		fmt.Fprintln(os.Stderr, "unknown check", id, "; ids:", core.IDs())
		os.Exit(2)
	}
	c := core.New(id, tier, ch.Level)
	ch.Run(c)
	os.Exit(c.Finish())
}
