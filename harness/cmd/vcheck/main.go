// Command vcheck dispatches to one check: vcheck <id> <quick|thorough>.
//
// The check itself runs in a child process (same binary, VERIF_CHILD=1). If the child is killed by a
// fatal runtime error (stack overflow, unrecovered panic in a goroutine started by the code under
// test, concurrent map write, ...) whose stack contains frames of the repository under verification,
// the supervisor reports that as a violation with the crash log as replay artefact. A crash without
// repository frames is a machinery failure (exit 3), never a violation.
package main

import (
	"bytes"
	"fmt"
	"os"
	"os/exec"
	"path/filepath"
	"runtime/debug"
	"strings"

	_ "verifharness/checks"
	"verifharness/core"
)

func main() {
	if len(os.Args) < 3 {
		fmt.Fprintln(os.Stderr, "usage: vcheck <id> <quick|thorough>; ids:", core.IDs())
		os.Exit(3)
	}
	id, tier := os.Args[1], os.Args[2]
	if tier != "quick" && tier != "thorough" {
		fmt.Fprintln(os.Stderr, "tier must be quick or thorough")
		os.Exit(3)
	}
	ch, ok := core.Lookup(id)
	if !ok {
		fmt.Fprintln(os.Stderr, "unknown check", id, "; ids:", core.IDs())
		os.Exit(3)
	}
	if os.Getenv("VERIF_CHILD") == "1" {
		debug.SetMaxStack(256 << 20) // runaway recursion dies quickly instead of eating 1 GB
		c := core.New(id, tier, ch.Level)
		ch.Run(c)
		os.Exit(c.Finish())
	}
	cmd := exec.Command(os.Args[0], os.Args[1:]...)
	cmd.Env = append(os.Environ(), "VERIF_CHILD=1")
	cmd.Stdout = os.Stdout
	var errb bytes.Buffer
	cmd.Stderr = &errb
	err := cmd.Run()
	code := 0
	if err != nil {
		code = 3
		if ee, ok := err.(*exec.ExitError); ok {
			code = ee.ExitCode()
		}
	}
	if code == 0 || code == 1 || code == 3 {
		os.Stderr.Write(errb.Bytes())
		os.Exit(code)
	}
	// crash of the child (Go runtime exits with 2; -1 = killed by a signal)
	log := errb.String()
	tail := log
	if len(tail) > 6000 {
		tail = tail[:3000] + "\n...\n" + tail[len(tail)-3000:]
	}
	crash := filepath.Join(core.VerifDir, "replays", id+"_process-crash.json")
	if strings.Contains(log, "github.com/wollac/iota-crypto-demo/") {
		os.MkdirAll(filepath.Dir(crash), 0o755)
		first := strings.SplitN(log, "\n", 4)
		os.WriteFile(crash, []byte(fmt.Sprintf("{\n \"property\": %q,\n \"key\": %q,\n \"what\": %q,\n \"log\": %q\n}\n",
			id, id+"/process-crash", "the check's process died inside repository code: "+strings.Join(first[:min(3, len(first))], " | "), tail)), 0o644)
		fmt.Printf("VIOLATION property=%s replay=%s\n  key=%s/process-crash: %s\n", id, crash, id, strings.Join(first[:min(3, len(first))], " | "))
		os.Exit(1)
	}
	fmt.Fprintln(os.Stderr, tail)
	fmt.Printf("CRASH property=%s (no repository frames in the stack; machinery failure, exit code %d)\n", id, code)
	os.Exit(3)
}
