// A consumer that links NOTHING but pkg/pow/v2 and the standard library: what a registration side effect of some other
// import of the harness (hash functions registering themselves with package crypto, init-time tables) would hide.
package main

import (
	"context"
	"encoding/binary"
	"fmt"
	"os"
	"time"

	pow "github.com/wollac/iota-crypto-demo/pkg/pow/v2"
)

func main() {
	defer func() {
		if p := recover(); p != nil {
			fmt.Printf("STANDALONE panic: %v\n", p)
			os.Exit(0)
		}
	}()
	data := []byte("standalone consumer")
	target := uint64(81 / (len(data) + 8))
	ctx, cancel := context.WithTimeout(context.Background(), 2*time.Minute)
	defer cancel()
	nonce, err := pow.New(2).Mine(ctx, data, target)
	if err != nil {
		fmt.Printf("STANDALONE error: %v\n", err)
		return
	}
	msg := append(append([]byte{}, data...), make([]byte, 8)...)
	binary.LittleEndian.PutUint64(msg[len(data):], nonce)
	fmt.Printf("STANDALONE ok nonce=%d meets=%v\n", nonce, pow.Score(msg) >= target)
}
