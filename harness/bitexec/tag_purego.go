//go:build purego

package bitexec

// PureGo reports whether this binary was built with the purego tag, i.e. whether the repository's
// curl.transform is the portable code (transform_noasm.go) instead of the amd64 assembly.
const PureGo = true
