package bitexec

// The executor's value domain. Every machine word is a concrete 64-bit value plus a kind:
//
//	Control  a plain integer that does not depend on the buffer contents (loop counters, indexes,
//	         immediates, booleans of comparisons between such integers);
//	Pointer  an address inside one of the four buffers: buffer id + byte offset;
//	Data     a word that came from (or was computed from) buffer contents. It carries the set of
//	         input words it was computed from, the labelling epoch of those inputs and the flag
//	         "lanewise" that stays set only while the word was produced exclusively by lane-wise
//	         operations (copy, AND, OR, XOR, NOT, ANDN between data words or with the constants 0
//	         and all-ones);
//	Undef    unknown content (uninitialised register, result of an out-of-bounds load, address
//	         arithmetic the executor does not model). It poisons everything computed from it.
//
// The representation is allocation free: a dependency set holds at most maxDeps entries (a correct
// round needs 4); larger sets only remember that they overflowed.

// Kind is the kind of a machine word.
type Kind uint8

const (
	Undef Kind = iota
	Control
	Pointer
	Data
)

func (k Kind) String() string {
	switch k {
	case Control:
		return "control"
	case Pointer:
		return "pointer"
	case Data:
		return "data"
	}
	return "undef"
}

const (
	// N is the number of words of one buffer.
	N = 729
	// NumBufs is the number of buffers handed to the permutation.
	NumBufs = 4
	maxDeps = 5

	fLanewise = 1 << 0 // only lane-wise operations so far
	fOverflow = 1 << 1 // dependency set larger than maxDeps
	fStale    = 1 << 2 // mixes inputs of different labelling epochs
)

// Buffer ids, in argument order of transform(lto, hto, lfrom, hfrom).
const (
	BufLTo = iota
	BufHTo
	BufLFrom
	BufHFrom
)

// BufName names a buffer id.
func BufName(b int) string {
	switch b {
	case BufLTo:
		return "lto"
	case BufHTo:
		return "hto"
	case BufLFrom:
		return "lfrom"
	case BufHFrom:
		return "hfrom"
	}
	return "?"
}

// Word is one machine word of the executor.
type Word struct {
	V     uint64 // concrete value; for a Pointer the signed byte offset inside buffer Buf
	Kind  Kind
	Buf   int8
	Flags uint8
	NDeps uint8
	Epoch uint16          // labelling epoch of the inputs (0 = none)
	Deps  [maxDeps]uint16 // sorted input word ids: buffer*N + index
}

// Ctl makes a control word.
func Ctl(v uint64) Word { return Word{V: v, Kind: Control} }

// Ptr makes a pointer to byte offset off of buffer buf.
func Ptr(buf int, off int64) Word { return Word{V: uint64(off), Kind: Pointer, Buf: int8(buf)} }

// Input makes a freshly labelled input word.
func Input(v uint64, id uint16, epoch uint16) Word {
	w := Word{V: v, Kind: Data, Flags: fLanewise, NDeps: 1, Epoch: epoch}
	w.Deps[0] = id
	return w
}

// Lanewise reports whether a data word was produced by lane-wise operations only.
func (w Word) Lanewise() bool { return w.Flags&fLanewise != 0 && w.Flags&(fOverflow|fStale) == 0 }

// DepList returns the dependency set as a slice (nil, false if it overflowed).
func (w Word) DepList() ([]uint16, bool) {
	if w.Flags&fOverflow != 0 {
		return nil, false
	}
	return append([]uint16(nil), w.Deps[:w.NDeps]...), true
}

// mergeMeta fills the dependency set, epoch and flags of a data result from its two operands
// (either may be a control word, which contributes nothing).
func mergeMeta(r *Word, a, b *Word, lanewise bool) {
	r.Kind = Data
	lw, sticky := lanewise, uint8(0)
	if a.Kind == Data {
		lw = lw && a.Flags&fLanewise != 0
		sticky |= a.Flags & (fOverflow | fStale)
	}
	if b.Kind == Data {
		lw = lw && b.Flags&fLanewise != 0
		sticky |= b.Flags & (fOverflow | fStale)
	}
	fl := sticky
	if lw {
		fl |= fLanewise
	}
	// epoch
	ea, eb := uint16(0), uint16(0)
	if a.Kind == Data {
		ea = a.Epoch
	}
	if b.Kind == Data {
		eb = b.Epoch
	}
	switch {
	case ea == 0:
		r.Epoch = eb
	case eb == 0 || ea == eb:
		r.Epoch = ea
	default:
		r.Epoch = ea
		fl |= fStale
	}
	// dependency union (both sorted)
	var na, nb int
	if a.Kind == Data {
		na = int(a.NDeps)
	}
	if b.Kind == Data {
		nb = int(b.NDeps)
	}
	i, j, n := 0, 0, 0
	for i < na || j < nb {
		var d uint16
		switch {
		case j >= nb || (i < na && a.Deps[i] < b.Deps[j]):
			d = a.Deps[i]
			i++
		case i >= na || b.Deps[j] < a.Deps[i]:
			d = b.Deps[j]
			j++
		default:
			d = a.Deps[i]
			i++
			j++
		}
		if n == maxDeps {
			fl |= fOverflow
			break
		}
		r.Deps[n] = d
		n++
	}
	r.NDeps = uint8(n)
	r.Flags = fl
}

// LogicOp is a lane-wise two-operand operation.
type LogicOp uint8

const (
	OpAnd LogicOp = iota
	OpOr
	OpXor
	OpAndNot // a &^ b
)

func logicVal(op LogicOp, a, b uint64) uint64 {
	switch op {
	case OpAnd:
		return a & b
	case OpOr:
		return a | b
	case OpXor:
		return a ^ b
	}
	return a &^ b
}

// Logic computes a lane-wise operation. Between two data words, or a data word and the constants
// 0 / all-ones, the result stays lane-wise; any other constant makes the lane function differ from
// lane to lane, so lanewise is cleared. Pointers and undefined words give an undefined result.
func Logic(op LogicOp, a, b Word) Word {
	r := Word{V: logicVal(op, a.V, b.V)}
	switch {
	case a.Kind == Control && b.Kind == Control:
		r.Kind = Control
	case (a.Kind == Data || a.Kind == Control) && (b.Kind == Data || b.Kind == Control):
		lw := true
		if a.Kind == Control && a.V != 0 && a.V != ^uint64(0) {
			lw = false
		}
		if b.Kind == Control && b.V != 0 && b.V != ^uint64(0) {
			lw = false
		}
		mergeMeta(&r, &a, &b, lw)
	default:
		r.Kind = Undef
	}
	return r
}

// Not is the lane-wise complement.
func Not(a Word) Word {
	r := a
	r.V = ^a.V
	if a.Kind == Pointer {
		return Word{V: r.V, Kind: Undef}
	}
	return r
}

// ArithOp is an integer operation that is not lane-wise.
type ArithOp uint8

const (
	OpAdd ArithOp = iota
	OpSub
	OpMul
	OpShl
	OpShr // logical
	OpSar // arithmetic
)

func arithVal(op ArithOp, a, b uint64) uint64 {
	switch op {
	case OpAdd:
		return a + b
	case OpSub:
		return a - b
	case OpMul:
		return a * b
	case OpShl:
		if b >= 64 {
			return 0
		}
		return a << b
	case OpShr:
		if b >= 64 {
			return 0
		}
		return a >> b
	}
	if b >= 64 {
		b = 63
	}
	return uint64(int64(a) >> b)
}

// Arith computes a op b. Control op control is control; pointer +/- control is a pointer into the
// same buffer; the difference of two pointers into the same buffer is control; anything involving a
// data word is a data word that is no longer lane-wise.
func Arith(op ArithOp, a, b Word) Word {
	r := Word{V: arithVal(op, a.V, b.V)}
	switch {
	case a.Kind == Control && b.Kind == Control:
		r.Kind = Control
	case a.Kind == Pointer && b.Kind == Control && (op == OpAdd || op == OpSub):
		r.Kind, r.Buf = Pointer, a.Buf
	case a.Kind == Control && b.Kind == Pointer && op == OpAdd:
		r.Kind, r.Buf = Pointer, b.Buf
	case a.Kind == Pointer && b.Kind == Pointer && op == OpSub && a.Buf == b.Buf:
		r.Kind = Control
	case (a.Kind == Data || a.Kind == Control) && (b.Kind == Data || b.Kind == Control):
		mergeMeta(&r, &a, &b, false)
	default:
		r.Kind = Undef
	}
	return r
}

// CmpKind tells on what a comparison of a and b depends: Control if the outcome is the same for
// every input state (integers; pointers into the same buffer), Data if it depends on buffer
// contents, Undef otherwise.
func CmpKind(a, b Word) Kind {
	switch {
	case a.Kind == Control && b.Kind == Control:
		return Control
	case a.Kind == Pointer && b.Kind == Pointer && a.Buf == b.Buf:
		return Control
	case a.Kind == Undef || b.Kind == Undef || a.Kind == Pointer || b.Kind == Pointer:
		return Undef
	}
	return Data
}
