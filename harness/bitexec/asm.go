package bitexec

import (
	"fmt"
	"os"
	"regexp"
	"strconv"
	"strings"
)

// Front end 1: parser and interpreter for the Plan-9 amd64 assembly text of the permutation.
//
// Operand order is Plan 9's: the destination is last (SUBQ $2, R11 means R11 -= 2), except for
// CMPQ a, b which sets the flags of a - b, so that "CMPQ R12, $0x2d9; JL x" jumps if R12 < 0x2d9.
//
// Anything the parser does not know becomes an opUnsupported instruction; if execution reaches it,
// the run stops with an "unsupported:<text>" entry (never a violation, never a crash).

type opcode uint8

const (
	opUnsupported opcode = iota
	opNOP
	opMOVQ
	opXORQ
	opANDQ
	opORQ
	opNOTQ
	opANDNQ
	opADDQ
	opSUBQ
	opINCQ
	opDECQ
	opNEGQ
	opLEAQ
	opXCHGQ
	opCMPQ
	opTESTQ
	opSHLQ
	opSHRQ
	opSARQ
	opJMP
	opJcc
	opRET
)

type opdKind uint8

const (
	okNone opdKind = iota
	okImm
	okReg
	okMem   // disp(base)(index*scale)
	okFP    // name+off(FP)
	okLabel // jump target
)

type operand struct {
	kind  opdKind
	reg   int8 // register / base register (-1: none)
	index int8 // index register (-1: none)
	scale int64
	disp  int64
	imm   uint64
	name  string
}

type cond uint8

const (
	ccEQ cond = iota
	ccNE
	ccLT
	ccGE
	ccLE
	ccGT
	ccCS
	ccCC
	ccHI
	ccLS
	ccMI
	ccPL
	ccOS
	ccOC
)

const (
	flZ = 1 << iota
	flS
	flC
	flO
)

// flags each condition reads
var condNeeds = [...]uint8{ccEQ: flZ, ccNE: flZ, ccLT: flS | flO, ccGE: flS | flO, ccLE: flZ | flS | flO, ccGT: flZ | flS | flO,
	ccCS: flC, ccCC: flC, ccHI: flC | flZ, ccLS: flC | flZ, ccMI: flS, ccPL: flS, ccOS: flO, ccOC: flO}

var jccTable = map[string]cond{
	"JEQ": ccEQ, "JE": ccEQ, "JZ": ccEQ,
	"JNE": ccNE, "JNZ": ccNE,
	"JLT": ccLT, "JL": ccLT, "JNGE": ccLT,
	"JGE": ccGE, "JNL": ccGE,
	"JLE": ccLE, "JNG": ccLE,
	"JGT": ccGT, "JG": ccGT, "JNLE": ccGT,
	"JCS": ccCS, "JB": ccCS, "JC": ccCS, "JLO": ccCS, "JNAE": ccCS,
	"JCC": ccCC, "JAE": ccCC, "JNC": ccCC, "JHS": ccCC, "JNB": ccCC,
	"JHI": ccHI, "JA": ccHI, "JNBE": ccHI,
	"JLS": ccLS, "JBE": ccLS, "JNA": ccLS,
	"JMI": ccMI, "JS": ccMI,
	"JPL": ccPL, "JNS": ccPL,
	"JOS": ccOS, "JO": ccOS,
	"JOC": ccOC, "JNO": ccOC,
}

var opTable = map[string]struct {
	op    opcode
	nargs int
}{
	"NOP": {opNOP, 0}, "MOVQ": {opMOVQ, 2}, "XORQ": {opXORQ, 2}, "ANDQ": {opANDQ, 2}, "ORQ": {opORQ, 2},
	"NOTQ": {opNOTQ, 1}, "ANDNQ": {opANDNQ, 3}, "ADDQ": {opADDQ, 2}, "SUBQ": {opSUBQ, 2}, "INCQ": {opINCQ, 1},
	"DECQ": {opDECQ, 1}, "NEGQ": {opNEGQ, 1}, "LEAQ": {opLEAQ, 2}, "XCHGQ": {opXCHGQ, 2}, "CMPQ": {opCMPQ, 2},
	"TESTQ": {opTESTQ, 2}, "SHLQ": {opSHLQ, 2}, "SALQ": {opSHLQ, 2}, "SHRQ": {opSHRQ, 2}, "SARQ": {opSARQ, 2},
	"JMP": {opJMP, 1}, "RET": {opRET, 0},
}

var regNames = map[string]int8{"AX": 0, "CX": 1, "DX": 2, "BX": 3, "BP": 5, "SI": 6, "DI": 7,
	"R8": 8, "R9": 9, "R10": 10, "R11": 11, "R12": 12, "R13": 13, "R14": 14, "R15": 15}

var regList = func() [16]string {
	var l [16]string
	for n, i := range regNames {
		l[i] = n
	}
	l[4] = "SP"
	return l
}()

type asmInstr struct {
	op     opcode
	cc     cond
	a      [3]operand
	n      int
	target int // resolved jump target (index into Instrs), -1 if unresolved
	text   string
	line   int
}

// AsmProgram is one parsed TEXT block.
type AsmProgram struct {
	File     string
	Symbol   string
	Instrs   []asmInstr
	Labels   map[string]int
	LoopHead int      // index of the round-loop head (target of the outermost backward jump), -1: none
	Problems []string // parse-time problems (reported as unsupported only if they matter)
	ArgSize  int64
}

var (
	reText    = regexp.MustCompile(`^TEXT\s+([^\s,(]+)\(SB\)\s*,(?:\s*([A-Za-z0-9_|]+)\s*,)?\s*\$(-?\d+)(?:-(\d+))?`)
	reLabel   = regexp.MustCompile(`^([A-Za-z_\.][A-Za-z0-9_\.]*):`)
	reMemFull = regexp.MustCompile(`^([^()]*)\(([A-Za-z0-9]+)\)(?:\(([A-Za-z0-9]+)\*([0-9]+)\))?$`)
	reMemIdx  = regexp.MustCompile(`^([^()]*)\(([A-Za-z0-9]+)\*([0-9]+)\)$`)
	reFPName  = regexp.MustCompile(`^([A-Za-z_][A-Za-z0-9_]*)([+-]\d+)$`)
	reIdent   = regexp.MustCompile(`^[A-Za-z_\.][A-Za-z0-9_\.]*$`)
)

// The argument frame of transform(lto, hto, lfrom, hfrom *[729]uint).
var fpArgs = map[int64]struct {
	name string
	buf  int
}{0: {"lto", BufLTo}, 8: {"hto", BufHTo}, 16: {"lfrom", BufLFrom}, 24: {"hfrom", BufHFrom}}

func parseInt(s string) (int64, bool) {
	s = strings.TrimSpace(s)
	if s == "" {
		return 0, true
	}
	if v, err := strconv.ParseInt(s, 0, 64); err == nil {
		return v, true
	}
	if v, err := strconv.ParseUint(s, 0, 64); err == nil {
		return int64(v), true
	}
	return 0, false
}

func parseOperand(s string, jump bool) (operand, bool) {
	s = strings.TrimSpace(s)
	o := operand{reg: -1, index: -1, scale: 1}
	if s == "" {
		return o, false
	}
	if strings.HasPrefix(s, "$") {
		v, ok := parseInt(s[1:])
		if !ok || len(s) == 1 {
			return o, false
		}
		o.kind, o.imm = okImm, uint64(v)
		return o, true
	}
	if r, ok := regNames[s]; ok && !jump {
		o.kind, o.reg = okReg, r
		return o, true
	}
	if mm := reMemFull.FindStringSubmatch(s); mm != nil {
		base := mm[2]
		switch base {
		case "FP":
			if mm[3] != "" {
				return o, false
			}
			nm := reFPName.FindStringSubmatch(strings.TrimSpace(mm[1]))
			if nm == nil {
				return o, false
			}
			off, ok := parseInt(strings.TrimPrefix(nm[2], "+"))
			if !ok {
				return o, false
			}
			o.kind, o.name, o.disp = okFP, nm[1], off
			return o, true
		case "PC":
			if !jump || mm[3] != "" {
				return o, false
			}
			off, ok := parseInt(mm[1])
			if !ok {
				return o, false
			}
			o.kind, o.name, o.disp = okLabel, "", off
			return o, true
		case "SP", "SB":
			return o, false
		}
		r, ok := regNames[base]
		if !ok {
			return o, false
		}
		d, ok := parseInt(mm[1])
		if !ok {
			return o, false
		}
		o.kind, o.reg, o.disp = okMem, r, d
		if mm[3] != "" {
			ix, ok := regNames[mm[3]]
			sc, ok2 := parseInt(mm[4])
			if !ok || !ok2 || (sc != 1 && sc != 2 && sc != 4 && sc != 8) {
				return o, false
			}
			o.index, o.scale = ix, sc
		}
		return o, true
	}
	if mm := reMemIdx.FindStringSubmatch(s); mm != nil {
		ix, ok := regNames[mm[2]]
		sc, ok2 := parseInt(mm[3])
		d, ok3 := parseInt(mm[1])
		if !ok || !ok2 || !ok3 || (sc != 1 && sc != 2 && sc != 4 && sc != 8) {
			return o, false
		}
		o.kind, o.index, o.scale, o.disp = okMem, ix, sc, d
		return o, true
	}
	if jump && reIdent.MatchString(s) {
		o.kind, o.name = okLabel, s
		return o, true
	}
	return o, false
}

// ParseAsmFile reads the assembly file and parses the TEXT block of the given symbol
// (for example "·transform").
func ParseAsmFile(path, symbol string) (*AsmProgram, error) {
	b, err := os.ReadFile(path)
	if err != nil {
		return nil, err
	}
	p, err := ParseAsm(string(b), symbol)
	if p != nil {
		p.File = path
	}
	return p, err
}

// ParseAsm parses assembly source text.
func ParseAsm(src, symbol string) (*AsmProgram, error) {
	p := &AsmProgram{Symbol: symbol, Labels: map[string]int{}, LoopHead: -1}
	in := false
	found := false
	for ln, raw := range strings.Split(src, "\n") {
		line := raw
		if i := strings.Index(line, "//"); i >= 0 {
			line = line[:i]
		}
		line = strings.TrimSpace(line)
		if line == "" || strings.HasPrefix(line, "#") {
			continue
		}
		if strings.HasPrefix(line, "TEXT") {
			mm := reText.FindStringSubmatch(line)
			if mm != nil && mm[1] == symbol {
				if found {
					return nil, fmt.Errorf("symbol %s defined twice", symbol)
				}
				in, found = true, true
				if mm[4] != "" {
					p.ArgSize, _ = strconv.ParseInt(mm[4], 10, 64)
				}
				if mm[3] != "0" {
					p.Problems = append(p.Problems, "frame size $"+mm[3]+" (stack locals are not modelled)")
				}
			} else {
				in = false
			}
			continue
		}
		if !in {
			continue
		}
		for _, stmt := range strings.Split(line, ";") {
			stmt = strings.TrimSpace(stmt)
			for {
				mm := reLabel.FindStringSubmatch(stmt)
				if mm == nil {
					break
				}
				if _, dup := p.Labels[mm[1]]; dup {
					return nil, fmt.Errorf("line %d: label %s defined twice", ln+1, mm[1])
				}
				p.Labels[mm[1]] = len(p.Instrs)
				stmt = strings.TrimSpace(stmt[len(mm[0]):])
			}
			if stmt == "" {
				continue
			}
			p.Instrs = append(p.Instrs, parseInstr(stmt, ln+1))
		}
	}
	if !found {
		return nil, fmt.Errorf("TEXT %s(SB) not found", symbol)
	}
	// resolve jump targets
	for i := range p.Instrs {
		ins := &p.Instrs[i]
		if ins.op != opJMP && ins.op != opJcc {
			continue
		}
		ins.target = -1
		o := ins.a[0]
		if o.kind != okLabel {
			ins.op = opUnsupported
			continue
		}
		if o.name == "" {
			t := i + int(o.disp)
			if t >= 0 && t <= len(p.Instrs) {
				ins.target = t
			}
		} else if t, ok := p.Labels[o.name]; ok {
			ins.target = t
		}
		if ins.target < 0 {
			ins.op = opUnsupported
		}
	}
	p.findLoopHead()
	return p, nil
}

func parseInstr(stmt string, line int) asmInstr {
	ins := asmInstr{text: strings.Join(strings.Fields(stmt), " "), line: line, target: -1}
	f := strings.Fields(stmt)
	mn := f[0]
	rest := strings.TrimSpace(stmt[len(mn):])
	var args []string
	if rest != "" {
		args = strings.Split(rest, ",")
	}
	if cc, ok := jccTable[mn]; ok {
		if len(args) != 1 {
			return ins
		}
		o, ok := parseOperand(args[0], true)
		if !ok {
			return ins
		}
		ins.op, ins.cc, ins.a[0], ins.n = opJcc, cc, o, 1
		return ins
	}
	ent, ok := opTable[mn]
	if !ok || len(args) != ent.nargs {
		return ins
	}
	for i, a := range args {
		o, ok := parseOperand(a, ent.op == opJMP)
		if !ok {
			return ins
		}
		ins.a[i] = o
	}
	ins.n = len(args)
	// operand-form restrictions of the real instructions
	if ins.n == 0 {
		ins.op = ent.op
		return ins
	}
	last := ins.a[ins.n-1]
	switch ent.op {
	case opMOVQ, opXORQ, opANDQ, opORQ, opADDQ, opSUBQ, opSHLQ, opSHRQ, opSARQ:
		if last.kind == okImm || (ins.a[0].kind == okMem && last.kind == okMem) || (ent.op != opMOVQ && (last.kind == okFP || ins.a[0].kind == okFP)) {
			return ins
		}
		if ent.op == opMOVQ && last.kind == okFP {
			return ins // stores to the argument frame are not modelled
		}
	case opNOTQ, opINCQ, opDECQ, opNEGQ:
		if last.kind != okReg && last.kind != okMem {
			return ins
		}
	case opANDNQ:
		if ins.a[1].kind != okReg || ins.a[2].kind != okReg || (ins.a[0].kind != okReg && ins.a[0].kind != okMem) {
			return ins
		}
	case opLEAQ:
		if ins.a[0].kind != okMem || last.kind != okReg {
			return ins
		}
	case opXCHGQ:
		if ins.a[0].kind == okImm || last.kind == okImm || ins.a[0].kind == okFP || last.kind == okFP || (ins.a[0].kind == okMem && last.kind == okMem) {
			return ins
		}
	case opCMPQ, opTESTQ:
		if ins.a[0].kind == okFP || last.kind == okFP || (ins.a[0].kind == okMem && last.kind == okMem) {
			return ins
		}
	}
	ins.op = ent.op
	return ins
}

// findLoopHead finds the target of the outermost backward jump: the round loop.
func (p *AsmProgram) findLoopHead() {
	type iv struct{ t, j int }
	var back []iv
	for j, ins := range p.Instrs {
		if (ins.op == opJMP || ins.op == opJcc) && ins.target >= 0 && ins.target <= j {
			back = append(back, iv{ins.target, j})
		}
	}
	// an interval is outermost if no other backward jump strictly contains it
	heads := map[int]bool{}
	for _, x := range back {
		outer := true
		for _, y := range back {
			if y != x && y.t <= x.t && y.j >= x.j {
				outer = false
			}
		}
		if outer {
			heads[x.t] = true
		}
	}
	switch len(heads) {
	case 1:
		for t := range heads {
			p.LoopHead = t
		}
	case 0:
		p.Problems = append(p.Problems, "no backward jump: no round loop found")
	default:
		p.Problems = append(p.Problems, "several outermost loops: round structure not recognised")
	}
}

// asmFlags is the flag register with provenance.
type asmFlags struct {
	z, s, c, o bool
	defined    uint8 // which flags hold a defined value
	kind       Kind  // Control: same for every input state; Data: depends on buffer contents
}

func (f *asmFlags) eval(cc cond) bool {
	switch cc {
	case ccEQ:
		return f.z
	case ccNE:
		return !f.z
	case ccLT:
		return f.s != f.o
	case ccGE:
		return f.s == f.o
	case ccLE:
		return f.z || f.s != f.o
	case ccGT:
		return !f.z && f.s == f.o
	case ccCS:
		return f.c
	case ccCC:
		return !f.c
	case ccHI:
		return !f.c && !f.z
	case ccLS:
		return f.c || f.z
	case ccMI:
		return f.s
	case ccPL:
		return !f.s
	case ccOS:
		return f.o
	}
	return !f.o
}

type asmRun struct {
	p    *AsmProgram
	m    *Machine
	regs [16]Word
	fl   asmFlags
	pc   int
}

// Run executes the program on the machine until RET or until the machine stops.
func (p *AsmProgram) Run(m *Machine) {
	r := &asmRun{p: p, m: m}
	m.Where = func() string {
		if r.pc >= 0 && r.pc < len(p.Instrs) {
			return fmt.Sprintf("line %d: %s", p.Instrs[r.pc].line, p.Instrs[r.pc].text)
		}
		return "end of text"
	}
	if p.LoopHead < 0 && m.Symbolic {
		m.Unsupported(strings.Join(p.Problems, "; "))
		return
	}
	for !m.Stopped {
		if r.pc == p.LoopHead {
			m.Boundary(false)
			if m.Stopped {
				return
			}
		}
		if r.pc < 0 || r.pc >= len(p.Instrs) {
			m.Unsupported("control runs off the end of the TEXT block")
			return
		}
		if !m.Tick() {
			return
		}
		if r.step(&p.Instrs[r.pc]) {
			m.Boundary(true)
			return
		}
	}
}

// ea computes the effective address of a memory operand as a machine word.
func (r *asmRun) ea(o *operand) Word {
	base := Ctl(0)
	if o.reg >= 0 {
		base = r.regs[o.reg]
	}
	w := base
	if base.Kind == Data || (o.index >= 0 && r.regs[o.index].Kind == Data) {
		return Word{Kind: Data} // address computed from buffer contents: Load/Store report it
	}
	if o.index >= 0 {
		ix := r.regs[o.index]
		w = Arith(OpAdd, base, Arith(OpMul, ix, Ctl(uint64(o.scale))))
		if ix.Kind == Pointer && o.scale != 1 {
			w = Word{}
		}
	}
	if o.disp != 0 {
		w = Arith(OpAdd, w, Ctl(uint64(o.disp)))
	}
	return w
}

func (r *asmRun) get(o *operand) Word {
	switch o.kind {
	case okImm:
		return Ctl(o.imm)
	case okReg:
		return r.regs[o.reg]
	case okMem:
		return r.m.Load(r.ea(o))
	case okFP:
		a, ok := fpArgs[o.disp]
		if !ok || (r.p.ArgSize > 0 && o.disp >= r.p.ArgSize) {
			r.m.Violation("oob", fmt.Sprintf("load from the argument frame at %s+%d(FP): outside the four pointer arguments (at %s)",
				o.name, o.disp, r.m.Where()),
				accessCase{Frontend: r.m.Frontend, Access: "load(FP)", At: r.m.Where(), Kind: "frame", ByteOff: o.disp, Round: r.m.Rounds + 1})
			return Word{}
		}
		if a.name != o.name {
			// the assembler (go vet asmdecl) would reject the name; the offset decides
			r.m.Note("fp-name-mismatch", fmt.Sprintf("%s+%d(FP) names the argument %q", o.name, o.disp, a.name), nil)
		}
		return Ptr(a.buf, 0)
	}
	return Word{}
}

func (r *asmRun) put(o *operand, w Word) {
	switch o.kind {
	case okReg:
		r.regs[o.reg] = w
	case okMem:
		r.m.Store(r.ea(o), w)
	}
}

func msb(v uint64) bool { return v>>63 != 0 }

// setZS sets ZF and SF from a result.
func (r *asmRun) setZS(v uint64) { r.fl.z, r.fl.s = v == 0, msb(v) }

// flagKind is the provenance of flags computed from a result word (and, for a subtraction, from
// its two operands).
func flagKind(res Word) Kind {
	switch res.Kind {
	case Control:
		return Control
	case Data:
		return Data
	}
	return Undef
}

// step executes one instruction; it returns true on RET.
func (r *asmRun) step(ins *asmInstr) bool {
	m := r.m
	next := r.pc + 1
	switch ins.op {
	case opNOP:
	case opMOVQ:
		r.put(&ins.a[1], r.get(&ins.a[0]))
	case opXORQ, opANDQ, opORQ:
		src, dst := r.get(&ins.a[0]), r.get(&ins.a[1])
		op := OpXor
		if ins.op == opANDQ {
			op = OpAnd
		} else if ins.op == opORQ {
			op = OpOr
		}
		res := Logic(op, dst, src)
		r.put(&ins.a[1], res)
		r.setZS(res.V)
		r.fl.c, r.fl.o, r.fl.defined, r.fl.kind = false, false, flZ|flS|flC|flO, flagKind(res)
	case opANDNQ:
		// ANDNQ a, b, c: c = ^b & a
		a, b := r.get(&ins.a[0]), r.get(&ins.a[1])
		res := Logic(OpAndNot, a, b)
		r.put(&ins.a[2], res)
		r.setZS(res.V)
		r.fl.c, r.fl.o, r.fl.defined, r.fl.kind = false, false, flZ|flS|flC|flO, flagKind(res)
	case opTESTQ:
		a, b := r.get(&ins.a[0]), r.get(&ins.a[1])
		res := Logic(OpAnd, b, a)
		r.setZS(res.V)
		r.fl.c, r.fl.o, r.fl.defined, r.fl.kind = false, false, flZ|flS|flC|flO, flagKind(res)
	case opNOTQ:
		r.put(&ins.a[0], Not(r.get(&ins.a[0]))) // no flags
	case opADDQ:
		src, dst := r.get(&ins.a[0]), r.get(&ins.a[1])
		res := Arith(OpAdd, dst, src)
		r.put(&ins.a[1], res)
		r.setZS(res.V)
		r.fl.c = res.V < dst.V
		r.fl.o = msb((dst.V ^ res.V) & (src.V ^ res.V))
		r.fl.defined, r.fl.kind = flZ|flS|flC|flO, flagKind(res)
	case opSUBQ, opCMPQ:
		var src, dst Word
		if ins.op == opSUBQ {
			src, dst = r.get(&ins.a[0]), r.get(&ins.a[1])
		} else {
			dst, src = r.get(&ins.a[0]), r.get(&ins.a[1]) // CMPQ a, b: flags of a - b
		}
		res := Arith(OpSub, dst, src)
		if ins.op == opSUBQ {
			r.put(&ins.a[1], res)
		}
		r.setZS(res.V)
		r.fl.c = dst.V < src.V
		r.fl.o = msb((dst.V ^ src.V) & (dst.V ^ res.V))
		r.fl.defined, r.fl.kind = flZ|flS|flC|flO, CmpKind(dst, src)
	case opINCQ, opDECQ:
		dst := r.get(&ins.a[0])
		var res Word
		if ins.op == opINCQ {
			res = Arith(OpAdd, dst, Ctl(1))
			r.fl.o = res.V == 1<<63
		} else {
			res = Arith(OpSub, dst, Ctl(1))
			r.fl.o = dst.V == 1<<63
		}
		r.put(&ins.a[0], res)
		r.setZS(res.V)
		// CF is preserved by the CPU; the executor does not track mixed provenance: mark it undefined
		r.fl.defined, r.fl.kind = flZ|flS|flO, flagKind(res)
	case opNEGQ:
		dst := r.get(&ins.a[0])
		res := Arith(OpSub, Ctl(0), dst)
		r.put(&ins.a[0], res)
		r.setZS(res.V)
		r.fl.c, r.fl.o = dst.V != 0, dst.V == 1<<63
		r.fl.defined, r.fl.kind = flZ|flS|flC|flO, flagKind(res)
	case opSHLQ, opSHRQ, opSARQ:
		cnt, dst := r.get(&ins.a[0]), r.get(&ins.a[1])
		if cnt.Kind == Control {
			cnt.V &= 63
		}
		op := OpShl
		if ins.op == opSHRQ {
			op = OpShr
		} else if ins.op == opSARQ {
			op = OpSar
		}
		res := Arith(op, dst, cnt)
		r.put(&ins.a[1], res)
		if cnt.Kind != Control {
			r.fl.defined, r.fl.kind = 0, Undef
		} else if c := cnt.V; c != 0 {
			r.setZS(res.V)
			if op == OpShl {
				r.fl.c = dst.V>>(64-c)&1 != 0
				r.fl.o = msb(res.V) != r.fl.c
			} else {
				r.fl.c = dst.V>>(c-1)&1 != 0
				r.fl.o = op == OpShr && msb(dst.V)
			}
			r.fl.defined = flZ | flS | flC
			if c == 1 {
				r.fl.defined |= flO
			}
			r.fl.kind = flagKind(res)
		}
	case opLEAQ:
		r.put(&ins.a[1], r.ea(&ins.a[0]))
	case opXCHGQ:
		a, b := r.get(&ins.a[0]), r.get(&ins.a[1])
		r.put(&ins.a[0], b)
		r.put(&ins.a[1], a)
	case opJMP:
		next = ins.target
	case opJcc:
		need := condNeeds[ins.cc]
		if r.fl.defined&need != need || r.fl.kind == Undef {
			m.Unsupported(fmt.Sprintf("%s (line %d): the flags it reads are not defined by the model here", ins.text, ins.line))
			return false
		}
		if r.fl.kind != Control && m.Symbolic {
			m.Note("data-dependent-branch", fmt.Sprintf("%s (line %d) depends on buffer contents", ins.text, ins.line),
				map[string]interface{}{"frontend": m.Frontend, "at": m.Where(), "round": m.Rounds + 1})
			m.Stop("data-dependent branch")
			return false
		}
		if r.fl.eval(ins.cc) {
			next = ins.target
		}
	case opRET:
		return true
	default:
		m.Unsupported(fmt.Sprintf("%s (line %d)", ins.text, ins.line))
		return false
	}
	r.pc = next
	return false
}

// Listing returns the parsed instructions, for the evidence file.
func (p *AsmProgram) Listing() []string {
	var out []string
	for i, ins := range p.Instrs {
		tag := ""
		if ins.op == opUnsupported {
			tag = "   <-- not modelled"
		}
		if i == p.LoopHead {
			tag += "   <-- round-loop head"
		}
		out = append(out, fmt.Sprintf("%3d  %s%s", ins.line, ins.text, tag))
	}
	return out
}

// UnmodelledInstrs lists instructions in the TEXT block the parser could not model (whether or
// not execution reaches them).
func (p *AsmProgram) UnmodelledInstrs() []string {
	var out []string
	for _, ins := range p.Instrs {
		if ins.op == opUnsupported {
			out = append(out, fmt.Sprintf("line %d: %s", ins.line, ins.text))
		}
	}
	return out
}
