package bitexec

import (
	"os"
	"strings"
	"testing"
	"time"

	"verifharness/bitexec/refcurl"
)

const repo = "/repo"

func TestSelfChecks(t *testing.T) {
	if err := refcurl.SelfCheck(); err != nil {
		t.Fatal(err)
	}
	if err := PatternSelfCheck(); err != nil {
		t.Fatal(err)
	}
}

func dump(t *testing.T, m *Machine) {
	t.Logf("%s: steps=%d arrivals=%d rounds=%d clean=%d rows=%d finished=%v stopped=%v(%s) exhaustive=%v outcomes=%v unsup=%v",
		m.Frontend, m.Steps, m.Arrivals, m.Rounds, m.CleanRnds, m.TableRows, m.Finished, m.Stopped, m.StopWhy, m.Exhaustive(), m.OutcomeList(), m.Unsup)
	for _, f := range m.Findings() {
		t.Logf("  finding %s violation=%v count=%d: %s", f.Key, f.Violation, f.Count, f.What)
	}
}

func TestAsmSymbolic(t *testing.T) {
	p, err := ParseAsmFile(repo+"/pkg/curl/transform_amd64.s", "·transform")
	if err != nil {
		t.Fatal(err)
	}
	t0 := time.Now()
	m := NewMachine("asm", true)
	p.Run(m)
	t.Log(time.Since(t0))
	dump(t, m)
	if !m.Exhaustive() || len(m.Findings()) != 0 || m.Rounds != 81 || m.TableRows != 81*729*2*16 {
		t.Fatal("unexpected")
	}
}

func TestGenericSymbolic(t *testing.T) {
	g, err := LoadGeneric(repo, "github.com/wollac/iota-crypto-demo/pkg/curl", "transformGeneric", nil)
	if err != nil {
		t.Fatal(err)
	}
	t0 := time.Now()
	m := NewMachine("generic", true)
	g.Run(m)
	t.Log(time.Since(t0))
	dump(t, m)
	if !m.Exhaustive() || len(m.Findings()) != 0 || m.Rounds != 81 || m.TableRows != 81*729*2*16 {
		t.Fatal("unexpected")
	}
}

func TestConcreteAgainstBitRef(t *testing.T) {
	p, err := ParseAsmFile(repo+"/pkg/curl/transform_amd64.s", "·transform")
	if err != nil {
		t.Fatal(err)
	}
	g, err := LoadGeneric(repo, "github.com/wollac/iota-crypto-demo/pkg/curl", "transformGeneric", nil)
	if err != nil {
		t.Fatal(err)
	}
	var bufs [NumBufs][N]uint64
	x := uint64(12345)
	for i := 0; i < N; i++ {
		x = x*6364136223846793005 + 1442695040888963407
		bufs[BufLFrom][i] = x
		x = x*6364136223846793005 + 1442695040888963407
		bufs[BufHFrom][i] = x
	}
	l, h := bufs[BufLFrom], bufs[BufHFrom]
	refcurl.BitTransform(&l, &h)
	for name, run := range map[string]func(*Machine){"asm": p.Run, "generic": g.Run} {
		m := NewMachine(name, false)
		m.SetConcrete(&bufs)
		t0 := time.Now()
		run(m)
		out, ok := m.Concrete()
		t.Log(name, time.Since(t0), m.Steps, ok, m.Finished)
		if !ok || !m.Finished || out[BufLTo] != l || out[BufHTo] != h {
			dump(t, m)
			t.Fatal(name, "differs from bit reference")
		}
	}
}

// keysOf runs an assembly text symbolically and returns its violation keys and notes.
func keysOf(t *testing.T, src string) (viol, notes map[string]bool, m *Machine) {
	p, err := ParseAsm(src, "·transform")
	if err != nil {
		t.Fatal(err)
	}
	m = NewMachine("asm", true)
	p.Run(m)
	viol, notes = map[string]bool{}, map[string]bool{}
	for _, f := range m.Findings() {
		if f.Violation {
			viol[f.Key] = true
		} else {
			notes[f.Key] = true
		}
	}
	return
}

func TestAsmMutants(t *testing.T) {
	b, err := os.ReadFile(repo + "/pkg/curl/transform_amd64.s")
	if err != nil {
		t.Fatal(err)
	}
	src := string(b)
	for _, tc := range []struct{ name, old, new, key string }{
		{"wrong displacement", "MOVQ 2904(DX)(R11*8), DI", "MOVQ 2896(DX)(R11*8), DI", "wrong-deps"},
		{"read one word past the buffer", "MOVQ $0x00000051, SI", "MOVQ $0x00000051, SI\n\tMOVQ 5832(DX), R14", "oob"},
		{"unaligned read", "MOVQ $0x00000051, SI", "MOVQ $0x00000051, SI\n\tMOVQ 4(DX), R14", "oob"},
		{"80 rounds", "$0x00000051", "$0x00000050", "round-count"},
		{"82 rounds", "$0x00000051", "$0x00000052", "round-count"},
		{"s-box operand swapped", "XORQ R10, R13", "XORQ R8, R13", "wrong-sbox"},
		{"OR replaced by ADD", "ORQ  R13, R9", "ADDQ R13, R9", "not-lanewise"},
		{"store dropped", "MOVQ R13, 24(AX)(R12*8)", "NOP", "store-count"},
		{"no h swap", "XCHGQ BX, CX", "NOP", "wrong-deps"},
		{"inner loop one iteration short", "CMPQ R12, $0x000002d9", "CMPQ R12, $0x000002d5", "store-count"},
		{"signed/unsigned mixup stays correct", "JL   StateLoop", "JB   StateLoop", ""},
	} {
		if !strings.Contains(src, tc.old) {
			t.Fatalf("%s: pattern not in file", tc.name)
		}
		viol, _, m := keysOf(t, strings.Replace(src, tc.old, tc.new, 1))
		if tc.key == "" {
			if len(viol) != 0 || !m.Exhaustive() {
				t.Errorf("%s: expected a clean run, got %v", tc.name, viol)
			}
			continue
		}
		if !viol[tc.key] {
			t.Errorf("%s: expected %s, got %v (stop: %s)", tc.name, tc.key, viol, m.StopWhy)
		}
	}
	// unknown instruction: unsupported, no violation
	viol, _, m := keysOf(t, strings.Replace(src, "RoundLoop:\n", "RoundLoop:\n\tVPXOR Y0, Y1, Y2\n", 1))
	if len(viol) != 0 || len(m.Unsup) != 1 || m.Exhaustive() {
		t.Errorf("unknown instruction: viol=%v unsup=%v", viol, m.Unsup)
	}
	// branch on buffer contents: note, not a violation
	viol, notes, m := keysOf(t, strings.Replace(src, "DECQ  SI", "MOVQ (AX), R15\n\tTESTQ R15, R15\n\tJZ RoundLoop\n\tDECQ SI", 1))
	if len(viol) != 0 || !notes["data-dependent-branch"] || m.Exhaustive() {
		t.Errorf("data-dependent branch: viol=%v notes=%v", viol, notes)
	}
}

// TestAsmFlags runs small programs whose outcome depends on the modelled flag semantics; the
// number of stores into lto shows which way the branches went.
func TestAsmFlags(t *testing.T) {
	prog := func(body string) string {
		return "TEXT ·transform(SB), NOSPLIT, $0-32\n\tMOVQ lto+0(FP), AX\n\tMOVQ lfrom+16(FP), DX\n" + body + "\tRET\n"
	}
	for _, tc := range []struct {
		name, body string
		stores     int
	}{
		{"CMPQ a,b; JL taken when a<b (signed)", "\tMOVQ $-1, R8\n\tCMPQ R8, $3\n\tJL yes\n\tRET\nyes:\n\tMOVQ R8, (AX)\n", 1},
		{"CMPQ a,b; JB not taken for -1 vs 3 (unsigned)", "\tMOVQ $-1, R8\n\tCMPQ R8, $3\n\tJB yes\n\tRET\nyes:\n\tMOVQ R8, (AX)\n", 0},
		{"SUBQ sets ZF", "\tMOVQ $2, R8\n\tSUBQ $2, R8\n\tJNE no\n\tMOVQ R8, (AX)\nno:\n", 1},
		{"DECQ loop runs 5 times", "\tMOVQ $5, R9\n\tMOVQ $0, R10\nl:\n\tMOVQ R9, (AX)(R10*8)\n\tINCQ R10\n\tDECQ R9\n\tJNZ l\n", 5},
		{"JGE/JLE/JG", "\tMOVQ $7, R8\n\tCMPQ R8, $7\n\tJG no\n\tJGE a\n\tRET\na:\n\tJLE b\n\tRET\nb:\n\tMOVQ R8, (AX)\nno:\n", 1},
		{"JA/JBE unsigned", "\tMOVQ $-1, R8\n\tCMPQ R8, $1\n\tJBE no\n\tJA yes\n\tRET\nyes:\n\tMOVQ R8, 8(AX)\nno:\n", 1},
		{"LEAQ + XCHGQ + pointer compare", "\tLEAQ 16(AX), R8\n\tXCHGQ R8, AX\n\tCMPQ AX, R8\n\tJHI yes\n\tRET\nyes:\n\tMOVQ $1, (AX)\n", 1},
		{"ADDQ carry", "\tMOVQ $-1, R8\n\tADDQ $1, R8\n\tJCC no\n\tJEQ yes\n\tRET\nyes:\n\tMOVQ R8, (AX)\nno:\n", 1},
		{"NEGQ/SHLQ/SHRQ values", "\tMOVQ $1, R8\n\tSHLQ $4, R8\n\tSHRQ $1, R8\n\tNEGQ R8\n\tADDQ $8, R8\n\tJNZ no\n\tMOVQ R8, (AX)\nno:\n", 1},
		{"ANDNQ", "\tMOVQ $0xF0, R8\n\tMOVQ $0x3C, R9\n\tANDNQ R8, R9, R10\n\tCMPQ R10, $0xC0\n\tJNE no\n\tMOVQ R10, (AX)\nno:\n", 1},
	} {
		p, err := ParseAsm(prog(tc.body), "·transform")
		if err != nil {
			t.Fatal(tc.name, err)
		}
		m := NewMachine("asm", false)
		var zero [NumBufs][N]uint64
		m.SetConcrete(&zero)
		p.Run(m)
		stores := int(m.StoreCount)
		if len(m.Unsup) > 0 || !m.Finished || stores != tc.stores {
			t.Errorf("%s: stores=%d want %d, unsup=%v finished=%v findings=%d", tc.name, stores, tc.stores, m.Unsup, m.Finished, len(m.Findings()))
		}
	}
}
