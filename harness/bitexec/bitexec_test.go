package bitexec

import (
	"testing"
	"time"

	"verifharness/bitexec/refcurl"
)

const repo = "/repo"

func TestSelfChecks(t *testing.T) {
	if err := refcurl.SelfCheck(); err != nil {
		t.Fatal(err)
	}
	if err := PatternSelfCheck(); err != nil {
		t.Fatal(err)
	}
}

func dump(t *testing.T, m *Machine) {
	t.Logf("%s: steps=%d arrivals=%d rounds=%d clean=%d rows=%d finished=%v stopped=%v(%s) exhaustive=%v outcomes=%v unsup=%v",
		m.Frontend, m.Steps, m.Arrivals, m.Rounds, m.CleanRnds, m.TableRows, m.Finished, m.Stopped, m.StopWhy, m.Exhaustive(), m.OutcomeList(), m.Unsup)
	for _, f := range m.Findings() {
		t.Logf("  finding %s violation=%v count=%d: %s", f.Key, f.Violation, f.Count, f.What)
	}
}

func TestAsmSymbolic(t *testing.T) {
	p, err := ParseAsmFile(repo+"/pkg/curl/transform_amd64.s", "·transform")
	if err != nil {
		t.Fatal(err)
	}
	t0 := time.Now()
	m := NewMachine("asm", true)
	p.Run(m)
	t.Log(time.Since(t0))
	dump(t, m)
	if !m.Exhaustive() || len(m.Findings()) != 0 || m.Rounds != 81 || m.TableRows != 81*729*2*16 {
		t.Fatal("unexpected")
	}
}

func TestGenericSymbolic(t *testing.T) {
	g, err := LoadGeneric(repo, "github.com/wollac/iota-crypto-demo/pkg/curl", "transformGeneric", nil)
	if err != nil {
		t.Fatal(err)
	}
	t0 := time.Now()
	m := NewMachine("generic", true)
	g.Run(m)
	t.Log(time.Since(t0))
	dump(t, m)
	if !m.Exhaustive() || len(m.Findings()) != 0 || m.Rounds != 81 || m.TableRows != 81*729*2*16 {
		t.Fatal("unexpected")
	}
}

func TestConcreteAgainstBitRef(t *testing.T) {
	p, err := ParseAsmFile(repo+"/pkg/curl/transform_amd64.s", "·transform")
	if err != nil {
		t.Fatal(err)
	}
	g, err := LoadGeneric(repo, "github.com/wollac/iota-crypto-demo/pkg/curl", "transformGeneric", nil)
	if err != nil {
		t.Fatal(err)
	}
	var bufs [NumBufs][N]uint64
	x := uint64(12345)
	for i := 0; i < N; i++ {
		x = x*6364136223846793005 + 1442695040888963407
		bufs[BufLFrom][i] = x
		x = x*6364136223846793005 + 1442695040888963407
		bufs[BufHFrom][i] = x
	}
	l, h := bufs[BufLFrom], bufs[BufHFrom]
	refcurl.BitTransform(&l, &h)
	for name, run := range map[string]func(*Machine){"asm": p.Run, "generic": g.Run} {
		m := NewMachine(name, false)
		m.SetConcrete(&bufs)
		t0 := time.Now()
		run(m)
		out, ok := m.Concrete()
		t.Log(name, time.Since(t0), m.Steps, ok, m.Finished)
		if !ok || !m.Finished || out[BufLTo] != l || out[BufHTo] != h {
			dump(t, m)
			t.Fatal(name, "differs from bit reference")
		}
	}
}
