package bitexec

import (
	"fmt"
	"sort"

	"verifharness/bitexec/refcurl"
)

// Machine is the executor shared by the two front ends (assembly text, go/ssa). It owns the four
// guarded buffers, checks every load and store, and - in symbolic mode - decomposes the run into
// rounds: at every arrival at the round-loop head it checks the round that just ended against the
// definition of the Curl-P round function and re-labels the buffers with the 3-colour pattern.
//
// In concrete mode (Symbolic == false) it simply executes the routine on the given buffer contents;
// bounds checks stay on, nothing is re-labelled.
type Machine struct {
	Frontend string // "asm" or "generic": prefix of the finding keys
	Symbolic bool

	Mem [NumBufs][N]Word

	// Where describes the current instruction; set by the front end, only called on findings.
	Where func() string

	Steps                 int64 // instructions executed (transitions)
	LoadCount, StoreCount int64 // accepted buffer accesses
	StepLimit             int64

	// per-round access counters (symbolic mode)
	loads   [NumBufs][N]uint32
	stores  [NumBufs][N]uint32
	touched bool

	epoch     uint16
	Arrivals  int   // boundary events seen (arrivals at the round-loop head + the final return)
	Rounds    int   // non-empty round segments checked so far
	CleanRnds int   // rounds in which every check passed
	TableRows int64 // (round, position, output bit, input combination) rows compared
	Outcomes  map[uint16]int64
	Finished  bool // reached the final return with all boundary processing done
	Stopped   bool // execution cannot continue (see StopReason)
	StopWhy   string

	findings map[string]*Finding
	order    []string
	Unsup    []string // unsupported constructs met on the executed path
	Samples  []interface{}
}

// Finding is one class of observations made by the executor.
type Finding struct {
	Key       string      // e.g. "oob", "wrong-sbox"; the check prefixes C20/<frontend>/
	What      string      // first occurrence, human readable
	Case      interface{} // first occurrence, structured
	Count     int64
	Violation bool // false: a note that only limits what the run establishes
}

// NewMachine creates an executor. In symbolic mode the buffers start freshly labelled.
func NewMachine(frontend string, symbolic bool) *Machine {
	m := &Machine{Frontend: frontend, Symbolic: symbolic, StepLimit: 50_000_000,
		findings: map[string]*Finding{}, Outcomes: map[uint16]int64{}}
	m.Where = func() string { return "" }
	if symbolic {
		m.relabel()
	}
	return m
}

// SetConcrete fills the four buffers with concrete contents.
func (m *Machine) SetConcrete(bufs *[NumBufs][N]uint64) {
	for b := 0; b < NumBufs; b++ {
		for i := 0; i < N; i++ {
			m.Mem[b][i] = Word{V: bufs[b][i], Kind: Data, Flags: fLanewise}
		}
	}
}

// Concrete returns the concrete contents of the four buffers; ok is false if some word is
// undefined (for example after an out-of-bounds load was stored).
func (m *Machine) Concrete() (bufs [NumBufs][N]uint64, ok bool) {
	ok = true
	for b := 0; b < NumBufs; b++ {
		for i := 0; i < N; i++ {
			w := m.Mem[b][i]
			bufs[b][i] = w.V
			if w.Kind != Data && w.Kind != Control {
				ok = false
			}
		}
	}
	return
}

// ---- findings ----

func (m *Machine) report(violation bool, key, what string, cas interface{}) {
	f, ok := m.findings[key]
	if ok {
		f.Count++
		return
	}
	m.findings[key] = &Finding{Key: key, What: what, Case: cas, Count: 1, Violation: violation}
	m.order = append(m.order, key)
}

// Violation records a violation class.
func (m *Machine) Violation(key, what string, cas interface{}) { m.report(true, key, what, cas) }

// Note records an observation that is not forbidden by the property.
func (m *Machine) Note(key, what string, cas interface{}) { m.report(false, key, what, cas) }

// Findings returns the findings in order of first occurrence.
func (m *Machine) Findings() []*Finding {
	out := make([]*Finding, 0, len(m.order))
	for _, k := range m.order {
		out = append(out, m.findings[k])
	}
	return out
}

// Unsupported records a construct the executor does not model and stops the run: the front end
// is then not exhaustive. It is never a violation.
func (m *Machine) Unsupported(text string) {
	m.Unsup = append(m.Unsup, "unsupported:"+text)
	m.Stop("unsupported: " + text)
}

// Stop ends the run.
func (m *Machine) Stop(why string) {
	if !m.Stopped {
		m.Stopped, m.StopWhy = true, why
	}
}

// Exhaustive reports whether the symbolic run covered the whole routine: it reached the final
// return, met nothing unsupported and no input-dependent control flow or addressing.
func (m *Machine) Exhaustive() bool {
	if !m.Symbolic || !m.Finished || m.Stopped || len(m.Unsup) > 0 {
		return false
	}
	for _, f := range m.findings {
		if !f.Violation && f.Key != "reads-outside-source" {
			return false
		}
	}
	return true
}

// Tick counts one executed instruction; false means the step limit was reached.
func (m *Machine) Tick() bool {
	m.Steps++
	if m.Steps > m.StepLimit {
		m.Unsupported(fmt.Sprintf("step limit of %d instructions reached (no termination)", m.StepLimit))
		return false
	}
	return true
}

// ---- guarded memory ----

type accessCase struct {
	Frontend string `json:"frontend"`
	Access   string `json:"access"`
	At       string `json:"at"`
	Kind     string `json:"address_kind"`
	Buffer   string `json:"buffer,omitempty"`
	ByteOff  int64  `json:"byte_offset"`
	Round    int    `json:"round"`
}

// checkAddr validates an address: it must be a pointer derived from one of the four buffer
// arguments, 8-byte aligned, inside that buffer.
func (m *Machine) checkAddr(access string, p Word) (buf, idx int, ok bool) {
	if p.Kind == Pointer {
		if off := int64(p.V); off >= 0 && off < N*8 && off&7 == 0 {
			return int(p.Buf), int(off >> 3), true
		}
	}
	m.badAddr(access, p)
	return 0, 0, false
}

// badAddr reports a rejected access.
func (m *Machine) badAddr(access string, p Word) {
	cas := accessCase{Frontend: m.Frontend, Access: access, At: m.Where(), Kind: p.Kind.String(),
		ByteOff: int64(p.V), Round: m.Rounds + 1}
	switch p.Kind {
	case Pointer:
		cas.Buffer = BufName(int(p.Buf))
		m.Violation("oob", fmt.Sprintf("%s of 8 bytes at byte offset %d of %s (valid: 0..%d, multiple of 8) at %s",
			access, cas.ByteOff, cas.Buffer, N*8-8, cas.At), cas)
	case Data:
		// An address computed from buffer contents: the single-path argument does not cover it.
		m.Note("data-dependent-address", fmt.Sprintf("%s address depends on buffer contents at %s", access, cas.At), cas)
		m.Stop("data-dependent address")
	default:
		m.Violation("oob", fmt.Sprintf("%s through an address that is not derived from a buffer argument (%s value %#x) at %s",
			access, p.Kind, p.V, cas.At), cas)
	}
}

// Load reads the word at p. A rejected access yields an undefined word.
func (m *Machine) Load(p Word) Word {
	b, i, ok := m.checkAddr("load", p)
	if !ok {
		return Word{}
	}
	m.touched = true
	m.LoadCount++
	if m.Symbolic {
		m.loads[b][i]++
	}
	return m.Mem[b][i]
}

// Store writes v at p. A rejected access writes nothing.
func (m *Machine) Store(p Word, v Word) {
	b, i, ok := m.checkAddr("store", p)
	if !ok {
		return
	}
	m.touched = true
	m.StoreCount++
	if m.Symbolic {
		m.stores[b][i]++
	}
	if v.Kind == Control {
		// a constant: the same in every state, trivially lane-wise, depends on nothing
		v = Word{V: v.V, Kind: Data, Flags: fLanewise}
	}
	m.Mem[b][i] = v
}

// ---- the 3-colour pattern ----

// LaneMask[b] has in lane j bit b of j.
var LaneMask = [6]uint64{0xAAAAAAAAAAAAAAAA, 0xCCCCCCCCCCCCCCCC, 0xF0F0F0F0F0F0F0F0,
	0xFF00FF00FF00FF00, 0xFFFF0000FFFF0000, 0xFFFFFFFF00000000}

var (
	walk   = refcurl.Walk() // idx(0..729)
	colour [N]uint8         // colour of each position
	// sboxRow[row] = expected (l,h) output bits for input row aL | aH<<1 | bL<<2 | bH<<3
	sboxRowL, sboxRowH [16]uint64
)

func init() {
	for k := 0; k < N; k++ {
		colour[walk[k]] = uint8(k % 3)
	}
	// the cycle has odd length: give the last position a colour different from both neighbours
	last, prev, first := walk[N-1], walk[N-2], walk[0]
	for c := uint8(0); c < 3; c++ {
		if c != colour[prev] && c != colour[first] {
			colour[last] = c
		}
	}
	for row := 0; row < 16; row++ {
		sboxRowL[row], sboxRowH[row] = refcurl.SBoxRow(row)
	}
}

// PatternSelfCheck verifies that the colouring is proper (the two inputs of every output position
// have different colours), that LaneMask is the lane-index bit table and that therefore every
// output position sees all 16 input rows across the 64 lanes.
func PatternSelfCheck() error {
	for b := 0; b < 6; b++ {
		for j := uint(0); j < 64; j++ {
			if LaneMask[b]>>j&1 != uint64(j>>uint(b)&1) {
				return fmt.Errorf("LaneMask[%d] wrong at lane %d", b, j)
			}
		}
	}
	for i := 0; i < N; i++ {
		a, b := walk[i], walk[i+1]
		if colour[a] == colour[b] {
			return fmt.Errorf("colouring not proper at output %d (inputs %d,%d)", i, a, b)
		}
		var seen uint16
		for j := uint(0); j < 64; j++ {
			seen |= 1 << patternRow(a, b, j)
		}
		if seen != 0xFFFF {
			return fmt.Errorf("output %d does not see all 16 rows (mask %#x)", i, seen)
		}
	}
	return nil
}

// PatternWords returns the pattern (l,h) words of a position.
func PatternWords(pos int) (l, h uint64) {
	c := colour[pos]
	return LaneMask[2*c], LaneMask[2*c+1]
}

// patternRow is the s-box input row that lane j of an output with inputs at positions a, b sees.
func patternRow(a, b int, j uint) int {
	aL, aH := PatternWords(a)
	bL, bH := PatternWords(b)
	return int(aL>>j&1 | (aH>>j&1)<<1 | (bL>>j&1)<<2 | (bH>>j&1)<<3)
}

// roles returns source and destination buffer ids of round r (1-based) as the definition fixes
// them: odd rounds read (lfrom,hfrom) and write (lto,hto), even rounds the other way round.
func roles(r int) (srcL, srcH, dstL, dstH int) {
	if r%2 == 1 {
		return BufLFrom, BufHFrom, BufLTo, BufHTo
	}
	return BufLTo, BufHTo, BufLFrom, BufHFrom
}

// relabel makes all four buffers fresh inputs for the coming round: the source pair holds the
// 3-colour pattern, the destination pair holds filler words; every word depends on itself only.
func (m *Machine) relabel() {
	m.epoch++
	srcL, srcH, dstL, dstH := roles(m.Rounds + 1)
	for i := 0; i < N; i++ {
		l, h := PatternWords(i)
		m.Mem[srcL][i] = Input(l, uint16(srcL*N+i), m.epoch)
		m.Mem[srcH][i] = Input(h, uint16(srcH*N+i), m.epoch)
		m.Mem[dstL][i] = Input(0x5A5A5A5A5A5A5A5A^uint64(i), uint16(dstL*N+i), m.epoch)
		m.Mem[dstH][i] = Input(0xA5A5A5A5A5A5A5A5^uint64(i), uint16(dstH*N+i), m.epoch)
	}
	m.loads = [NumBufs][N]uint32{}
	m.stores = [NumBufs][N]uint32{}
	m.touched = false
}

// Boundary is called by the front end at every arrival at the round-loop head (final == false)
// and at the return of the routine (final == true).
func (m *Machine) Boundary(final bool) {
	m.Arrivals++
	if !m.Symbolic {
		if final {
			m.Finished = true
		}
		return
	}
	if m.touched {
		// the segment that just ended accessed the buffers: it is a round
		m.checkRound()
		m.Rounds++
		if m.Rounds > refcurl.Rounds {
			m.Violation("round-count", fmt.Sprintf("the routine executes more than %d rounds", refcurl.Rounds),
				map[string]interface{}{"frontend": m.Frontend, "rounds_seen": m.Rounds})
			m.Stop("too many rounds")
			return
		}
	}
	if !final {
		m.relabel()
		return
	}
	if m.Rounds != refcurl.Rounds {
		m.Violation("round-count", fmt.Sprintf("the routine executes %d rounds, the definition has %d", m.Rounds, refcurl.Rounds),
			map[string]interface{}{"frontend": m.Frontend, "rounds_seen": m.Rounds})
	}
	if m.Rounds%2 == 0 {
		_, _, dl, dh := roles(m.Rounds)
		if m.Rounds == 0 {
			dl, dh = BufLFrom, BufHFrom
		}
		m.Violation("result-buffer", fmt.Sprintf("after the last round (%d) the result is in %s/%s, not in lto/hto",
			m.Rounds, BufName(dl), BufName(dh)),
			map[string]interface{}{"frontend": m.Frontend, "rounds_seen": m.Rounds, "result_in": []string{BufName(dl), BufName(dh)}})
	}
	m.Finished = true
}

type roundCase struct {
	Frontend string      `json:"frontend"`
	Round    int         `json:"round"`
	Buffer   string      `json:"buffer"`
	Position int         `json:"position"`
	Detail   interface{} `json:"detail,omitempty"`
}

func depNames(d []uint16) []string {
	out := make([]string, len(d))
	for i, x := range d {
		out[i] = fmt.Sprintf("%s[%d]", BufName(int(x)/N), int(x)%N)
	}
	return out
}

// checkRound checks the round segment that just ended against the definition:
// new[i] = sbox(old[idx(i)], old[idx(i+1)]) in every lane, for every state of the source pair.
func (m *Machine) checkRound() {
	r := m.Rounds + 1
	srcL, srcH, dstL, dstH := roles(r)
	before := len(m.order)
	viol := func(key string, buf, pos int, what string, detail interface{}) {
		m.Violation(key, fmt.Sprintf("round %d, %s[%d]: %s", r, BufName(buf), pos, what),
			roundCase{Frontend: m.Frontend, Round: r, Buffer: BufName(buf), Position: pos, Detail: detail})
	}
	bad := false

	// (1) accesses: loads only from the source pair (a load elsewhere inside the buffers is not
	// forbidden by the property; it is noted). Every destination word stored exactly once, no
	// source word stored.
	for _, b := range []int{dstL, dstH} {
		for i := 0; i < N; i++ {
			if m.loads[b][i] != 0 {
				m.Note("reads-outside-source", fmt.Sprintf("round %d loads %s[%d], which is not in the source pair", r, BufName(b), i),
					roundCase{Frontend: m.Frontend, Round: r, Buffer: BufName(b), Position: i})
			}
			if m.stores[b][i] != 1 {
				bad = true
				viol("store-count", b, i, fmt.Sprintf("destination word stored %d times in one round (expected exactly once)", m.stores[b][i]),
					map[string]interface{}{"stores": m.stores[b][i]})
			}
		}
	}
	for _, b := range []int{srcL, srcH} {
		for i := 0; i < N; i++ {
			if m.stores[b][i] != 0 {
				bad = true
				viol("store-count", b, i, fmt.Sprintf("source word stored %d times during the round that reads it", m.stores[b][i]),
					map[string]interface{}{"stores": m.stores[b][i], "role": "source"})
			}
		}
	}

	// (2) every output word: lane-wise, depends only on the four words the definition names,
	// and its 64 lanes equal the 16-row truth table evaluated on the pattern.
	for i := 0; i < N; i++ {
		pa, pb := walk[i], walk[i+1]
		allowed := [4]uint16{uint16(srcL*N + pa), uint16(srcH*N + pa), uint16(srcL*N + pb), uint16(srcH*N + pb)}
		for half, b := range [2]int{dstL, dstH} {
			w := m.Mem[b][i]
			if w.Kind != Data {
				bad = true
				viol("not-lanewise", b, i, "the stored word is "+w.Kind.String()+", not a function of the source words", nil)
				continue
			}
			if w.Flags&fStale != 0 || (w.Epoch != 0 && w.Epoch != m.epoch) {
				bad = true
				viol("wrong-deps", b, i, "the word is computed from values loaded in an earlier round", nil)
				continue
			}
			if w.Flags&fOverflow != 0 {
				bad = true
				viol("wrong-deps", b, i, fmt.Sprintf("the word depends on more than %d input words", maxDeps), nil)
				continue
			}
			depsOK := true
			for _, d := range w.Deps[:w.NDeps] {
				if d != allowed[0] && d != allowed[1] && d != allowed[2] && d != allowed[3] {
					depsOK = false
				}
			}
			if !depsOK {
				bad = true
				viol("wrong-deps", b, i, fmt.Sprintf("depends on %v, the definition allows only %v",
					depNames(w.Deps[:w.NDeps]), depNames(allowed[:])),
					map[string]interface{}{"deps": depNames(w.Deps[:w.NDeps]), "allowed": depNames(allowed[:])})
				continue
			}
			if w.Flags&fLanewise == 0 {
				bad = true
				viol("not-lanewise", b, i, "computed with an operation that is not lane-wise (arithmetic, shift, comparison or a mixed constant)", nil)
				continue
			}
			// 16-row table, spread over the 64 lanes
			var sig, seen uint16
			okTable := true
			for j := uint(0); j < 64; j++ {
				row := patternRow(pa, pb, j)
				got := w.V >> j & 1
				want := sboxRowL[row]
				if half == 1 {
					want = sboxRowH[row]
				}
				seen |= 1 << row
				sig |= uint16(got) << row
				if got != want && okTable {
					okTable = false
					bad = true
					viol("wrong-sbox", b, i, fmt.Sprintf("lane %d has inputs aL=%d aH=%d bL=%d bH=%d (a=position %d, b=position %d): got bit %d, the s-box gives %d",
						j, row&1, row>>1&1, row>>2&1, row>>3&1, pa, pb, got, want),
						map[string]interface{}{"lane": j, "aL": row & 1, "aH": row >> 1 & 1, "bL": row >> 2 & 1, "bH": row >> 3 & 1,
							"a_position": pa, "b_position": pb, "got": got, "want": want, "output_half": [2]string{"l", "h"}[half]})
				}
			}
			if seen != 0xFFFF {
				// cannot happen with a proper colouring (PatternSelfCheck); keep the count honest
				m.Note("pattern-incomplete", "an output position did not see all 16 rows", nil)
				continue
			}
			m.TableRows += 16
			m.Outcomes[sig]++
			if len(m.Samples) < 3 && (i == 0 || i == 364) && r == 1 {
				m.Samples = append(m.Samples, map[string]interface{}{
					"frontend": m.Frontend, "round": r, "output": fmt.Sprintf("%s[%d]", BufName(b), i),
					"inputs":    depNames(allowed[:]),
					"deps_seen": depNames(w.Deps[:w.NDeps]), "lanewise": true,
					"pattern_aL_aH_bL_bH": []string{hex(m.patternOf(pa, 0)), hex(m.patternOf(pa, 1)), hex(m.patternOf(pb, 0)), hex(m.patternOf(pb, 1))},
					"word_written":        hex(w.V), "truth_table_rows_15_down_to_0": fmt.Sprintf("%016b", sig),
				})
			}
		}
	}
	if !bad && len(m.order) == before {
		m.CleanRnds++
	}
}

func (m *Machine) patternOf(pos, half int) uint64 {
	l, h := PatternWords(pos)
	if half == 0 {
		return l
	}
	return h
}

func hex(v uint64) string { return fmt.Sprintf("%#016x", v) }

// OutcomeList returns the distinct 16-row truth tables seen at output words, with counts.
func (m *Machine) OutcomeList() []string {
	var keys []int
	for k := range m.Outcomes {
		keys = append(keys, int(k))
	}
	sort.Ints(keys)
	out := make([]string, 0, len(keys))
	for _, k := range keys {
		out = append(out, fmt.Sprintf("%016b x%d", k, m.Outcomes[uint16(k)]))
	}
	return out
}
