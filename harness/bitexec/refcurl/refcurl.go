// Package refcurl is the independent reference used by check C20: the classic one-lane Curl-P-81
// permutation and sponge on balanced trits (11-entry truth table), a bit-level reference of the
// bit-sliced round function written directly from the property's definition, and a digit-by-digit
// tryte decoder. It shares no code with the repository under verification nor with iota.go.
package refcurl

import "fmt"

const (
	// N is the number of trits of the Curl state.
	N = 729
	// Rounds is the number of rounds of Curl-P-81.
	Rounds = 81
	// HashLen is the rate of the sponge in trits.
	HashLen = 243
)

// truthTable is the classic Curl s-box: new = truthTable[a + 4*b + 5]; entries 3 and 7 are unused.
var truthTable = [11]int8{1, 0, -1, 2, 1, -1, 0, 2, -1, 1, 0}

// SBoxTrit is the s-box on two balanced trits (a = first operand, b = second operand).
func SBoxTrit(a, b int8) int8 { return truthTable[int(a)+4*int(b)+5] }

// Idx returns the k-th position of the index walk 0 -> 364 -> 728 -> 363 -> ... (k may be 0..729).
func Idx(k int) int {
	p := 0
	for ; k > 0; k-- {
		p = Next(p)
	}
	return p
}

// Next is one step of the index walk.
func Next(p int) int {
	if p < 365 {
		return p + 364
	}
	return p - 365
}

// Walk returns the 730 positions idx(0..729); the walk is a single cycle, so Walk()[729] == 0.
func Walk() [N + 1]int {
	var w [N + 1]int
	for k := 1; k <= N; k++ {
		w[k] = Next(w[k-1])
	}
	return w
}

// Round applies one Curl-P round: new[i] = sbox(old[idx(i)], old[idx(i+1)]).
func Round(s *[N]int8) {
	old := *s
	p := 0
	for i := 0; i < N; i++ {
		a := old[p]
		p = Next(p)
		b := old[p]
		s[i] = SBoxTrit(a, b)
	}
}

// Transform applies the 81-round permutation in place.
func Transform(s *[N]int8) {
	for r := 0; r < Rounds; r++ {
		Round(s)
	}
}

// Sum is the Curl-P-81 sponge: absorb in (a multiple of 243 trits), squeeze outLen trits
// (a multiple of 243).
func Sum(in []int8, outLen int) ([]int8, error) {
	if len(in) == 0 || len(in)%HashLen != 0 || outLen <= 0 || outLen%HashLen != 0 {
		return nil, fmt.Errorf("refcurl: lengths must be positive multiples of %d", HashLen)
	}
	var s [N]int8
	for off := 0; off < len(in); off += HashLen {
		copy(s[:HashLen], in[off:off+HashLen])
		Transform(&s)
	}
	out := make([]int8, 0, outLen)
	for len(out) < outLen {
		if len(out) > 0 {
			Transform(&s)
		}
		out = append(out, s[:HashLen]...)
	}
	return out, nil
}

const tryteAlphabet = "9ABCDEFGHIJKLMNOPQRSTUVWXYZ"

// TrytesToTrits decodes trytes digit by digit (value 0..26, values above 13 are negative; three
// balanced trits per tryte, least significant first).
func TrytesToTrits(s string) ([]int8, error) {
	out := make([]int8, 0, 3*len(s))
	for i := 0; i < len(s); i++ {
		v := -1
		for k := 0; k < len(tryteAlphabet); k++ {
			if tryteAlphabet[k] == s[i] {
				v = k
			}
		}
		if v < 0 {
			return nil, fmt.Errorf("refcurl: invalid tryte %q", s[i])
		}
		if v > 13 {
			v -= 27
		}
		for k := 0; k < 3; k++ {
			r := ((v % 3) + 3) % 3
			if r == 2 {
				out = append(out, -1)
				v = (v + 1) / 3
			} else {
				out = append(out, int8(r))
				v = (v - r) / 3
			}
		}
	}
	return out, nil
}

// ---- bit-sliced encoding ----

// Encode maps a balanced trit to its bit pair (l,h): 0 = (1,1), 1 = (0,1), -1 = (1,0).
func Encode(t int8) (l, h uint64) {
	switch t {
	case 0:
		return 1, 1
	case 1:
		return 0, 1
	default:
		return 1, 0
	}
}

// Decode maps a bit pair back to a trit; ok is false for the invalid pair (0,0).
func Decode(l, h uint64) (t int8, ok bool) {
	switch {
	case l == 1 && h == 1:
		return 0, true
	case l == 0 && h == 1:
		return 1, true
	case l == 1 && h == 0:
		return -1, true
	}
	return 0, false
}

// SBoxBits is the s-box on words in the bit-sliced encoding, exactly as the property states it:
// tmp = aL & (aH ^ bL); newL = ^tmp; newH = (aL ^ bH) | tmp.
func SBoxBits(aL, aH, bL, bH uint64) (uint64, uint64) {
	tmp := aL & (aH ^ bL)
	return ^tmp, (aL ^ bH) | tmp
}

// SBoxRow evaluates the bit formulas on single bits; row = aL | aH<<1 | bL<<2 | bH<<3.
func SBoxRow(row int) (l, h uint64) {
	aL, aH, bL, bH := uint64(row&1), uint64(row>>1&1), uint64(row>>2&1), uint64(row>>3&1)
	l, h = SBoxBits(aL, aH, bL, bH)
	return l & 1, h & 1
}

// SelfCheck verifies that the bit formulas agree with the trit truth table on the nine valid
// encodings, that valid outputs are produced for every row, and that the index walk is one cycle
// over all 729 positions.
func SelfCheck() error {
	for _, a := range []int8{-1, 0, 1} {
		for _, b := range []int8{-1, 0, 1} {
			aL, aH := Encode(a)
			bL, bH := Encode(b)
			l, h := SBoxRow(int(aL | aH<<1 | bL<<2 | bH<<3))
			t, ok := Decode(l, h)
			if !ok || t != SBoxTrit(a, b) {
				return fmt.Errorf("bit formulas disagree with the truth table at a=%d b=%d: got (%d,%d)", a, b, l, h)
			}
		}
	}
	for row := 0; row < 16; row++ {
		if l, h := SBoxRow(row); l == 0 && h == 0 {
			return fmt.Errorf("bit formulas produce the invalid pair at row %d", row)
		}
	}
	w := Walk()
	seen := [N]bool{}
	for k := 0; k < N; k++ {
		if seen[w[k]] {
			return fmt.Errorf("index walk revisits %d at step %d", w[k], k)
		}
		seen[w[k]] = true
	}
	if w[N] != 0 {
		return fmt.Errorf("index walk does not close")
	}
	return nil
}

// BitTransform is the bit-level reference of the whole permutation on a bit-sliced state: 81 rounds
// of new[i] = SBoxBits(old[idx(i)], old[idx(i+1)]). It is defined for every word value, including
// the invalid (0,0) pairs.
func BitTransform(l, h *[N]uint64) {
	w := Walk()
	var ol, oh [N]uint64
	for r := 0; r < Rounds; r++ {
		ol, oh = *l, *h
		for i := 0; i < N; i++ {
			a, b := w[i], w[i+1]
			l[i], h[i] = SBoxBits(ol[a], oh[a], ol[b], oh[b])
		}
	}
}

// Valid reports whether no lane of the state holds the invalid pair (0,0).
func Valid(l, h *[N]uint64) bool {
	for i := 0; i < N; i++ {
		if l[i]|h[i] != ^uint64(0) {
			return false
		}
	}
	return true
}

// LaneTransform runs the one-lane trit reference on each of the 64 lanes of a valid state and
// returns the re-encoded result. Identical lanes are computed once.
func LaneTransform(l, h *[N]uint64) (rl, rh [N]uint64, err error) {
	cache := map[[N]int8]*[N]int8{}
	for j := uint(0); j < 64; j++ {
		var s [N]int8
		for i := 0; i < N; i++ {
			t, ok := Decode(l[i]>>j&1, h[i]>>j&1)
			if !ok {
				return rl, rh, fmt.Errorf("invalid encoding at position %d lane %d", i, j)
			}
			s[i] = t
		}
		res, ok := cache[s]
		if !ok {
			out := s
			Transform(&out)
			res = &out
			cache[s] = res
		}
		for i := 0; i < N; i++ {
			bl, bh := Encode(res[i])
			rl[i] |= bl << j
			rh[i] |= bh << j
		}
	}
	return rl, rh, nil
}
