package bitexec

import "testing"

func BenchmarkConcrete(b *testing.B) {
	p, _ := ParseAsmFile(repo+"/pkg/curl/transform_amd64.s", "·transform")
	g, err := LoadGeneric(repo, "github.com/wollac/iota-crypto-demo/pkg/curl", "transformGeneric", nil)
	if err != nil {
		b.Fatal(err)
	}
	var bufs [NumBufs][N]uint64
	b.Run("asm", func(b *testing.B) {
		for i := 0; i < b.N; i++ {
			m := NewMachine("asm", false)
			m.SetConcrete(&bufs)
			p.Run(m)
		}
	})
	b.Run("generic", func(b *testing.B) {
		for i := 0; i < b.N; i++ {
			m := NewMachine("generic", false)
			m.SetConcrete(&bufs)
			g.Run(m)
		}
	})
}
