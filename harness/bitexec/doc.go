// Package bitexec is the instruction-level executor used by check C20.
package bitexec
