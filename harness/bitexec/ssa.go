package bitexec

import (
	"fmt"
	"go/constant"
	"go/token"
	"go/types"
	"os"
	"sort"
	"strings"

	"golang.org/x/tools/go/packages"
	"golang.org/x/tools/go/ssa"
	"golang.org/x/tools/go/ssa/ssautil"
)

// Front end 2: loader and interpreter for the go/ssa form of the portable permutation
// (transformGeneric and its static callee sBox).
//
// The SSA functions are first compiled into a compact register form (one slot per SSA value), then
// interpreted on the shared Machine. An SSA instruction kind the compiler does not know becomes an
// sUnsupported instruction; if execution reaches it the run stops with "unsupported:<text>".

type sOp uint8

const (
	sUnsupported sOp = iota
	sLogic           // dst = x <logic> y
	sArith           // dst = x <arith> y
	sCmp             // dst = x <cmp> y (bool)
	sNot             // dst = ^x
	sNeg             // dst = -x
	sBoolNot         // dst = !x
	sCopy            // dst = x (Convert/ChangeType between 64-bit integers, Extract)
	sLoad            // dst = *x
	sStore           // *x = y
	sIndexAddr       // dst = &x[y]
	sCall            // dst.. = callee(args)
	sIf
	sJump
	sReturn
)

// sVal is an operand: a slot (>= 0) or a constant.
type sVal struct {
	slot int32
	c    Word
}

type sInstr struct {
	op     sOp
	logic  LogicOp
	arith  ArithOp
	tok    token.Token // comparison
	signed bool
	dst    int32
	x, y   sVal
	args   []sVal // call arguments / return values
	callee *sFunc
	text   string
}

type sPhi struct {
	dst   int32
	edges []sVal // one per predecessor, in predecessor order
	text  string
	bad   string // non-empty: not modelled
}

type sBlock struct {
	phis  []sPhi
	body  []sInstr
	succs [2]int32
	preds []int32
}

type sFunc struct {
	name     string
	blocks   []sBlock
	nslots   int
	nparams  int
	nresults int
	head     int // round-loop header block, -1 none (only used for the top-level function)
	headWhy  string
}

// GenericProgram is the compiled portable permutation.
type GenericProgram struct {
	Top      *sFunc
	Funcs    map[string]*sFunc
	SSAText  []string // printed SSA of the functions, for the evidence file
	Problems []string
	Files    []string
}

// LoadGeneric loads package pkgPath from the module at repoDir with build tag verif, builds its SSA
// form and compiles function fnName (with its static callees). overlay maps absolute file names to
// replacement contents (used only to demonstrate detection without touching the repository).
func LoadGeneric(repoDir, pkgPath, fnName string, overlay map[string][]byte) (*GenericProgram, error) {
	env := append(os.Environ(), "GOFLAGS=-mod=mod", "GOPROXY=off", "GOSUMDB=off", "GOTOOLCHAIN=local",
		"GOOS=linux", "GOARCH=amd64", "CGO_ENABLED=0")
	cfg := &packages.Config{
		Mode: packages.NeedName | packages.NeedFiles | packages.NeedCompiledGoFiles | packages.NeedImports |
			packages.NeedDeps | packages.NeedTypes | packages.NeedSyntax | packages.NeedTypesInfo |
			packages.NeedTypesSizes | packages.NeedModule,
		Dir: repoDir, BuildFlags: []string{"-tags=verif"}, Env: env, Overlay: overlay,
	}
	pkgs, err := packages.Load(cfg, pkgPath)
	if err != nil {
		return nil, fmt.Errorf("go/packages: %v", err)
	}
	if len(pkgs) != 1 {
		return nil, fmt.Errorf("go/packages: %d packages for %s", len(pkgs), pkgPath)
	}
	var errs []string
	packages.Visit(pkgs, nil, func(p *packages.Package) {
		for _, e := range p.Errors {
			errs = append(errs, e.Error())
		}
	})
	if len(errs) > 0 {
		return nil, fmt.Errorf("package does not load cleanly: %s", strings.Join(errs, "; "))
	}
	prog, spkgs := ssautil.Packages(pkgs, ssa.BuilderMode(0))
	if len(spkgs) != 1 || spkgs[0] == nil {
		return nil, fmt.Errorf("no SSA package")
	}
	_ = prog
	spkgs[0].Build()
	fn := spkgs[0].Func(fnName)
	if fn == nil {
		return nil, fmt.Errorf("function %s not found in %s", fnName, pkgPath)
	}
	g := &GenericProgram{Funcs: map[string]*sFunc{}, Files: pkgs[0].CompiledGoFiles}
	sizes := types.SizesFor("gc", "amd64")
	cp := &compiler{g: g, sizes: sizes, inProgress: map[*ssa.Function]bool{}}
	g.Top = cp.compile(fn)
	cp.findHead(fn, g.Top)
	return g, nil
}

type compiler struct {
	g          *GenericProgram
	sizes      types.Sizes
	inProgress map[*ssa.Function]bool
}

// is64 reports whether t is a 64-bit integer type, and whether it is signed.
func (cp *compiler) is64(t types.Type) (ok, signed bool) {
	b, isB := t.Underlying().(*types.Basic)
	if !isB || b.Info()&types.IsInteger == 0 || cp.sizes.Sizeof(b) != 8 {
		return false, false
	}
	return true, b.Info()&types.IsUnsigned == 0
}

func isBool(t types.Type) bool {
	b, ok := t.Underlying().(*types.Basic)
	return ok && b.Info()&types.IsBoolean != 0
}

// isBufPtr reports whether t is *[729]T with an 8-byte integer T.
func (cp *compiler) isBufPtr(t types.Type) bool {
	p, ok := t.Underlying().(*types.Pointer)
	if !ok {
		return false
	}
	a, ok := p.Elem().Underlying().(*types.Array)
	if !ok || a.Len() != N {
		return false
	}
	ok64, _ := cp.is64(a.Elem())
	return ok64
}

func (cp *compiler) isWordPtr(t types.Type) bool {
	p, ok := t.Underlying().(*types.Pointer)
	if !ok {
		return false
	}
	ok64, _ := cp.is64(p.Elem())
	return ok64
}

func (cp *compiler) compile(fn *ssa.Function) *sFunc {
	key := fn.String()
	if f, ok := cp.g.Funcs[key]; ok {
		return f
	}
	if cp.inProgress[fn] || len(fn.Blocks) == 0 || len(fn.FreeVars) > 0 {
		return nil // recursion, external function or closure: not modelled
	}
	cp.inProgress[fn] = true
	defer delete(cp.inProgress, fn)

	var sb strings.Builder
	fn.WriteTo(&sb)
	cp.g.SSAText = append(cp.g.SSAText, strings.Split(strings.TrimRight(sb.String(), "\n"), "\n")...)

	f := &sFunc{name: fn.Name(), head: -1, nparams: len(fn.Params), nresults: fn.Signature.Results().Len()}
	slots := map[ssa.Value]int32{}
	next := int32(0)
	for _, p := range fn.Params {
		slots[p] = next
		next++
	}
	for _, b := range fn.Blocks {
		for _, ins := range b.Instrs {
			v, ok := ins.(ssa.Value)
			if !ok {
				continue
			}
			slots[v] = next
			if tup, ok := v.Type().(*types.Tuple); ok {
				next += int32(tup.Len())
			} else {
				next++
			}
		}
	}
	f.nslots = int(next)

	// operand: slot or constant; ok == false: not modelled
	val := func(v ssa.Value) (sVal, bool) {
		if c, ok := v.(*ssa.Const); ok {
			if c.Value == nil {
				return sVal{slot: -1}, false
			}
			if ok64, _ := cp.is64(c.Type()); ok64 {
				if c.Value.Kind() != constant.Int {
					return sVal{slot: -1}, false
				}
				if i, exact := constant.Int64Val(c.Value); exact {
					return sVal{slot: -1, c: Ctl(uint64(i))}, true
				}
				if u, exact := constant.Uint64Val(c.Value); exact {
					return sVal{slot: -1, c: Ctl(u)}, true
				}
				return sVal{slot: -1}, false
			}
			if isBool(c.Type()) && c.Value.Kind() == constant.Bool {
				if constant.BoolVal(c.Value) {
					return sVal{slot: -1, c: Ctl(1)}, true
				}
				return sVal{slot: -1, c: Ctl(0)}, true
			}
			return sVal{slot: -1}, false
		}
		if s, ok := slots[v]; ok {
			return sVal{slot: s}, true
		}
		return sVal{slot: -1}, false // global, function value, free variable ...
	}

	f.blocks = make([]sBlock, len(fn.Blocks))
	for bi, b := range fn.Blocks {
		blk := &f.blocks[bi]
		blk.succs = [2]int32{-1, -1}
		for i, s := range b.Succs {
			if i < 2 {
				blk.succs[i] = int32(s.Index)
			}
		}
		for _, p := range b.Preds {
			blk.preds = append(blk.preds, int32(p.Index))
		}
		for _, raw := range b.Instrs {
			text := raw.String()
			if v, ok := raw.(ssa.Value); ok {
				text = v.Name() + " = " + text
			}
			text = fn.Name() + ": " + text
			si := sInstr{op: sUnsupported, text: text, dst: -1}
			if v, ok := raw.(ssa.Value); ok {
				si.dst = slots[v]
			}
			switch ins := raw.(type) {
			case *ssa.Phi:
				ph := sPhi{dst: slots[ins], text: text}
				for _, e := range ins.Edges {
					ev, ok := val(e)
					if !ok {
						ph.bad = text
					}
					ph.edges = append(ph.edges, ev)
				}
				blk.phis = append(blk.phis, ph)
				continue
			case *ssa.DebugRef:
				continue
			case *ssa.BinOp:
				// a buffer parameter compared with nil (defensive checks in front of the rounds): the executor always passes
				// the four buffers, so the comparison is the constant "pointer (1) against nil (0)"
				if ins.Op == token.EQL || ins.Op == token.NEQ {
					isNil := func(v ssa.Value) bool {
						c, ok := v.(*ssa.Const)
						if !ok || c.Value != nil {
							return false
						}
						_, isPtr := c.Type().Underlying().(*types.Pointer)
						return isPtr
					}
					isBuf := func(v ssa.Value) bool {
						p, ok := v.(*ssa.Parameter)
						if !ok {
							return false
						}
						_, isPtr := p.Type().Underlying().(*types.Pointer)
						return isPtr
					}
					if (isNil(ins.Y) && isBuf(ins.X)) || (isNil(ins.X) && isBuf(ins.Y)) {
						si.op, si.tok = sCmp, ins.Op
						si.x, si.y = sVal{slot: -1, c: Ctl(1)}, sVal{slot: -1, c: Ctl(0)}
						break
					}
				}
				x, okx := val(ins.X)
				y, oky := val(ins.Y)
				okT, signed := cp.is64(ins.X.Type())
				okY, _ := cp.is64(ins.Y.Type())
				if !okx || !oky || !okT || !okY {
					break
				}
				si.x, si.y, si.signed = x, y, signed
				switch ins.Op {
				case token.AND:
					si.op, si.logic = sLogic, OpAnd
				case token.OR:
					si.op, si.logic = sLogic, OpOr
				case token.XOR:
					si.op, si.logic = sLogic, OpXor
				case token.AND_NOT:
					si.op, si.logic = sLogic, OpAndNot
				case token.ADD:
					si.op, si.arith = sArith, OpAdd
				case token.SUB:
					si.op, si.arith = sArith, OpSub
				case token.MUL:
					si.op, si.arith = sArith, OpMul
				case token.SHL:
					si.op, si.arith = sArith, OpShl
				case token.SHR:
					si.op, si.arith = sArith, OpShr
					if signed {
						si.arith = OpSar
					}
				case token.EQL, token.NEQ, token.LSS, token.LEQ, token.GTR, token.GEQ:
					si.op, si.tok = sCmp, ins.Op
				}
			case *ssa.UnOp:
				x, okx := val(ins.X)
				if !okx {
					break
				}
				si.x = x
				ok64, _ := cp.is64(ins.Type())
				switch {
				case ins.Op == token.MUL && !ins.CommaOk && cp.isWordPtr(ins.X.Type()):
					si.op = sLoad
				case ins.Op == token.XOR && ok64:
					si.op = sNot
				case ins.Op == token.SUB && ok64:
					si.op = sNeg
				case ins.Op == token.NOT && isBool(ins.Type()):
					si.op = sBoolNot
				}
			case *ssa.IndexAddr:
				x, okx := val(ins.X)
				y, oky := val(ins.Index)
				okI, signed := cp.is64(ins.Index.Type())
				if okx && oky && okI && cp.isBufPtr(ins.X.Type()) {
					si.op, si.x, si.y, si.signed = sIndexAddr, x, y, signed
				}
			case *ssa.Store:
				x, okx := val(ins.Addr)
				y, oky := val(ins.Val)
				if okx && oky && cp.isWordPtr(ins.Addr.Type()) {
					si.op, si.x, si.y = sStore, x, y
				}
			case *ssa.Convert:
				x, okx := val(ins.X)
				okA, _ := cp.is64(ins.X.Type())
				okB, _ := cp.is64(ins.Type())
				if okx && okA && okB {
					si.op, si.x = sCopy, x
				}
			case *ssa.ChangeType:
				x, okx := val(ins.X)
				okA, _ := cp.is64(ins.X.Type())
				okB, _ := cp.is64(ins.Type())
				if okx && ((okA && okB) || (cp.isBufPtr(ins.X.Type()) && cp.isBufPtr(ins.Type()))) {
					si.op, si.x = sCopy, x
				}
			case *ssa.Extract:
				if base, ok := slots[ins.Tuple]; ok {
					si.op, si.x = sCopy, sVal{slot: base + int32(ins.Index)}
				}
			case *ssa.Call:
				callee := ins.Call.StaticCallee()
				if callee == nil || ins.Call.IsInvoke() || callee.Signature.Recv() != nil {
					break
				}
				cf := cp.compile(callee)
				if cf == nil {
					break
				}
				okArgs := true
				for _, a := range ins.Call.Args {
					av, ok := val(a)
					okArgs = okArgs && ok
					si.args = append(si.args, av)
				}
				if okArgs {
					si.op, si.callee = sCall, cf
				}
			case *ssa.If:
				if c, ok := val(ins.Cond); ok {
					si.op, si.x = sIf, c
				}
			case *ssa.Jump:
				si.op = sJump
			case *ssa.Return:
				okRes := true
				for _, r := range ins.Results {
					rv, ok := val(r)
					okRes = okRes && ok
					si.args = append(si.args, rv)
				}
				if okRes {
					si.op = sReturn
				}
			}
			blk.body = append(blk.body, si)
		}
	}
	cp.g.Funcs[key] = f
	return f
}

// findHead finds the header block of the outermost loop: the round loop. A back edge is an edge
// c -> h with h dominating c; the loop of h consists of all blocks that reach a back-edge source
// without passing through h.
func (cp *compiler) findHead(fn *ssa.Function, f *sFunc) {
	if f == nil {
		return
	}
	bodies := map[int]map[int]bool{}
	for _, c := range fn.Blocks {
		for _, h := range c.Succs {
			if !h.Dominates(c) {
				continue
			}
			body := bodies[h.Index]
			if body == nil {
				body = map[int]bool{h.Index: true}
				bodies[h.Index] = body
			}
			stack := []*ssa.BasicBlock{c}
			for len(stack) > 0 {
				b := stack[len(stack)-1]
				stack = stack[:len(stack)-1]
				if body[b.Index] {
					continue
				}
				body[b.Index] = true
				stack = append(stack, b.Preds...)
			}
		}
	}
	var outer []int
	for h, body := range bodies {
		contained := false
		for h2, body2 := range bodies {
			if h2 != h && body2[h] {
				contained = true
			}
		}
		_ = body
		if !contained {
			outer = append(outer, h)
		}
	}
	switch len(outer) {
	case 1:
		f.head = outer[0]
	case 0:
		f.headWhy = "no loop found in " + fn.Name() + ": round structure not recognised"
	default:
		f.headWhy = "several outermost loops in " + fn.Name() + ": round structure not recognised"
	}
}

// ---- interpreter ----

type ssaRun struct {
	m     *Machine
	where string
	depth int
	arena []Word // frames of the active calls, allocated stack-wise
	sp    int
}

// Run executes the compiled top-level function with the four buffer pointers as arguments.
func (g *GenericProgram) Run(m *Machine) {
	r := &ssaRun{m: m, arena: make([]Word, g.arenaSize())}
	m.Where = func() string { return r.where }
	if g.Top == nil {
		m.Unsupported("top-level function could not be compiled")
		return
	}
	if g.Top.nparams != NumBufs {
		m.Unsupported(fmt.Sprintf("top-level function has %d parameters, expected %d", g.Top.nparams, NumBufs))
		return
	}
	if g.Top.head < 0 && m.Symbolic {
		m.Unsupported(g.Top.headWhy)
		return
	}
	args := []Word{Ptr(BufLTo, 0), Ptr(BufHTo, 0), Ptr(BufLFrom, 0), Ptr(BufHFrom, 0)}
	if ok := r.call(g.Top, args, nil, true); ok {
		m.Boundary(true)
	}
}

func (r *ssaRun) get(fr []Word, v sVal) Word {
	if v.slot < 0 {
		return v.c
	}
	return fr[v.slot]
}

type oobCase struct {
	Frontend string `json:"frontend"`
	At       string `json:"at"`
	Buffer   string `json:"buffer"`
	Index    int64  `json:"index"`
	Round    int    `json:"round"`
}

// call interprets one function; the results are written to res (len >= f.nresults).
// ok == false means the run stopped.
func (r *ssaRun) call(f *sFunc, args []Word, res []Word, top bool) (ok bool) {
	m := r.m
	if r.depth > 64 || r.sp+f.nslots > len(r.arena) {
		m.Unsupported("call depth too large")
		return false
	}
	r.depth++
	fr := r.arena[r.sp : r.sp+f.nslots]
	r.sp += f.nslots
	defer func() { r.depth--; r.sp -= f.nslots }()
	copy(fr, args)
	blk, pred := 0, -1
	var phiTmp []Word
	for {
		b := &f.blocks[blk]
		if top && blk == f.head {
			m.Boundary(false)
			if m.Stopped {
				return false
			}
		}
		if len(b.phis) > 0 {
			pi := -1
			for i, p := range b.preds {
				if int(p) == pred {
					pi = i
				}
			}
			if pi < 0 {
				m.Unsupported("phi without matching predecessor in " + f.name)
				return false
			}
			phiTmp = phiTmp[:0]
			for i := range b.phis {
				ph := &b.phis[i]
				if ph.bad != "" {
					r.where = ph.text
					m.Unsupported(ph.bad)
					return false
				}
				phiTmp = append(phiTmp, r.get(fr, ph.edges[pi]))
			}
			for i := range b.phis {
				fr[b.phis[i].dst] = phiTmp[i]
			}
			m.Steps += int64(len(b.phis))
		}
		next := -1
		for i := range b.body {
			ins := &b.body[i]
			if !m.Tick() {
				return false
			}
			switch ins.op {
			case sLogic:
				fr[ins.dst] = Logic(ins.logic, r.get(fr, ins.x), r.get(fr, ins.y))
			case sArith:
				fr[ins.dst] = Arith(ins.arith, r.get(fr, ins.x), r.get(fr, ins.y))
			case sCmp:
				x, y := r.get(fr, ins.x), r.get(fr, ins.y)
				var res bool
				if ins.signed {
					a, b := int64(x.V), int64(y.V)
					switch ins.tok {
					case token.EQL:
						res = a == b
					case token.NEQ:
						res = a != b
					case token.LSS:
						res = a < b
					case token.LEQ:
						res = a <= b
					case token.GTR:
						res = a > b
					case token.GEQ:
						res = a >= b
					}
				} else {
					a, b := x.V, y.V
					switch ins.tok {
					case token.EQL:
						res = a == b
					case token.NEQ:
						res = a != b
					case token.LSS:
						res = a < b
					case token.LEQ:
						res = a <= b
					case token.GTR:
						res = a > b
					case token.GEQ:
						res = a >= b
					}
				}
				w := Word{Kind: CmpKind(x, y)}
				if res {
					w.V = 1
				}
				if w.Kind == Data {
					w2 := w
					mergeMeta(&w2, &x, &y, false)
					w2.V = w.V
					w = w2
				}
				fr[ins.dst] = w
			case sNot:
				fr[ins.dst] = Not(r.get(fr, ins.x))
			case sNeg:
				fr[ins.dst] = Arith(OpSub, Ctl(0), r.get(fr, ins.x))
			case sBoolNot:
				x := r.get(fr, ins.x)
				x.V ^= 1
				x.Flags &^= fLanewise
				fr[ins.dst] = x
			case sCopy:
				fr[ins.dst] = r.get(fr, ins.x)
			case sIndexAddr:
				r.where = ins.text
				base, idx := r.get(fr, ins.x), r.get(fr, ins.y)
				switch {
				case base.Kind != Pointer || base.V != 0:
					m.Unsupported(ins.text + " (base is not one of the buffer arguments)")
					return false
				case idx.Kind == Data:
					m.Note("data-dependent-address", "index depends on buffer contents at "+ins.text,
						map[string]interface{}{"frontend": m.Frontend, "at": ins.text, "round": m.Rounds + 1})
					m.Stop("data-dependent address")
					return false
				case idx.Kind != Control:
					m.Unsupported(ins.text + " (index is not an integer)")
					return false
				}
				if int64(idx.V) < 0 || int64(idx.V) >= N {
					// the compiled code panics here (index out of range)
					m.Violation("oob", fmt.Sprintf("index %d out of range [0,%d) of %s at %s: the compiled code panics",
						int64(idx.V), N, BufName(int(base.Buf)), ins.text),
						oobCase{Frontend: m.Frontend, At: ins.text, Buffer: BufName(int(base.Buf)), Index: int64(idx.V), Round: m.Rounds + 1})
					m.Stop("index out of range (run-time panic)")
					return false
				}
				fr[ins.dst] = Ptr(int(base.Buf), int64(idx.V)*8)
			case sLoad:
				r.where = ins.text
				fr[ins.dst] = m.Load(r.get(fr, ins.x))
			case sStore:
				r.where = ins.text
				m.Store(r.get(fr, ins.x), r.get(fr, ins.y))
			case sCall:
				var cbuf [8]Word
				cargs := cbuf[:0]
				for _, a := range ins.args {
					cargs = append(cargs, r.get(fr, a))
				}
				var out []Word
				if ins.callee.nresults > 0 {
					out = fr[ins.dst : int(ins.dst)+ins.callee.nresults]
				}
				if !r.call(ins.callee, cargs, out, false) {
					return false
				}
			case sIf:
				r.where = ins.text
				c := r.get(fr, ins.x)
				switch {
				case c.Kind == Control:
				case c.Kind == Data && m.Symbolic:
					m.Note("data-dependent-branch", ins.text+" depends on buffer contents",
						map[string]interface{}{"frontend": m.Frontend, "at": ins.text, "round": m.Rounds + 1})
					m.Stop("data-dependent branch")
					return false
				case c.Kind == Data:
				default:
					m.Unsupported(ins.text + " (condition undefined in the model)")
					return false
				}
				if c.V&1 != 0 {
					next = int(b.succs[0])
				} else {
					next = int(b.succs[1])
				}
			case sJump:
				next = int(b.succs[0])
			case sReturn:
				if len(res) < len(ins.args) && !top {
					m.Unsupported(ins.text + " (result count mismatch)")
					return false
				}
				for k, a := range ins.args {
					if k < len(res) {
						res[k] = r.get(fr, a)
					}
				}
				return true
			default:
				r.where = ins.text
				m.Unsupported(ins.text)
				return false
			}
			if m.Stopped {
				return false
			}
		}
		if next < 0 {
			m.Unsupported("block without terminator in " + f.name)
			return false
		}
		pred, blk = blk, next
	}
}

// UnmodelledInstrs lists SSA instructions the compiler could not model (whether or not execution
// reaches them).
func (g *GenericProgram) UnmodelledInstrs() []string {
	var out []string
	defer func() { sort.Strings(out) }()
	for _, f := range g.Funcs {
		for _, b := range f.blocks {
			for _, ph := range b.phis {
				if ph.bad != "" {
					out = append(out, ph.text)
				}
			}
			for _, ins := range b.body {
				if ins.op == sUnsupported {
					out = append(out, ins.text)
				}
			}
		}
	}
	return out
}

// arenaSize is the number of frame slots needed for the deepest possible call chain (the call
// depth is limited to 64; recursion is not modelled).
func (g *GenericProgram) arenaSize() int {
	max := 0
	for _, f := range g.Funcs {
		if f.nslots > max {
			max = f.nslots
		}
	}
	n := 0
	if g.Top != nil {
		n = g.Top.nslots
	}
	return n + 8*max + 64
}
