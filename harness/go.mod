module verifharness

go 1.23

require (
	github.com/iotaledger/iota.go v1.0.0
	golang.org/x/crypto v0.2.0
	golang.org/x/tools v0.29.0
)

require (
	filippo.io/edwards25519 v1.0.0 // indirect
	github.com/pkg/errors v0.8.1 // indirect
	golang.org/x/sys v0.29.0 // indirect
	golang.org/x/text v0.4.0 // indirect
)

require (
	github.com/wollac/iota-crypto-demo v0.0.0
	golang.org/x/mod v0.22.0 // indirect
	golang.org/x/sync v0.10.0 // indirect
)

replace github.com/wollac/iota-crypto-demo => /repo
