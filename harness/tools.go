//go:build tools

package tools

import (
	_ "golang.org/x/tools/go/packages"
	_ "golang.org/x/tools/go/ssa"
	_ "golang.org/x/tools/go/ssa/ssautil"
)
