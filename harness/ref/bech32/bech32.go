// Package bech32 is a transcription of the BIP-173 reference implementation (segwit_addr.py) plus
// the acceptance predicate of property C04. It shares no code with the repository.
package bech32

import "strings"

const Charset = "qpzry9x8gf2tvdw0s3jn54khce6mua7l"

var gen = [5]uint32{0x3b6a57b2, 0x26508e6d, 0x1ea119fa, 0x3d4233dd, 0x2a1462b3}

// Polymod is bech32_polymod.
func Polymod(values []byte) uint32 {
	chk := uint32(1)
	for _, v := range values {
		b := chk >> 25
		chk = (chk&0x1ffffff)<<5 ^ uint32(v)
		for i := 0; i < 5; i++ {
			if (b>>uint(i))&1 == 1 {
				chk ^= gen[i]
			}
		}
	}
	return chk
}

// HrpExpand is bech32_hrp_expand.
func HrpExpand(hrp string) []byte {
	out := make([]byte, 0, 2*len(hrp)+1)
	for i := 0; i < len(hrp); i++ {
		out = append(out, hrp[i]>>5)
	}
	out = append(out, 0)
	for i := 0; i < len(hrp); i++ {
		out = append(out, hrp[i]&31)
	}
	return out
}

// CreateChecksum is bech32_create_checksum (hrp must be lower case).
func CreateChecksum(hrp string, data []byte) []byte {
	values := append(HrpExpand(hrp), data...)
	values = append(values, 0, 0, 0, 0, 0, 0)
	pm := Polymod(values) ^ 1
	out := make([]byte, 6)
	for i := 0; i < 6; i++ {
		out[i] = byte((pm >> uint(5*(5-i))) & 31)
	}
	return out
}

// EncodeSymbolsConst is EncodeSymbols with another final polymod constant (1 = Bech32, 0x2bc830a3 = Bech32m): strings
// that a BIP-173 decoder must reject although their checksum is "right" for some other convention.
func EncodeSymbolsConst(hrp string, data []byte, konst uint32) string {
	values := append(HrpExpand(hrp), data...)
	values = append(values, 0, 0, 0, 0, 0, 0)
	pm := Polymod(values) ^ konst
	var sb strings.Builder
	sb.WriteString(hrp)
	sb.WriteByte('1')
	for _, d := range data {
		sb.WriteByte(Charset[d])
	}
	for i := 0; i < 6; i++ {
		sb.WriteByte(Charset[byte((pm>>uint(5*(5-i)))&31)])
	}
	return sb.String()
}

// EncodeSymbols is bech32_encode: hrp (lower case) + '1' + charset(data + checksum).
func EncodeSymbols(hrp string, data []byte) string {
	comb := append(append([]byte{}, data...), CreateChecksum(hrp, data)...)
	var sb strings.Builder
	sb.WriteString(hrp)
	sb.WriteByte('1')
	for _, d := range comb {
		sb.WriteByte(Charset[d])
	}
	return sb.String()
}

// ConvertBits is convertbits from the reference (general power-of-two base conversion).
func ConvertBits(data []byte, from, to uint, pad bool) ([]byte, bool) {
	acc, bits := uint(0), uint(0)
	var ret []byte
	maxv := uint(1)<<to - 1
	for _, v := range data {
		if uint(v)>>from != 0 {
			return nil, false
		}
		acc = acc<<from | uint(v)
		bits += from
		for bits >= to {
			bits -= to
			ret = append(ret, byte((acc>>bits)&maxv))
		}
	}
	if pad {
		if bits > 0 {
			ret = append(ret, byte((acc<<(to-bits))&maxv))
		}
	} else if bits >= from || (acc<<(to-bits))&maxv != 0 {
		return nil, false
	}
	return ret, true
}

func asciiLower(s string) string {
	b := []byte(s)
	for i, c := range b {
		if c >= 'A' && c <= 'Z' {
			b[i] = c + 32
		}
	}
	return string(b)
}

func asciiUpper(s string) string {
	b := []byte(s)
	for i, c := range b {
		if c >= 'a' && c <= 'z' {
			b[i] = c - 32
		}
	}
	return string(b)
}

// Lower is ASCII lower-casing.
func Lower(s string) string { return asciiLower(s) }

// Upper is ASCII upper-casing.
func Upper(s string) string { return asciiUpper(s) }

// DecodeSymbols is bech32_decode: returns the lower-cased hrp and the 5-bit symbols without checksum.
func DecodeSymbols(s string) (string, []byte, bool) {
	for i := 0; i < len(s); i++ {
		if s[i] < 33 || s[i] > 126 {
			return "", nil, false
		}
	}
	if asciiLower(s) != s && asciiUpper(s) != s {
		return "", nil, false
	}
	s = asciiLower(s)
	pos := strings.LastIndexByte(s, '1')
	if pos < 1 || pos+7 > len(s) || len(s) > 90 {
		return "", nil, false
	}
	hrp := s[:pos]
	var data []byte
	for i := pos + 1; i < len(s); i++ {
		d := strings.IndexByte(Charset, s[i])
		if d < 0 {
			return "", nil, false
		}
		data = append(data, byte(d))
	}
	if Polymod(append(HrpExpand(hrp), data...)) != 1 {
		return "", nil, false
	}
	return hrp, data[:len(data)-6], true
}

// Decode is the acceptance predicate of C04: a valid BIP-173 string whose data regroups into whole
// bytes with zero padding (convertbits 5->8 without padding, exactly as segwit_addr.decode does).
func Decode(s string) (hrp string, data []byte, ok bool) {
	hrp, sym, ok := DecodeSymbols(s)
	if !ok {
		return "", nil, false
	}
	data, ok = ConvertBits(sym, 5, 8, false)
	if !ok {
		return "", nil, false
	}
	if data == nil {
		data = []byte{}
	}
	return hrp, data, true
}

// Encode is the oracle of C05: ok=false when the property demands an error.
func Encode(hrp string, data []byte) (string, bool) {
	if len(hrp) < 1 {
		return "", false
	}
	for i := 0; i < len(hrp); i++ {
		if hrp[i] < 33 || hrp[i] > 126 {
			return "", false
		}
	}
	lower, upper := asciiLower(hrp), asciiUpper(hrp)
	if hrp != lower && hrp != upper {
		return "", false
	}
	sym, _ := ConvertBits(data, 8, 5, true)
	if len(hrp)+1+len(sym)+6 > 90 {
		return "", false
	}
	s := EncodeSymbols(lower, sym)
	if hrp != lower {
		s = asciiUpper(s)
	}
	return s, true
}

// SelfTest checks the reference against BIP-173's published vectors.
func SelfTest() string {
	valid := []string{
		"A12UEL5L", "a12uel5l",
		"an83characterlonghumanreadablepartthatcontainsthenumber1andtheexcludedcharactersbio1tt5tgs",
		"abcdef1qpzry9x8gf2tvdw0s3jn54khce6mua7lmqqqxw",
		"11qqqqqqqqqqqqqqqqqqqqqqqqqqqqqqqqqqqqqqqqqqqqqqqqqqqqqqqqqqqqqqqqqqqqqqqqqqqqqqqqqqc8247j",
		"split1checkupstagehandshakeupstreamerranterredcaperred2y9e3w",
		"?1ezyfcl",
	}
	for _, v := range valid {
		if _, _, ok := DecodeSymbols(v); !ok {
			return "valid vector rejected: " + v
		}
	}
	invalid := []string{
		"\x201nwldj5", "\x7f1axkwrx", "\x801eym55h",
		"an84characterslonghumanreadablepartthatcontainsthenumber1andtheexcludedcharactersbio1569pvx",
		"pzry9x0s0muk", "1pzry9x0s0muk", "x1b4n0q5v", "li1dgmt3", "de1lg7wt\xff", "A1G7SGD8", "10a06t8", "1qzzfhee",
	}
	for _, v := range invalid {
		if _, _, ok := DecodeSymbols(v); ok {
			return "invalid vector accepted: " + v
		}
	}
	// segwit address vectors exercise convertbits
	h, d, ok := Decode("bc1qw508d6qejxtdg4y5r3zarvary0c5xw7kv8f3t4")
	if ok || h != "" || d != nil {
		// witness version symbol + program is not byte aligned as a whole: 1+32 symbols -> 165 bits: invalid for whole-byte regrouping
		return "segwit address unexpectedly byte-aligned"
	}
	if s, ok := Encode("a", nil); !ok || s != "a12uel5l" {
		return "Encode(a, nil) = " + s
	}
	if s, ok := Encode("A", nil); !ok || s != "A12UEL5L" {
		return "Encode(A, nil) = " + s
	}
	return ""
}
