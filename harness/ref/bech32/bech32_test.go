package bech32

import "testing"

func TestSelf(t *testing.T) {
	if s := SelfTest(); s != "" {
		t.Fatal(s)
	}
}
