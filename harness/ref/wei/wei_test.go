package wei

import (
	"crypto/elliptic"
	"math/big"
	"testing"
)

func TestAgainstP256(t *testing.T) {
	c := P256()
	std := elliptic.P256()
	for _, k := range []int64{1, 2, 3, 7, 1000003} {
		p := c.Mul(c.G(), big.NewInt(k))
		x, y := std.ScalarBaseMult(big.NewInt(k).Bytes())
		if p.X.Cmp(x) != 0 || p.Y.Cmp(y) != 0 {
			t.Fatalf("k=%d", k)
		}
	}
	if !c.Mul(c.G(), c.N).IsO() {
		t.Fatal("nG != O")
	}
}

func TestSecp(t *testing.T) {
	c := Secp256k1()
	if !c.OnCurve(c.G()) || !c.Mul(c.G(), c.N).IsO() {
		t.Fatal("params")
	}
	// 2G known value
	two := c.Add(c.G(), c.G())
	if two.X.Text(16) != "c6047f9441ed7d6d3045406e95c07cd85c778e4b8cef3ca7abac09b95c709ee5" {
		t.Fatal("2G", two.X.Text(16))
	}
	nm1 := new(big.Int).Sub(c.N, big.NewInt(1))
	if !c.Mul(c.G(), nm1).Eq(c.Neg(c.G())) {
		t.Fatal("(n-1)G != -G")
	}
	if !c.Add(c.G(), c.Neg(c.G())).IsO() {
		t.Fatal("G-G")
	}
}
