// Package wei is affine short-Weierstrass arithmetic (y^2 = x^3 + a x + b over F_p) on math/big with
// every special case explicit. The identity is written (0,0) as crypto/elliptic prescribes.
package wei

import "math/big"

// Curve parameters.
type Curve struct {
	P, A, B, N, Gx, Gy *big.Int
}

// Pt is an affine point; the identity is (0,0).
type Pt struct{ X, Y *big.Int }

func hx(s string) *big.Int { v, _ := new(big.Int).SetString(s, 16); return v }

// Secp256k1 per SEC 2 section 2.4.1.
func Secp256k1() *Curve {
	return &Curve{
		P:  hx("FFFFFFFFFFFFFFFFFFFFFFFFFFFFFFFFFFFFFFFFFFFFFFFFFFFFFFFEFFFFFC2F"),
		A:  big.NewInt(0),
		B:  big.NewInt(7),
		N:  hx("FFFFFFFFFFFFFFFFFFFFFFFFFFFFFFFEBAAEDCE6AF48A03BBFD25E8CD0364141"),
		Gx: hx("79BE667EF9DCBBAC55A06295CE870B07029BFCDB2DCE28D959F2815B16F81798"),
		Gy: hx("483ADA7726A3C4655DA4FBFC0E1108A8FD17B448A68554199C47D08FFB10D4B8"),
	}
}

// P256 per FIPS 186-4 D.1.2.3.
func P256() *Curve {
	p := hx("ffffffff00000001000000000000000000000000ffffffffffffffffffffffff")
	return &Curve{
		P:  p,
		A:  new(big.Int).Sub(p, big.NewInt(3)),
		B:  hx("5ac635d8aa3a93e7b3ebbd55769886bc651d06b0cc53b0f63bce3c3e27d2604b"),
		N:  hx("ffffffff00000000ffffffffffffffffbce6faada7179e84f3b9cac2fc632551"),
		Gx: hx("6b17d1f2e12c4247f8bce6e563a440f277037d812deb33a0f4a13945d898c296"),
		Gy: hx("4fe342e2fe1a7f9b8ee7eb4a7c0f9e162bce33576b315ececbb6406837bf51f5"),
	}
}

// O is the identity.
func O() Pt { return Pt{new(big.Int), new(big.Int)} }

// IsO reports the identity.
func (p Pt) IsO() bool { return p.X.Sign() == 0 && p.Y.Sign() == 0 }

// Eq compares points.
func (p Pt) Eq(q Pt) bool { return p.X.Cmp(q.X) == 0 && p.Y.Cmp(q.Y) == 0 }

// G is the generator.
func (c *Curve) G() Pt { return Pt{new(big.Int).Set(c.Gx), new(big.Int).Set(c.Gy)} }

// OnCurve: affine solution of the curve equation with coordinates in [0,p). The identity is not one.
func (c *Curve) OnCurve(p Pt) bool {
	if p.X.Sign() < 0 || p.Y.Sign() < 0 || p.X.Cmp(c.P) >= 0 || p.Y.Cmp(c.P) >= 0 {
		return false
	}
	l := new(big.Int).Mul(p.Y, p.Y)
	l.Mod(l, c.P)
	r := new(big.Int).Mul(p.X, p.X)
	r.Add(r, c.A)
	r.Mul(r, p.X)
	r.Add(r, c.B)
	r.Mod(r, c.P)
	return l.Cmp(r) == 0
}

// Neg returns -p.
func (c *Curve) Neg(p Pt) Pt {
	if p.IsO() {
		return O()
	}
	y := new(big.Int).Sub(c.P, p.Y)
	y.Mod(y, c.P)
	return Pt{new(big.Int).Set(p.X), y}
}

// Add is the group law with all special cases.
func (c *Curve) Add(p, q Pt) Pt {
	if p.IsO() {
		return Pt{new(big.Int).Set(q.X), new(big.Int).Set(q.Y)}
	}
	if q.IsO() {
		return Pt{new(big.Int).Set(p.X), new(big.Int).Set(p.Y)}
	}
	var lam *big.Int
	if p.X.Cmp(q.X) == 0 {
		s := new(big.Int).Add(p.Y, q.Y)
		s.Mod(s, c.P)
		if s.Sign() == 0 {
			return O()
		}
		// tangent: (3x^2 + a) / (2y)
		num := new(big.Int).Mul(p.X, p.X)
		num.Mul(num, big.NewInt(3))
		num.Add(num, c.A)
		den := new(big.Int).Lsh(p.Y, 1)
		den.ModInverse(den.Mod(den, c.P), c.P)
		lam = num.Mul(num, den)
	} else {
		num := new(big.Int).Sub(q.Y, p.Y)
		den := new(big.Int).Sub(q.X, p.X)
		den.ModInverse(den.Mod(den, c.P), c.P)
		lam = num.Mul(num, den)
	}
	lam.Mod(lam, c.P)
	x := new(big.Int).Mul(lam, lam)
	x.Sub(x, p.X)
	x.Sub(x, q.X)
	x.Mod(x, c.P)
	y := new(big.Int).Sub(p.X, x)
	y.Mul(y, lam)
	y.Sub(y, p.Y)
	y.Mod(y, c.P)
	return Pt{x, y}
}

// Mul is [k]p for any k >= 0 (not reduced).
func (c *Curve) Mul(p Pt, k *big.Int) Pt {
	r := O()
	for i := k.BitLen() - 1; i >= 0; i-- {
		r = c.Add(r, r)
		if k.Bit(i) == 1 {
			r = c.Add(r, p)
		}
	}
	return r
}

// Compress is SEC1 compressed serialization (33 bytes); the identity has none.
func (c *Curve) Compress(p Pt) []byte {
	out := make([]byte, 33)
	out[0] = 2 + byte(p.Y.Bit(0))
	p.X.FillBytes(out[1:])
	return out
}

// LiftX returns a point with the given x if x^3+ax+b is a square (p = 3 mod 4 for both curves).
func (c *Curve) LiftX(x *big.Int) (Pt, bool) {
	r := new(big.Int).Mul(x, x)
	r.Add(r, c.A)
	r.Mul(r, x)
	r.Add(r, c.B)
	r.Mod(r, c.P)
	e := new(big.Int).Add(c.P, big.NewInt(1))
	e.Rsh(e, 2)
	y := new(big.Int).Exp(r, e, c.P)
	if new(big.Int).Exp(y, big.NewInt(2), c.P).Cmp(r) != 0 {
		return Pt{}, false
	}
	return Pt{new(big.Int).Set(x), y}, true
}
