//go:build filippo

// Differential test against filippo.io/edwards25519 (v1.0.0, present in the
// module cache through /repo's requirements). It sits behind a build tag because
// /verif/harness/go.mod does not list that module as a direct requirement, and
// under GOFLAGS=-mod=mod an untagged import would make the go command rewrite
// go.mod/go.sum. Run it without touching them via an alternate module file:
//
//	cp go.mod /tmp/ref.mod; cp go.sum /tmp/ref.sum
//	go test -tags filippo -modfile=/tmp/ref.mod ./ref/ed/
//
// (If go.mod ever gains `filippo.io/edwards25519 v1.0.0`, the tag can be dropped.)
package ed

import (
	"bytes"
	"math/big"
	"math/rand"
	"testing"

	"filippo.io/edwards25519"
)

func TestFilippoDecode(t *testing.T) {
	var inputs [][32]byte
	inputs = append(inputs, SmallOrderEncodings()...)
	for y := int64(0); y <= 40; y++ {
		for s := uint(0); s < 2; s++ {
			inputs = append(inputs, encodeYSign(bi(y), s))
			if y < 19 {
				inputs = append(inputs, encodeYSign(new(big.Int).Add(bi(y), P), s))
			}
		}
	}
	for y := int64(1); y <= 20; y++ { // just below p
		inputs = append(inputs, encodeYSign(new(big.Int).Sub(P, bi(y)), 0), encodeYSign(new(big.Int).Sub(P, bi(y)), 1))
	}
	rng := rand.New(rand.NewSource(6))
	for i := 0; i < 200; i++ {
		var b [32]byte
		rng.Read(b[:])
		inputs = append(inputs, b)
	}
	accepted := 0
	for _, in := range inputs {
		fp, err := new(edwards25519.Point).SetBytes(in[:])
		p, ok := DecodePermissive(in[:])
		if ok != (err == nil) {
			t.Fatalf("%x: ref accept=%v filippo err=%v", in, ok, err)
		}
		if !ok {
			continue
		}
		accepted++
		if enc := p.Encode(); !bytes.Equal(enc[:], fp.Bytes()) {
			t.Fatalf("%x: decoded point differs: %x vs %x", in, enc, fp.Bytes())
		}
		// canonical decoding succeeds exactly for self-re-encoding inputs
		_, okc := DecodeCanonical(in[:])
		if okc != bytes.Equal(fp.Bytes(), in[:]) {
			t.Fatalf("%x: DecodeCanonical=%v but re-encoding equal=%v", in, okc, !okc)
		}
		// [8]P and small-order classification
		f8 := new(edwards25519.Point).MultByCofactor(fp)
		if e8 := p.MulByCofactor().Encode(); !bytes.Equal(e8[:], f8.Bytes()) {
			t.Fatalf("%x: cofactor multiple differs", in)
		}
		if p.IsSmallOrder() != (f8.Equal(edwards25519.NewIdentityPoint()) == 1) {
			t.Fatalf("%x: IsSmallOrder", in)
		}
	}
	if accepted < 80 {
		t.Fatalf("only %d inputs accepted; test is vacuous", accepted)
	}
}

func TestFilippoArithmetic(t *testing.T) {
	rng := rand.New(rand.NewSource(7))
	if e := Base().Encode(); !bytes.Equal(e[:], edwards25519.NewGeneratorPoint().Bytes()) {
		t.Fatal("base point")
	}
	tor := Torsion()
	for i := 0; i < 100; i++ {
		var wide [64]byte
		rng.Read(wide[:])
		fk, _ := new(edwards25519.Scalar).SetUniformBytes(wide[:])
		k := ScalarFromBytesLE(wide[:]) // unreduced 512-bit
		if kb := ScalarToBytesLE32(ReduceL(k)); !bytes.Equal(kb[:], fk.Bytes()) {
			t.Fatal("scalar reduction")
		}
		// base multiplication, with unreduced and reduced scalar
		fB := new(edwards25519.Point).ScalarBaseMult(fk)
		pB := Base().ScalarMult(k)
		if e := pB.Encode(); !bytes.Equal(e[:], fB.Bytes()) || !pB.Equal(Base().ScalarMult(ReduceL(k))) {
			t.Fatal("base mult")
		}
		// variable point with a torsion component: filippo multiplies by k mod L,
		// so compare with the reduced scalar.
		q := pB.Add(tor[i%8])
		qe := q.Encode()
		fq, err := new(edwards25519.Point).SetBytes(qe[:])
		if err != nil {
			t.Fatal(err)
		}
		rng.Read(wide[:])
		fm, _ := new(edwards25519.Scalar).SetUniformBytes(wide[:])
		m := ReduceL(ScalarFromBytesLE(wide[:]))
		if e := q.ScalarMult(m).Encode(); !bytes.Equal(e[:], new(edwards25519.Point).ScalarMult(fm, fq).Bytes()) {
			t.Fatal("variable mult")
		}
		// add / sub / neg
		if e := q.Add(pB).Encode(); !bytes.Equal(e[:], new(edwards25519.Point).Add(fq, fB).Bytes()) {
			t.Fatal("add")
		}
		if e := q.Sub(pB).Encode(); !bytes.Equal(e[:], new(edwards25519.Point).Subtract(fq, fB).Bytes()) {
			t.Fatal("sub")
		}
		if e := q.Neg().Encode(); !bytes.Equal(e[:], new(edwards25519.Point).Negate(fq).Bytes()) {
			t.Fatal("neg")
		}
	}
}
