package ed

import (
	"bytes"
	stded "crypto/ed25519"
	"crypto/sha512"
	"encoding/hex"
	"math/big"
	"math/rand"
	"testing"
)

func unhex(s string) []byte {
	b, err := hex.DecodeString(s)
	if err != nil {
		panic(err)
	}
	return b
}

func randScalar(rng *rand.Rand, bits int) *big.Int {
	b := make([]byte, (bits+7)/8)
	rng.Read(b)
	k := new(big.Int).SetBytes(b)
	return k.Rsh(k, uint(len(b)*8-bits))
}

// naiveMult is an affine double-and-add built only on Point.Add; it cross-checks
// the extended-coordinate ladder inside ScalarMult.
func naiveMult(p Point, k *big.Int) Point {
	r := Identity()
	for i := k.BitLen() - 1; i >= 0; i-- {
		r = r.Add(r)
		if k.Bit(i) == 1 {
			r = r.Add(p)
		}
	}
	return r
}

func TestConstants(t *testing.T) {
	if got := hex.EncodeToString(func() []byte { e := Base().Encode(); return e[:] }()); got != "5866666666666666666666666666666666666666666666666666666666666666" {
		t.Fatalf("base encoding %s", got)
	}
	if fmul(SqrtM1, SqrtM1).Cmp(fneg(bi(1))) != 0 {
		t.Fatal("sqrt(-1)")
	}
	if fmul(D, bi(121666)).Cmp(fneg(bi(121665))) != 0 {
		t.Fatal("d")
	}
	if !L.ProbablyPrime(32) || !P.ProbablyPrime(32) {
		t.Fatal("primality")
	}
	// decimal/hex forms as printed in RFC 8032 section 5.1
	want, _ := new(big.Int).SetString("37095705934669439343138083508754565189542113879843219016388785533085940283555", 10)
	if D.Cmp(want) != 0 {
		t.Fatal("d decimal")
	}
	bx, _ := new(big.Int).SetString("15112221349535400772501151409588531511454012693041857206046113283949847762202", 10)
	if Base().X.Cmp(bx) != 0 {
		t.Fatal("base x")
	}
	lh, _ := new(big.Int).SetString("1000000000000000000000000000000014def9dea2f79cd65812631a5cf5d3ed", 16)
	if L.Cmp(lh) != 0 {
		t.Fatal("L hex")
	}
}

// TestFieldOps checks the division-free helpers against plain big.Int.Mod,
// including edge values and (for robustness) unreduced / negative inputs.
func TestFieldOps(t *testing.T) {
	rng := rand.New(rand.NewSource(8))
	vals := []*big.Int{bi(0), bi(1), bi(18), bi(19), bi(20), new(big.Int).Sub(P, bi(1)), new(big.Int).Sub(P, bi(2)),
		new(big.Int).Set(P), new(big.Int).Add(P, bi(1)), new(big.Int).Set(mask255), new(big.Int).Set(two255),
		new(big.Int).Lsh(bi(1), 256), bi(-1), bi(-19), new(big.Int).Neg(P), new(big.Int).Neg(two255)}
	for i := 0; i < 200; i++ {
		vals = append(vals, randScalar(rng, 255), new(big.Int).Mod(randScalar(rng, 300), P))
	}
	m := func(x *big.Int) *big.Int { return new(big.Int).Mod(x, P) }
	for _, a := range vals {
		for _, b := range vals[:40] {
			a0, b0 := new(big.Int).Set(a), new(big.Int).Set(b)
			if fadd(a, b).Cmp(m(new(big.Int).Add(a, b))) != 0 || fsub(a, b).Cmp(m(new(big.Int).Sub(a, b))) != 0 ||
				fmul(a, b).Cmp(m(new(big.Int).Mul(a, b))) != 0 || fneg(a).Cmp(m(new(big.Int).Neg(a))) != 0 {
				t.Fatalf("field op mismatch for %v %v", a, b)
			}
			if a.Cmp(a0) != 0 || b.Cmp(b0) != 0 {
				t.Fatal("field op mutated its input")
			}
		}
		if m(a).Sign() != 0 && fmul(a, finv(a)).Cmp(bi(1)) != 0 {
			t.Fatal("finv")
		}
		if r := reduce(new(big.Int).Mul(a, a)); r.Cmp(m(new(big.Int).Mul(a, a))) != 0 {
			t.Fatal("reduce")
		}
	}
}

func TestGroupLaw(t *testing.T) {
	rng := rand.New(rand.NewSource(1))
	B := Base()
	if !B.IsOnCurve() || !Identity().IsOnCurve() || (Point{bi(1), bi(1)}).IsOnCurve() {
		t.Fatal("IsOnCurve")
	}
	if !B.ScalarMult(L).IsIdentity() || B.ScalarMult(bi(1)).IsIdentity() {
		t.Fatal("[L]B")
	}
	if !B.Add(B.Neg()).IsIdentity() || !B.Sub(B).IsIdentity() || !B.Add(Identity()).Equal(B) {
		t.Fatal("inverse/neutral")
	}
	if !B.ScalarMult(bi(0)).IsIdentity() || !Identity().ScalarMult(bi(12345)).IsIdentity() {
		t.Fatal("zero")
	}
	tor := Torsion()
	for i := 0; i < 60; i++ {
		a, b, c := randScalar(rng, 256), randScalar(rng, 300), randScalar(rng, 64)
		// include torsion components so that mixed-order points are exercised
		p := B.ScalarMult(a).Add(tor[i%8])
		q := B.ScalarMult(b).Add(tor[(i/8)%8])
		r := B.ScalarMult(c)
		for _, x := range []Point{p, q, r} {
			if !x.IsOnCurve() {
				t.Fatal("off curve")
			}
		}
		if !p.Add(q).Add(r).Equal(p.Add(q.Add(r))) || !p.Add(q).Equal(q.Add(p)) {
			t.Fatal("assoc/comm")
		}
		if !p.Add(p).Equal(p.ScalarMult(bi(2))) || !p.Sub(q).Add(q).Equal(p) {
			t.Fatal("double/sub")
		}
		// ScalarMult (extended ladder) == affine double-and-add; homomorphism; non-reduced scalars
		if !p.ScalarMult(c).Equal(naiveMult(p, c)) || !q.ScalarMult(b).Equal(naiveMult(q, b)) {
			t.Fatal("ScalarMult vs naive")
		}
		if !r.ScalarMult(new(big.Int).Add(a, b)).Equal(r.ScalarMult(a).Add(r.ScalarMult(b))) {
			t.Fatal("distributive")
		}
		if !r.ScalarMult(b).Equal(r.ScalarMult(ReduceL(b))) {
			t.Fatal("reduce mod L on prime-order point")
		}
		if !p.MulByCofactor().Equal(naiveMult(p, bi(8))) || p.IsSmallOrder() {
			t.Fatal("cofactor")
		}
		enc := p.Encode()
		if d, ok := DecodeCanonical(enc[:]); !ok || !d.Equal(p) {
			t.Fatal("canonical round trip")
		}
	}
}

func TestScalarBytes(t *testing.T) {
	rng := rand.New(rand.NewSource(2))
	for i := 0; i < 100; i++ {
		k := randScalar(rng, 256)
		b := ScalarToBytesLE32(k)
		if ScalarFromBytesLE(b[:]).Cmp(k) != 0 {
			t.Fatal("round trip")
		}
	}
	if ScalarFromBytesLE([]byte{1, 2}).Int64() != 0x0201 || ReduceL(new(big.Int).Add(L, bi(5))).Int64() != 5 {
		t.Fatal("LE / ReduceL")
	}
}

func TestTorsion(t *testing.T) {
	tor := Torsion()
	seen := map[[32]byte]bool{}
	for i, p := range tor {
		if !p.IsOnCurve() || !p.IsSmallOrder() || !p.Equal(tor[1].ScalarMult(bi(int64(i)))) {
			t.Fatalf("T[%d]", i)
		}
		seen[p.Encode()] = true
		// exact order of T[i] is 8/gcd(i,8)
		order := 1
		for q := p; !q.IsIdentity(); q = q.Add(p) {
			order++
		}
		if want := 8 / int(new(big.Int).GCD(nil, nil, bi(int64(i)), bi(8)).Int64()); i > 0 && order != want || i == 0 && order != 1 {
			t.Fatalf("order of T[%d] = %d", i, order)
		}
	}
	if len(seen) != 8 || !tor[0].IsIdentity() {
		t.Fatal("not 8 distinct points")
	}
	if tor[4].X.Sign() != 0 || tor[4].Y.Cmp(fneg(bi(1))) != 0 {
		t.Fatal("T[4] != (0,-1)")
	}
	if tor[2].Y.Sign() != 0 || tor[6].Y.Sign() != 0 { // order-4 points are (+-sqrt(-1), 0)
		t.Fatal("order-4 points")
	}
	// the canonical encodings of the 8 small-order points as commonly tabulated
	for _, h := range []string{
		"0100000000000000000000000000000000000000000000000000000000000000",
		"ecffffffffffffffffffffffffffffffffffffffffffffffffffffffffffff7f",
		"0000000000000000000000000000000000000000000000000000000000000000",
		"0000000000000000000000000000000000000000000000000000000000000080",
		"26e8958fc2b227b045c3f489f2ef98f0d5dfac05d3c63339b13802886d53fc05",
		"26e8958fc2b227b045c3f489f2ef98f0d5dfac05d3c63339b13802886d53fc85",
		"c7176a703d4dd84fba3c0b760d10670f2a2053fa2c39ccc64ec7fd7792ac037a",
		"c7176a703d4dd84fba3c0b760d10670f2a2053fa2c39ccc64ec7fd7792ac03fa",
	} {
		var k [32]byte
		copy(k[:], unhex(h))
		if !seen[k] {
			t.Fatalf("known small-order encoding %s missing", h)
		}
	}
	// a point is small order iff it is one of the 8
	if Base().IsSmallOrder() || Base().Add(tor[3]).IsSmallOrder() {
		t.Fatal("IsSmallOrder false positive")
	}
}

func TestEncodings(t *testing.T) {
	all := SmallOrderEncodings()
	set := map[[32]byte]bool{}
	nonCanon := 0
	for _, e := range all {
		set[e] = true
		p, ok := DecodePermissive(e[:])
		if !ok || !p.IsSmallOrder() {
			t.Fatalf("%x", e)
		}
		if _, ok := DecodeCanonical(e[:]); !ok {
			nonCanon++
		}
	}
	if len(all) != 14 || len(set) != 14 || nonCanon != 6 {
		t.Fatalf("small order encodings: %d total, %d distinct, %d non-canonical", len(all), len(set), nonCanon)
	}
	// AllEncodings: sizes, round trip, first is canonical, and completeness by
	// brute force over the only candidates that can be non-canonical.
	B := Base()
	pts := append([]Point{B, B.ScalarMult(bi(77))}, func() []Point { t := Torsion(); return t[:] }()...)
	for y := int64(0); y <= 40; y++ {
		for s := byte(0); s < 2; s++ {
			e := encodeYSign(bi(y), uint(s))
			if p, ok := DecodePermissive(e[:]); ok {
				pts = append(pts, p)
			}
		}
	}
	for _, p := range pts {
		encs := AllEncodings(p)
		want := 1
		if p.Y.Cmp(bi(19)) < 0 {
			want *= 2
		}
		if p.X.Sign() == 0 {
			want *= 2
		}
		if p.Y.Cmp(fneg(bi(1))) == 0 && want != 2 || len(encs) != want || encs[0] != p.Encode() {
			t.Fatalf("AllEncodings count %d want %d", len(encs), want)
		}
		for i, e := range encs {
			q, ok := DecodePermissive(e[:])
			if !ok || !q.Equal(p) {
				t.Fatal("AllEncodings does not decode back")
			}
			if _, okc := DecodeCanonical(e[:]); okc != (i == 0) {
				t.Fatal("exactly the first encoding must be canonical")
			}
		}
		// completeness: the 4 candidate strings (y or y+p) x (sign 0/1)
		n := 0
		for _, y := range []*big.Int{p.Y, new(big.Int).Add(p.Y, P)} {
			if y.Cmp(two255) >= 0 {
				continue
			}
			for s := uint(0); s < 2; s++ {
				e := encodeYSign(y, s)
				if q, ok := DecodePermissive(e[:]); ok && q.Equal(p) {
					n++
				}
			}
		}
		if n != len(encs) {
			t.Fatalf("AllEncodings incomplete: %d vs brute force %d", len(encs), n)
		}
	}
	// strict vs permissive on the named corner cases
	for _, c := range []struct {
		h           string
		perm, canon bool
	}{
		{"0100000000000000000000000000000000000000000000000000000000000080", true, false},  // y=1, x=0, sign 1
		{"ecffffffffffffffffffffffffffffffffffffffffffffffffffffffffffffff", true, false},  // y=-1, x=0, sign 1
		{"edffffffffffffffffffffffffffffffffffffffffffffffffffffffffffff7f", true, false},  // y=p
		{"eeffffffffffffffffffffffffffffffffffffffffffffffffffffffffffff7f", true, false},  // y=p+1
		{"ffffffffffffffffffffffffffffffffffffffffffffffffffffffffffffff7f", true, false},  // y=p+18 = 2^255-1
		{"0200000000000000000000000000000000000000000000000000000000000000", false, false}, // y=2 not on curve
		{"5866666666666666666666666666666666666666666666666666666666666666", true, true},
	} {
		_, okp := DecodePermissive(unhex(c.h))
		_, okc := DecodeCanonical(unhex(c.h))
		if okp != c.perm || okc != c.canon {
			t.Fatalf("%s: permissive %v canonical %v", c.h, okp, okc)
		}
	}
	if _, ok := DecodePermissive(make([]byte, 31)); ok {
		t.Fatal("length")
	}
	// recoverX agrees with math/big's ModSqrt on solvability
	rng := rand.New(rand.NewSource(3))
	for i := 0; i < 300; i++ {
		y := new(big.Int).Mod(randScalar(rng, 256), P)
		yy := fmul(y, y)
		w := fmul(fsub(yy, bi(1)), finv(fadd(fmul(D, yy), bi(1))))
		x, ok := recoverX(y)
		if ok != (new(big.Int).ModSqrt(w, P) != nil) || ok && fmul(x, x).Cmp(w) != 0 {
			t.Fatal("recoverX")
		}
	}
}

func TestRFC8032Vectors(t *testing.T) {
	abc := sha512.Sum512([]byte("abc"))
	for i, v := range []struct{ seed, pub, msg, sig string }{
		{"9d61b19deffd5a60ba844af492ec2cc44449c5697b326919703bac031cae7f60",
			"d75a980182b10ab7d54bfed3c964073a0ee172f3daa62325af021a68f707511a", "",
			"e5564300c360ac729086e2cc806e828a84877f1eb8e5d974d873e065224901555fb8821590a33bacc61e39701cf9b46bd25bf5f0595bbe24655141438e7a100b"},
		{"4ccd089b28ff96da9db6c346ec114e0f5b8a319f35aba624da8cf6ed4fb8a6fb",
			"3d4017c3e843895a92b70aa74d1b7ebc9c982ccf2ec4968cc0cd55f12af4660c", "72",
			"92a009a9f0d4cab8720e820b5f642540a2b27b5416503f8fb3762223ebdb69da085ac1e43e15996e458f3613d0f11d8c387b2eaeb4302aeeb00d291612bb0c00"},
		{"c5aa8df43f9f837bedb7442f31dcb7b166d38535076f094b85ce3a2e0b4458f7",
			"fc51cd8e6218a1a38da47ed00230f0580816ed13ba3303ac5deb911548908025", "af82",
			"6291d657deec24024827e69c3abe01a30ce548a284743a445e3680d7db5ac3ac18ff9b538d16f290ae67f760984dc6594a7c15e9716ed28dc027beceea1ec40a"},
		{"833fe62409237b9d62ec77587520911e9a759cec1d19755b7da901b96dca3d42", // TEST SHA(abc)
			"ec172b93ad5e563bf4932c70e1245034c35467ef2efd4d64ebf819683467e2bf", hex.EncodeToString(abc[:]),
			"dc2a4459e7369633a52b1bf277839a00201009a3efbf3ecb69bea2186c26b58909351fc9ac90b3ecfdfbc7c66431e0303dca179c138ac17ad9bef1177331a704"},
	} {
		pub := PublicFromSeed(unhex(v.seed))
		sig := Sign(unhex(v.seed), unhex(v.msg))
		if !bytes.Equal(pub[:], unhex(v.pub)) || !bytes.Equal(sig[:], unhex(v.sig)) {
			t.Fatalf("vector %d", i+1)
		}
		if !VerifyZIP215(pub[:], unhex(v.msg), sig[:]) || !VerifyStrict(pub[:], unhex(v.msg), sig[:]) {
			t.Fatalf("vector %d does not verify", i+1)
		}
	}
}

func TestAgainstStdlib(t *testing.T) {
	rng := rand.New(rand.NewSource(4))
	for i := 0; i < 200; i++ {
		seed := make([]byte, 32)
		rng.Read(seed)
		msg := make([]byte, rng.Intn(1100)) // covers the 1023-byte region of RFC 8032 test 1024
		rng.Read(msg)
		priv := stded.NewKeyFromSeed(seed)
		wantPub, wantSig := []byte(priv.Public().(stded.PublicKey)), stded.Sign(priv, msg)
		pub, sig := PublicFromSeed(seed), Sign(seed, msg)
		if !bytes.Equal(pub[:], wantPub) || !bytes.Equal(sig[:], wantSig) {
			t.Fatalf("seed %x: pub/sig differ from crypto/ed25519", seed)
		}
		if !VerifyZIP215(pub[:], msg, sig[:]) || !VerifyStrict(pub[:], msg, sig[:]) {
			t.Fatal("honest signature rejected")
		}
		if i >= 40 {
			continue // the flips below cost 3 verifications each
		}
		// single bit flips in sig, pub and msg: all three predicates agree
		for j := 0; j < 12; j++ {
			p2, m2, s2 := append([]byte{}, pub[:]...), append([]byte{}, msg...), append([]byte{}, sig[:]...)
			switch tgt := j % 3; {
			case tgt == 0:
				s2[rng.Intn(64)] ^= 1 << rng.Intn(8)
			case tgt == 1:
				p2[rng.Intn(32)] ^= 1 << rng.Intn(8)
			case len(m2) > 0:
				m2[rng.Intn(len(m2))] ^= 1 << rng.Intn(8)
			default:
				m2 = append(m2, 0)
			}
			want := stded.Verify(p2, m2, s2)
			if VerifyZIP215(p2, m2, s2) != want || VerifyStrict(p2, m2, s2) != want || want {
				t.Fatalf("bit flip disagreement (std=%v)", want)
			}
		}
		// S + L is the same residue but must be rejected
		s3 := append([]byte{}, sig[:]...)
		sl := ScalarToBytesLE32(new(big.Int).Add(ScalarFromBytesLE(sig[32:]), L))
		copy(s3[32:], sl[:])
		if VerifyZIP215(pub[:], msg, s3) || VerifyStrict(pub[:], msg, s3) || stded.Verify(pub[:], msg, s3) {
			t.Fatal("S >= L accepted")
		}
	}
	if VerifyZIP215(make([]byte, 31), nil, make([]byte, 64)) || VerifyZIP215(make([]byte, 32), nil, make([]byte, 63)) {
		t.Fatal("length checks")
	}
}

// TestSignRawCofactored: torsion-shifted and non-canonically encoded signatures
// built with SignRaw satisfy the cofactored predicate and (when a torsion
// component is present) not the strict one.
func TestSignRawCofactored(t *testing.T) {
	rng := rand.New(rand.NewSource(5))
	seed := make([]byte, 32)
	rng.Read(seed)
	a, _ := ExpandSeed(seed)
	A := Base().ScalarMult(a)
	msg := []byte("zip215")
	for i, T := range Torsion() {
		for j, TA := range Torsion() {
			if j%3 != 0 && i != j {
				continue
			}
			r := ReduceL(randScalar(rng, 512))
			Renc, Aenc := Base().ScalarMult(r).Add(T).Encode(), A.Add(TA).Encode()
			sig := SignRaw(Renc, Aenc, a, r, msg)
			if !VerifyZIP215(Aenc[:], msg, sig[:]) {
				t.Fatalf("torsion (%d,%d) signature rejected by ZIP215", i, j)
			}
			if i == 0 && j == 0 && (!VerifyStrict(Aenc[:], msg, sig[:]) || !stded.Verify(Aenc[:], msg, sig[:])) {
				t.Fatal("torsion-free SignRaw must be an ordinary signature")
			}
		}
	}
	// small-order A and R in every encoding: S = r = 0 gives [8]0 == [8]R + [8][k]A
	for _, Renc := range SmallOrderEncodings() {
		for _, Aenc := range SmallOrderEncodings() {
			sig := SignRaw(Renc, Aenc, bi(0), bi(0), msg)
			if !VerifyZIP215(Aenc[:], msg, sig[:]) {
				t.Fatalf("small-order pair %x %x rejected", Renc, Aenc)
			}
		}
	}
}

func BenchmarkScalarMult(b *testing.B) {
	k := randScalar(rand.New(rand.NewSource(9)), 253)
	p := Base().ScalarMult(bi(3))
	b.ResetTimer()
	for i := 0; i < b.N; i++ {
		p.ScalarMult(k)
	}
}

func BenchmarkAffineAdd(b *testing.B) {
	p, q := Base().ScalarMult(bi(3)), Base().ScalarMult(bi(5))
	for i := 0; i < b.N; i++ {
		p.Add(q)
	}
}

func BenchmarkDecodePermissive(b *testing.B) {
	e := Base().ScalarMult(bi(3)).Encode()
	for i := 0; i < b.N; i++ {
		DecodePermissive(e[:])
	}
}

func BenchmarkVerifyZIP215(b *testing.B) {
	seed, msg := make([]byte, 32), []byte("bench")
	pub, sig := PublicFromSeed(seed), Sign(seed, msg)
	b.ResetTimer()
	for i := 0; i < b.N; i++ {
		if !VerifyZIP215(pub[:], msg, sig[:]) {
			b.Fatal()
		}
	}
}

func BenchmarkSign(b *testing.B) {
	seed, msg := make([]byte, 32), []byte("bench")
	for i := 0; i < b.N; i++ {
		Sign(seed, msg)
	}
}
