// Package ed is a deliberately boring reference model of edwards25519 and
// Ed25519 over math/big. It is an oracle for the verification harness: it shares
// no code with the library under test and does not use filippo.io/edwards25519
// or crypto/ed25519 (those appear only in the tests, as differential oracles).
//
// Nothing here is constant time. Points are immutable values: no method ever
// mutates the big.Ints reachable from its receiver or arguments.
package ed

import (
	"crypto/sha512"
	"math/big"
)

// ---------------------------------------------------------------- constants

func bi(v int64) *big.Int { return big.NewInt(v) }

var (
	// P = 2^255 - 19, the field prime.
	P = new(big.Int).Sub(new(big.Int).Lsh(bi(1), 255), bi(19))
	// L = 2^252 + 27742317777372353535851937790883648493, the prime order of Base().
	L = func() *big.Int {
		c, _ := new(big.Int).SetString("27742317777372353535851937790883648493", 10)
		return c.Add(c, new(big.Int).Lsh(bi(1), 252))
	}()
	// D = -121665/121666 mod p, the curve constant of -x^2 + y^2 = 1 + d x^2 y^2.
	D = fmul(fneg(bi(121665)), finv(bi(121666)))
	// SqrtM1 = 2^((p-1)/4) mod p, a square root of -1.
	SqrtM1 = new(big.Int).Exp(bi(2), new(big.Int).Rsh(new(big.Int).Sub(P, bi(1)), 2), P)

	d2       = fadd(D, D)                                            // 2d
	sqrtExp  = new(big.Int).Rsh(new(big.Int).Add(P, bi(3)), 3)       // (p+3)/8
	two255   = new(big.Int).Lsh(bi(1), 255)                          // 2^255
	mask255  = new(big.Int).Sub(new(big.Int).Lsh(bi(1), 255), bi(1)) // 2^255 - 1
	nineteen = bi(19)
	// base point: y = 4/5, x even (RFC 8032 section 5.1)
	base = func() Point {
		y := fmul(bi(4), finv(bi(5)))
		x, ok := recoverX(y)
		if !ok {
			panic("ed: base point has no x")
		}
		if x.Bit(0) == 1 {
			x = fneg(x)
		}
		return Point{x, y}
	}()
	torsion = computeTorsion()
)

// ---------------------------------------------------------------- field helpers (all return fresh values in [0,p))

// norm brings r into [0,p): one conditional add/subtract when r is in (-p,2p)
// (always the case for sums/differences of reduced values), division otherwise.
func norm(r *big.Int) *big.Int {
	if r.Sign() < 0 {
		r.Add(r, P)
	} else if r.Cmp(P) >= 0 {
		r.Sub(r, P)
	}
	if r.Sign() < 0 || r.Cmp(P) >= 0 {
		r.Mod(r, P)
	}
	return r
}

// reduce brings r >= 0 into [0,p) without division, using 2^255 = 19 (mod p):
// r = hi*2^255 + lo  ->  19*hi + lo, repeated until r < 2^255.
func reduce(r *big.Int) *big.Int {
	if r.Sign() < 0 {
		return r.Mod(r, P)
	}
	for r.BitLen() > 255 {
		hi := new(big.Int).Rsh(r, 255)
		r.And(r, mask255)
		r.Add(r, hi.Mul(hi, nineteen))
	}
	if r.Cmp(P) >= 0 {
		r.Sub(r, P)
	}
	return r
}

func fadd(a, b *big.Int) *big.Int { return norm(new(big.Int).Add(a, b)) }
func fsub(a, b *big.Int) *big.Int { return norm(new(big.Int).Sub(a, b)) }
func fmul(a, b *big.Int) *big.Int { return reduce(new(big.Int).Mul(a, b)) }
func fneg(a *big.Int) *big.Int    { return norm(new(big.Int).Neg(a)) }
func finv(a *big.Int) *big.Int {
	r := new(big.Int).ModInverse(new(big.Int).Mod(a, P), P)
	if r == nil {
		panic("ed: inverse of zero")
	}
	return r
}

// recoverX solves x^2 = (y^2-1)/(d y^2+1) following RFC 8032 section 5.1.3 steps 2-3
// and returns one of the two roots (no sign selection). The denominator is
// never zero because -1/d is not a square.
func recoverX(y *big.Int) (*big.Int, bool) {
	yy := fmul(y, y)
	w := fmul(fsub(yy, bi(1)), finv(fadd(fmul(D, yy), bi(1))))
	x := new(big.Int).Exp(w, sqrtExp, P) // candidate w^((p+3)/8)
	switch xx := fmul(x, x); {
	case xx.Cmp(w) == 0:
		return x, true
	case xx.Cmp(fneg(w)) == 0:
		return fmul(x, SqrtM1), true
	}
	return nil, false
}

// ---------------------------------------------------------------- points

// Point is an affine point; the identity is (0,1). Coordinates are reduced mod p.
type Point struct{ X, Y *big.Int }

func Identity() Point { return Point{bi(0), bi(1)} }
func Base() Point     { return base }

// Add is the complete unified affine Edwards addition (a = -1):
// x3 = (x1y2+y1x2)/(1+d x1x2y1y2), y3 = (y1y2+x1x2)/(1-d x1x2y1y2).
func (p Point) Add(q Point) Point {
	x1x2, y1y2 := fmul(p.X, q.X), fmul(p.Y, q.Y)
	t := fmul(D, fmul(x1x2, y1y2))
	x3 := fmul(fadd(fmul(p.X, q.Y), fmul(p.Y, q.X)), finv(fadd(bi(1), t)))
	y3 := fmul(fadd(y1y2, x1x2), finv(fsub(bi(1), t)))
	return Point{x3, y3}
}

func (p Point) Neg() Point           { return Point{fneg(p.X), new(big.Int).Set(p.Y)} }
func (p Point) Sub(q Point) Point    { return p.Add(q.Neg()) }
func (p Point) Equal(q Point) bool   { return p.X.Cmp(q.X) == 0 && p.Y.Cmp(q.Y) == 0 }
func (p Point) IsIdentity() bool     { return p.X.Sign() == 0 && p.Y.Cmp(bi(1)) == 0 }
func (p Point) MulByCofactor() Point { return p.ScalarMult(bi(8)) }
func (p Point) IsSmallOrder() bool   { return p.MulByCofactor().IsIdentity() }

// IsOnCurve checks 0 <= x,y < p and -x^2 + y^2 = 1 + d x^2 y^2.
func (p Point) IsOnCurve() bool {
	if p.X == nil || p.Y == nil || p.X.Sign() < 0 || p.Y.Sign() < 0 || p.X.Cmp(P) >= 0 || p.Y.Cmp(P) >= 0 {
		return false
	}
	xx, yy := fmul(p.X, p.X), fmul(p.Y, p.Y)
	return fsub(yy, xx).Cmp(fadd(bi(1), fmul(D, fmul(xx, yy)))) == 0
}

// ext is a point in extended homogeneous coordinates (x=X/Z, y=Y/Z, xy=T/Z),
// used only inside ScalarMult to avoid one field inversion per group operation.
type ext struct{ x, y, z, t *big.Int }

// ladder holds the accumulator and scratch space of one ScalarMult call. Its
// in-place helpers exist only to avoid ~20k allocations per multiplication;
// they assume reduced inputs and that dst of mul is distinct from its operands.
type ladder struct {
	r                              ext
	a, b, c, d, e, f, g, h, t1, t2 *big.Int
	hi, hi19                       *big.Int
}

func (w *ladder) mul(dst, x, y *big.Int) { // dst = x*y mod p, same folding as reduce
	dst.Mul(x, y)
	for dst.BitLen() > 255 {
		w.hi.Rsh(dst, 255)
		dst.And(dst, mask255)
		dst.Add(dst, w.hi19.Mul(w.hi, nineteen))
	}
	if dst.Cmp(P) >= 0 {
		dst.Sub(dst, P)
	}
}
func (w *ladder) add(dst, x, y *big.Int) {
	if dst.Add(x, y); dst.Cmp(P) >= 0 {
		dst.Sub(dst, P)
	}
}
func (w *ladder) sub(dst, x, y *big.Int) {
	if dst.Sub(x, y); dst.Sign() < 0 {
		dst.Add(dst, P)
	}
}

// step sets r = r + q with the unified "add-2008-hwcd-3" formula, which is
// complete for a = -1 and non-square d, so q = r gives the doubling. All
// inputs are consumed before r is overwritten, hence q may alias r.
func (w *ladder) step(q *ext) {
	r := &w.r
	w.sub(w.t1, r.y, r.x)
	w.sub(w.t2, q.y, q.x)
	w.mul(w.a, w.t1, w.t2) // A = (Y1-X1)(Y2-X2)
	w.add(w.t1, r.y, r.x)
	w.add(w.t2, q.y, q.x)
	w.mul(w.b, w.t1, w.t2) // B = (Y1+X1)(Y2+X2)
	w.mul(w.t1, r.t, d2)
	w.mul(w.c, w.t1, q.t) // C = T1*2d*T2
	w.add(w.t1, r.z, r.z)
	w.mul(w.d, w.t1, q.z) // D = 2*Z1*Z2
	w.sub(w.e, w.b, w.a)
	w.sub(w.f, w.d, w.c)
	w.add(w.g, w.d, w.c)
	w.add(w.h, w.b, w.a)
	w.mul(r.x, w.e, w.f)
	w.mul(r.y, w.g, w.h)
	w.mul(r.z, w.f, w.g)
	w.mul(r.t, w.e, w.h)
}

// ScalarMult returns [k]p for any non-negative k (k is not reduced), by
// most-significant-bit-first double-and-add.
func (p Point) ScalarMult(k *big.Int) Point {
	if k.Sign() < 0 {
		panic("ed: negative scalar")
	}
	n := func() *big.Int { return new(big.Int) }
	w := ladder{ext{bi(0), bi(1), bi(1), bi(0)}, n(), n(), n(), n(), n(), n(), n(), n(), n(), n(), n(), n()}
	x, y := new(big.Int).Mod(p.X, P), new(big.Int).Mod(p.Y, P) // no-op for well-formed points
	pe := ext{x, y, bi(1), fmul(x, y)}                         // read-only
	for i := k.BitLen() - 1; i >= 0; i-- {
		w.step(&w.r)
		if k.Bit(i) == 1 {
			w.step(&pe)
		}
	}
	zi := finv(w.r.z)
	return Point{fmul(w.r.x, zi), fmul(w.r.y, zi)}
}

// ---------------------------------------------------------------- encodings

func leToInt(b []byte) *big.Int {
	be := make([]byte, len(b))
	for i, v := range b {
		be[len(b)-1-i] = v
	}
	return new(big.Int).SetBytes(be)
}

func encodeYSign(y *big.Int, sign uint) [32]byte {
	out := ScalarToBytesLE32(y) // y < 2^255
	out[31] |= byte(sign << 7)
	return out
}

// Encode returns the canonical RFC 8032 encoding: y little-endian, top bit = x mod 2.
func (p Point) Encode() [32]byte { return encodeYSign(p.Y, p.X.Bit(0)) }

func decode(b []byte, strict bool) (Point, bool) {
	if len(b) != 32 {
		return Point{}, false
	}
	y := leToInt(b)
	sign := y.Bit(255)
	y.SetBit(y, 255, 0)
	if y.Cmp(P) >= 0 {
		if strict {
			return Point{}, false
		}
		y.Sub(y, P) // y < 2^255 < 2p
	}
	x, ok := recoverX(y)
	if !ok {
		return Point{}, false
	}
	if x.Sign() == 0 {
		if sign == 1 && strict {
			return Point{}, false
		}
		return Point{x, y}, true // permissive: "negative zero" is accepted as x = 0
	}
	if x.Bit(0) != sign {
		x = fneg(x)
	}
	return Point{x, y}, true
}

// DecodePermissive is the ZIP-215 decoding rule: y is the low 255 bits reduced
// mod p (y >= p allowed), it fails iff x^2 = (y^2-1)/(d y^2+1) has no root, and
// x = 0 with sign bit 1 is accepted. On failure the returned Point is the zero
// value (nil coordinates) and must not be used.
func DecodePermissive(b []byte) (Point, bool) { return decode(b, false) }

// DecodeCanonical is RFC 8032 section 5.1.3 strictly: additionally rejects y >= p and
// x = 0 with sign bit 1. It succeeds exactly for b == p.Encode() of a curve point.
func DecodeCanonical(b []byte) (Point, bool) { return decode(b, true) }

// AllEncodings returns every 32-byte string that DecodePermissive maps to p,
// canonical one first: y and, when y < 19, also y+p (< 2^255); the sign bit of
// x, or both sign bits when x = 0. That is 1, 2 or 4 strings.
func AllEncodings(p Point) [][32]byte {
	ys := []*big.Int{p.Y}
	if p.Y.Cmp(bi(19)) < 0 {
		ys = append(ys, new(big.Int).Add(p.Y, P))
	}
	signs := []uint{p.X.Bit(0)}
	if p.X.Sign() == 0 {
		signs = []uint{0, 1}
	}
	var out [][32]byte
	for _, y := range ys {
		for _, s := range signs {
			out = append(out, encodeYSign(y, s))
		}
	}
	return out
}

// ---------------------------------------------------------------- torsion

// computeTorsion finds an order-8 point deterministically: the first y = 2,3,...
// that is on the curve (even x) whose multiple by L has exact order 8.
func computeTorsion() (t [8]Point) {
	t[0] = Identity()
	for y := int64(2); ; y++ {
		x, ok := recoverX(bi(y))
		if !ok {
			continue
		}
		if x.Bit(0) == 1 {
			x = fneg(x)
		}
		g := Point{x, bi(y)}.ScalarMult(L) // kills the prime-order component
		if !g.ScalarMult(bi(4)).IsIdentity() {
			t[1] = g
			break
		}
	}
	for i := 2; i < 8; i++ {
		t[i] = t[i-1].Add(t[1])
	}
	return t
}

// Torsion returns the 8 points of order dividing 8, T[i] = [i]T[1], T[0] = identity.
func Torsion() [8]Point { return torsion }

// SmallOrderEncodings returns all permissive encodings of the 8 torsion points (14 strings).
func SmallOrderEncodings() [][32]byte {
	var out [][32]byte
	for _, t := range torsion {
		out = append(out, AllEncodings(t)...)
	}
	return out
}

// ---------------------------------------------------------------- scalars

// ScalarFromBytesLE interprets b as a little-endian integer, without reduction.
func ScalarFromBytesLE(b []byte) *big.Int { return leToInt(b) }

// ScalarToBytesLE32 encodes 0 <= k < 2^256 as 32 little-endian bytes (panics otherwise).
func ScalarToBytesLE32(k *big.Int) (out [32]byte) {
	var be [32]byte
	k.FillBytes(be[:])
	for i, v := range be {
		out[31-i] = v
	}
	return out
}

// ReduceL returns k mod L in [0,L).
func ReduceL(k *big.Int) *big.Int { return new(big.Int).Mod(k, L) }

// hashL = SHA-512(parts...) as a little-endian integer mod L.
func hashL(parts ...[]byte) *big.Int {
	h := sha512.New()
	for _, p := range parts {
		h.Write(p)
	}
	return ReduceL(leToInt(h.Sum(nil)))
}

// ---------------------------------------------------------------- Ed25519 (RFC 8032 section 5.1)

// ExpandSeed computes SHA-512(seed); a is the clamped lower half as an
// integer (2^254 <= a < 2^255, multiple of 8), prefix is the upper half.
func ExpandSeed(seed []byte) (a *big.Int, prefix [32]byte) {
	h := sha512.Sum512(seed)
	h[0] &= 248
	h[31] &= 127
	h[31] |= 64
	copy(prefix[:], h[32:])
	return leToInt(h[:32]), prefix
}

func PublicFromSeed(seed []byte) [32]byte {
	a, _ := ExpandSeed(seed)
	return Base().ScalarMult(a).Encode()
}

// Sign is pure Ed25519: r = H(prefix||M) mod L, R = [r]B, S = r + H(R||A||M) a mod L.
func Sign(seed []byte, msg []byte) [64]byte {
	a, prefix := ExpandSeed(seed)
	A := Base().ScalarMult(a).Encode()
	r := hashL(prefix[:], msg)
	return SignRaw(Base().ScalarMult(r).Encode(), A, a, r, msg)
}

// SignRaw builds Renc || S with S = (r + (SHA512(Renc||Aenc||msg) mod L) * a) mod L.
// Renc and Aenc are used verbatim, so they may be non-canonical or torsion-shifted.
func SignRaw(Renc, Aenc [32]byte, a, r *big.Int, msg []byte) (sig [64]byte) {
	k := hashL(Renc[:], Aenc[:], msg)
	s := ScalarToBytesLE32(ReduceL(new(big.Int).Add(r, new(big.Int).Mul(k, a))))
	copy(sig[:32], Renc[:])
	copy(sig[32:], s[:])
	return sig
}

// VerifyZIP215 is true exactly when len(sig)==64, len(pub)==32, S < L, pub and
// sig[:32] decode permissively, and [8][S]B == [8]R + [8][k]A with
// k = SHA-512(sig[:32] || pub || msg) mod L over the bytes as given.
func VerifyZIP215(pub, msg, sig []byte) bool {
	if len(sig) != 64 || len(pub) != 32 {
		return false
	}
	s := leToInt(sig[32:])
	if s.Cmp(L) >= 0 {
		return false
	}
	A, okA := DecodePermissive(pub)
	R, okR := DecodePermissive(sig[:32])
	if !okA || !okR {
		return false
	}
	k := hashL(sig[:32], pub, msg)
	lhs := Base().ScalarMult(s).MulByCofactor()
	rhs := R.MulByCofactor().Add(A.ScalarMult(k).MulByCofactor())
	return lhs.Equal(rhs)
}

// VerifyStrict is RFC 8032 verification at its strictest: canonical A and R,
// S < L, cofactorless [S]B == R + [k]A.
func VerifyStrict(pub, msg, sig []byte) bool {
	if len(sig) != 64 || len(pub) != 32 {
		return false
	}
	s := leToInt(sig[32:])
	if s.Cmp(L) >= 0 {
		return false
	}
	A, okA := DecodeCanonical(pub)
	R, okR := DecodeCanonical(sig[:32])
	if !okA || !okR {
		return false
	}
	k := hashL(sig[:32], pub, msg)
	return Base().ScalarMult(s).Equal(R.Add(A.ScalarMult(k)))
}
