// Package vrf is a reference model of RFC 9381 ECVRF-EDWARDS25519-SHA512-TAI
// (suite_string = 0x03) written directly from the RFC text on top of the
// math/big model in verifharness/ref/ed. It shares no code with the library
// under test.
//
// Parameters of the suite (RFC 9381 section 5.5): ptLen = qLen = 32, cLen = 16,
// cofactor = 8, Hash = SHA-512, point_to_string / string_to_point = RFC 8032
// section 5.1.2 / 5.1.3 (strict: non-canonical encodings are INVALID),
// int_to_string = little endian, encode_to_curve_salt = PK_string.
package vrf

import (
	"bytes"
	"crypto/sha512"
	"math/big"

	"verifharness/ref/ed"
)

const (
	suite    = 0x03
	ptLen    = 32
	cLen     = 16
	qLen     = 32
	ProofLen = ptLen + cLen + qLen // 80
)

func hash(parts ...[]byte) (out [64]byte) {
	h := sha512.New()
	for _, p := range parts {
		h.Write(p)
	}
	copy(out[:], h.Sum(nil))
	return out
}

// PublicKey is Y = x*B for the RFC 8032 secret scalar x of seed (section 5.5).
func PublicKey(seed []byte) [32]byte { return ed.PublicFromSeed(seed) }

// EncodeToCurveTAI is ECVRF_encode_to_curve_try_and_increment (section 5.4.1.1)
// with encode_to_curve_salt = pk:
//
//	ctr = 0; H = "INVALID"
//	while H is "INVALID" or H is the identity element:
//	    hash_string = Hash(suite || 0x01 || salt || alpha || ctr || 0x00)
//	    H = interpret_hash_value_as_a_point(hash_string)   (= string_to_point(hash_string[0..31]))
//	    if H is not "INVALID" and cofactor > 1, set H = cofactor * H
//	    ctr = ctr + 1
//
// It returns H and the ctr value of the successful attempt (0 = first try).
// ctr is a single octet; running out of counters (probability ~2^-256) panics.
func EncodeToCurveTAI(pk []byte, alpha []byte) (h ed.Point, ctr int) {
	for ctr = 0; ctr <= 255; ctr++ {
		hs := hash([]byte{suite, 0x01}, pk, alpha, []byte{byte(ctr), 0x00})
		if pt, ok := ed.DecodeCanonical(hs[:ptLen]); ok {
			if pt = pt.MulByCofactor(); !pt.IsIdentity() {
				return pt, ctr
			}
		}
	}
	panic("vrf: encode_to_curve exhausted all 256 counters")
}

// challenge is ECVRF_challenge_generation (section 5.4.3):
// c = string_to_int(Hash(suite || 0x02 || P1..P5 || 0x00)[0..cLen-1]).
func challenge(p1, p2, p3, p4, p5 ed.Point) *big.Int {
	in := []byte{suite, 0x02}
	for _, p := range []ed.Point{p1, p2, p3, p4, p5} {
		e := p.Encode()
		in = append(in, e[:]...)
	}
	cs := hash(in, []byte{0x00})
	return ed.ScalarFromBytesLE(cs[:cLen])
}

// gammaToHash is ECVRF_proof_to_hash step 7 (section 5.2):
// beta = Hash(suite || 0x03 || point_to_string(cofactor*Gamma) || 0x00).
func gammaToHash(gamma ed.Point) [64]byte {
	g := gamma.MulByCofactor().Encode()
	return hash([]byte{suite, 0x03}, g[:], []byte{0x00})
}

// Prove is ECVRF_prove (section 5.1). It returns pi_string and the
// try-and-increment counter at which encode_to_curve succeeded.
func Prove(seed []byte, alpha []byte) (pi [80]byte, ctr int) { return ProveWithSalt(seed, nil, alpha) }

// ProveWithSalt is Prove with another encode_to_curve salt than the public key (nil = the public key): what a key
// holder would compute for a verifier that (wrongly) hashes a longer or otherwise different public-key string.
func ProveWithSalt(seed, salt, alpha []byte) (pi [80]byte, ctr int) {
	x, prefix := ed.ExpandSeed(seed) // x = secret scalar, prefix = hashed_sk_string[32..63]
	B := ed.Base()
	Y := B.ScalarMult(x)
	pk := Y.Encode()
	if salt == nil {
		salt = pk[:]
	}
	H, ctr := EncodeToCurveTAI(salt, alpha)
	hString := H.Encode()
	gamma := H.ScalarMult(x)
	// nonce generation, section 5.4.2.2: k = SHA-512(hashed_sk_string[32..63] || h_string) mod q
	ks := hash(prefix[:], hString[:])
	k := ed.ReduceL(ed.ScalarFromBytesLE(ks[:]))
	c := challenge(Y, H, gamma, B.ScalarMult(k), H.ScalarMult(k))
	if len(salt) != 32 || !bytes.Equal(salt, pk[:]) {
		// the misled verifier also puts the string it was given into the challenge
		in := append([]byte{suite, 0x02}, salt...)
		for _, p := range []ed.Point{H, gamma, B.ScalarMult(k), H.ScalarMult(k)} {
			e := p.Encode()
			in = append(in, e[:]...)
		}
		cs := hash(in, []byte{0x00})
		c = ed.ScalarFromBytesLE(cs[:cLen])
	}
	s := ed.ReduceL(new(big.Int).Add(k, new(big.Int).Mul(c, x)))
	ge, cb, sb := gamma.Encode(), ed.ScalarToBytesLE32(c), ed.ScalarToBytesLE32(s)
	copy(pi[:ptLen], ge[:])
	copy(pi[ptLen:ptLen+cLen], cb[:cLen])
	copy(pi[ptLen+cLen:], sb[:])
	return pi, ctr
}

// DecodeProof is ECVRF_decode_proof (section 5.4.4) preceded by a length
// check: ok=false when len != 80, gamma_string is not the canonical encoding
// of a curve point, or s >= q. (c is 16 bytes and can take any value.) It
// succeeds exactly for strings that re-encode to themselves.
func DecodeProof(pi []byte) (gamma ed.Point, c, s *big.Int, ok bool) {
	if len(pi) != ProofLen {
		return ed.Point{}, nil, nil, false
	}
	gamma, ok = ed.DecodeCanonical(pi[:ptLen])
	if !ok {
		return ed.Point{}, nil, nil, false
	}
	c = ed.ScalarFromBytesLE(pi[ptLen : ptLen+cLen])
	s = ed.ScalarFromBytesLE(pi[ptLen+cLen:])
	if s.Cmp(ed.L) >= 0 {
		return ed.Point{}, nil, nil, false
	}
	return gamma, c, s, true
}

// ProofToHash is ECVRF_proof_to_hash (section 5.2); ok=false iff pi does not decode.
func ProofToHash(pi []byte) (beta [64]byte, ok bool) {
	gamma, _, _, ok := DecodeProof(pi)
	if !ok {
		return beta, false
	}
	return gammaToHash(gamma), true
}

// Verify is ECVRF_verify (section 5.3) with validate_key = TRUE: pk must be the
// canonical encoding of a curve point Y with cofactor*Y != identity (section
// 5.4.5), pi must decode, and c must equal
// challenge(Y, H, Gamma, s*B - c*Y, s*H - c*Gamma).
func Verify(pk []byte, alpha []byte, pi []byte) (beta [64]byte, ok bool) {
	if len(pk) != ptLen {
		return beta, false
	}
	Y, ok := ed.DecodeCanonical(pk)
	if !ok || Y.MulByCofactor().IsIdentity() {
		return beta, false
	}
	gamma, c, s, ok := DecodeProof(pi)
	if !ok {
		return beta, false
	}
	H, _ := EncodeToCurveTAI(pk, alpha)
	U := ed.Base().ScalarMult(s).Sub(Y.ScalarMult(c))
	V := H.ScalarMult(s).Sub(gamma.ScalarMult(c))
	if challenge(Y, H, gamma, U, V).Cmp(c) != 0 {
		return beta, false
	}
	return gammaToHash(gamma), true
}
