package vrf

import (
	"bytes"
	"encoding/hex"
	"math/big"
	"math/rand"
	"testing"

	"verifharness/ref/ed"
)

func unhex(s string) []byte {
	b, err := hex.DecodeString(s)
	if err != nil {
		panic(err)
	}
	return b
}

// RFC 9381 Appendix B.3, Examples 16-18 (ECVRF-EDWARDS25519-SHA512-TAI),
// including the intermediate values printed there (ctr, H, k, U, V).
var rfcVectors = []struct {
	sk, pk, alpha string
	ctr           int
	h, k, u, v    string
	pi, beta      string
}{
	{
		sk: "9d61b19deffd5a60ba844af492ec2cc44449c5697b326919703bac031cae7f60", pk: "d75a980182b10ab7d54bfed3c964073a0ee172f3daa62325af021a68f707511a",
		alpha: "", ctr: 0,
		h:    "91bbed02a99461df1ad4c6564a5f5d829d0b90cfc7903e7a5797bd658abf3318",
		k:    "8a49edbd1492a8ee09766befe50a7d563051bf3406cbffc20a88def030730f0f",
		u:    "aef27c725be964c6a9bf4c45ca8e35df258c1878b838f37d9975523f09034071",
		v:    "5016572f71466c646c119443455d6cb9b952f07d060ec8286d678615d55f954f",
		pi:   "8657106690b5526245a92b003bb079ccd1a92130477671f6fc01ad16f26f723f26f8a57ccaed74ee1b190bed1f479d9727d2d0f9b005a6e456a35d4fb0daab1268a1b0db10836d9826a528ca76567805",
		beta: "90cf1df3b703cce59e2a35b925d411164068269d7b2d29f3301c03dd757876ff66b71dda49d2de59d03450451af026798e8f81cd2e333de5cdf4f3e140fdd8ae",
	},
	{
		sk: "4ccd089b28ff96da9db6c346ec114e0f5b8a319f35aba624da8cf6ed4fb8a6fb", pk: "3d4017c3e843895a92b70aa74d1b7ebc9c982ccf2ec4968cc0cd55f12af4660c",
		alpha: "72", ctr: 1,
		h:    "5b659fc3d4e9263fd9a4ed1d022d75eaacc20df5e09f9ea937502396598dc551",
		k:    "d8c3a66921444cb3427d5d989f9b315aa8ca3375e9ec4d52207711a1fdb44107",
		u:    "1dcb0a4821a2c48bf53548228b7f170962988f6d12f5439f31987ef41f034ab3",
		v:    "fd03c0bf498c752161bae4719105a074630a2aa5f200ff7b3995f7bfb1513423",
		pi:   "f3141cd382dc42909d19ec5110469e4feae18300e94f304590abdced48aed5933bf0864a62558b3ed7f2fea45c92a465301b3bbf5e3e54ddf2d935be3b67926da3ef39226bbc355bdc9850112c8f4b02",
		beta: "eb4440665d3891d668e7e0fcaf587f1b4bd7fbfe99d0eb2211ccec90496310eb5e33821bc613efb94db5e5b54c70a848a0bef4553a41befc57663b56373a5031",
	},
	{
		sk: "c5aa8df43f9f837bedb7442f31dcb7b166d38535076f094b85ce3a2e0b4458f7", pk: "fc51cd8e6218a1a38da47ed00230f0580816ed13ba3303ac5deb911548908025",
		alpha: "af82", ctr: 0,
		h:    "bf4339376f5542811de615e3313d2b36f6f53c0acfebb482159711201192576a",
		k:    "5ffdbc72135d936014e8ab708585fda379405542b07e3bd2c0bd48437fbac60a",
		u:    "2bae73e15a64042fcebf062abe7e432b2eca6744f3e8265bc38e009cd577ecd5",
		v:    "88cba1cb0d4f9b649d9a86026b69de076724a93a65c349c988954f0961c5d506",
		pi:   "9bc0f79119cc5604bf02d23b4caede71393cedfbb191434dd016d30177ccbf8096bb474e53895c362d8628ee9f9ea3c0e52c7a5c691b6c18c9979866568add7a2d41b00b05081ed0f58ee5e31b3a970e",
		beta: "645427e5d00c62a23fb703732fa5d892940935942101e456ecca7bb217c61c452118fec1219202a0edcf038bb6373241578be7217ba85a2687f7a0310b2df19f",
	},
}

func TestRFC9381Vectors(t *testing.T) {
	for i, v := range rfcVectors {
		sk, pk, alpha := unhex(v.sk), unhex(v.pk), unhex(v.alpha)
		if got := PublicKey(sk); !bytes.Equal(got[:], pk) {
			t.Fatalf("example %d: pk %x", 16+i, got)
		}
		H, ctr := EncodeToCurveTAI(pk, alpha)
		he := H.Encode()
		if ctr != v.ctr || !bytes.Equal(he[:], unhex(v.h)) {
			t.Errorf("example %d: encode_to_curve ctr=%d H=%x, want ctr=%d H=%s", 16+i, ctr, he, v.ctr, v.h)
		}
		pi, pctr := Prove(sk, alpha)
		if !bytes.Equal(pi[:], unhex(v.pi)) || pctr != ctr {
			t.Fatalf("example %d: pi %x", 16+i, pi)
		}
		beta, ok := ProofToHash(pi[:])
		if !ok || !bytes.Equal(beta[:], unhex(v.beta)) {
			t.Fatalf("example %d: beta %x", 16+i, beta)
		}
		vbeta, ok := Verify(pk, alpha, unhex(v.pi))
		if !ok || vbeta != beta {
			t.Fatalf("example %d: Verify", 16+i)
		}
		// intermediates: nonce k (reduced mod q, little endian), U = k*B, V = k*H
		_, prefix := ed.ExpandSeed(sk)
		ks := hash(prefix[:], he[:])
		k := ed.ReduceL(ed.ScalarFromBytesLE(ks[:]))
		kb := ed.ScalarToBytesLE32(k)
		U, V := ed.Base().ScalarMult(k).Encode(), H.ScalarMult(k).Encode()
		if !bytes.Equal(kb[:], unhex(v.k)) || !bytes.Equal(U[:], unhex(v.u)) || !bytes.Equal(V[:], unhex(v.v)) {
			t.Errorf("example %d: k=%x U=%x V=%x", 16+i, kb, U, V)
		}
	}
}

func TestProveVerify(t *testing.T) {
	rng := rand.New(rand.NewSource(11))
	ctrSeen := map[int]int{}
	for i := 0; i < 300; i++ {
		seed := make([]byte, 32)
		rng.Read(seed)
		alpha := make([]byte, rng.Intn(40))
		rng.Read(alpha)
		pk := PublicKey(seed)
		pi, ctr := Prove(seed, alpha)
		ctrSeen[ctr]++
		beta, ok := Verify(pk[:], alpha, pi[:])
		hbeta, hok := ProofToHash(pi[:])
		if !ok || !hok || beta != hbeta {
			t.Fatalf("seed %x alpha %x: Verify(Prove) failed", seed, alpha)
		}
		if pi2, _ := Prove(seed, alpha); pi2 != pi {
			t.Fatal("Prove is not deterministic")
		}
		// proof round trip: decode then re-encode
		g, c, s, ok := DecodeProof(pi[:])
		ge, cb, sb := g.Encode(), ed.ScalarToBytesLE32(c), ed.ScalarToBytesLE32(s)
		if !ok || !bytes.Equal(append(append(ge[:], cb[:16]...), sb[:]...), pi[:]) {
			t.Fatal("decode/encode round trip")
		}
		if i >= 60 {
			continue
		}
		// wrong alpha, wrong key, any single bit flip in pi: rejected
		if _, ok := Verify(pk[:], append([]byte{1}, alpha...), pi[:]); ok {
			t.Fatal("accepted for different alpha")
		}
		other := PublicKey(append([]byte{}, pi[:32]...))
		if _, ok := Verify(other[:], alpha, pi[:]); ok {
			t.Fatal("accepted for different key")
		}
		for j := 0; j < 6; j++ {
			bad := pi
			bad[rng.Intn(80)] ^= 1 << rng.Intn(8)
			if _, ok := Verify(pk[:], alpha, bad[:]); ok {
				t.Fatalf("bit-flipped proof accepted: %x", bad)
			}
		}
	}
	if ctrSeen[0] == 0 || ctrSeen[1] == 0 || ctrSeen[0] == 300 {
		t.Fatalf("try-and-increment counters look wrong: %v", ctrSeen)
	}
	t.Logf("ctr histogram: %v", ctrSeen)
}

func TestStrictDecoding(t *testing.T) {
	seed, alpha := make([]byte, 32), []byte("strict")
	pk := PublicKey(seed)
	pi, _ := Prove(seed, alpha)
	if _, ok := Verify(pk[:], alpha, pi[:]); !ok {
		t.Fatal("baseline")
	}
	// length
	for _, n := range []int{0, 79, 81} {
		buf := make([]byte, n)
		copy(buf, pi[:])
		if _, _, _, ok := DecodeProof(buf); ok {
			t.Fatalf("len %d decoded", n)
		}
		if _, ok := Verify(pk[:], alpha, buf); ok {
			t.Fatalf("len %d verified", n)
		}
		if _, ok := ProofToHash(buf); ok {
			t.Fatalf("len %d hashed", n)
		}
	}
	if _, ok := Verify(pk[:31], alpha, pi[:]); ok {
		t.Fatal("short pk")
	}
	// s + L: same residue, not canonical
	bad := pi
	sl := ed.ScalarToBytesLE32(new(big.Int).Add(ed.ScalarFromBytesLE(pi[48:]), ed.L))
	copy(bad[48:], sl[:])
	if _, _, _, ok := DecodeProof(bad[:]); ok {
		t.Fatal("s >= L decoded")
	}
	lb := ed.ScalarToBytesLE32(ed.L)
	copy(bad[48:], lb[:])
	if _, _, _, ok := DecodeProof(bad[:]); ok {
		t.Fatal("s == L decoded")
	}
	lm1 := ed.ScalarToBytesLE32(new(big.Int).Sub(ed.L, big.NewInt(1)))
	copy(bad[48:], lm1[:])
	if _, _, _, ok := DecodeProof(bad[:]); !ok {
		t.Fatal("s == L-1 must decode")
	}
	// every small-order / non-canonical encoding: as pk always rejected; as
	// Gamma decodes iff canonical.
	for _, e := range ed.SmallOrderEncodings() {
		if _, ok := Verify(e[:], alpha, pi[:]); ok {
			t.Fatalf("small-order pk %x accepted", e)
		}
		bad = pi
		copy(bad[:32], e[:])
		_, canon := ed.DecodeCanonical(e[:])
		if _, _, _, ok := DecodeProof(bad[:]); ok != canon {
			t.Fatalf("Gamma=%x: decode=%v canonical=%v", e, ok, canon)
		}
		if _, ok := Verify(pk[:], alpha, bad[:]); ok {
			t.Fatalf("Gamma=%x verified", e)
		}
	}
	// non-canonical encodings of a non-small-order point as pk: the only such
	// points have y < 19; find one on the curve and use its y+p form.
	found := false
	for y := int64(2); y < 19; y++ {
		var e [32]byte
		e[0] = byte(y)
		p, ok := ed.DecodeCanonical(e[:])
		if !ok || p.IsSmallOrder() {
			continue
		}
		found = true
		encs := ed.AllEncodings(p)
		if len(encs) != 2 {
			t.Fatal("expected 2 encodings")
		}
		if _, ok := Verify(encs[1][:], alpha, pi[:]); ok {
			t.Fatal("non-canonical pk accepted")
		}
		bad = pi
		copy(bad[:32], encs[1][:])
		if _, _, _, ok := DecodeProof(bad[:]); ok {
			t.Fatal("non-canonical Gamma decoded")
		}
		copy(bad[:32], encs[0][:])
		if _, _, _, ok := DecodeProof(bad[:]); !ok {
			t.Fatal("canonical low-y Gamma must decode")
		}
	}
	if !found {
		t.Fatal("no low-y point found")
	}
	// mixed-order key (prime-order key + torsion) is NOT rejected by validate_key;
	// it simply is a different key for which this proof does not verify.
	A, _ := ed.DecodeCanonical(pk[:])
	mixed := A.Add(ed.Torsion()[1]).Encode()
	if _, ok := Verify(mixed[:], alpha, pi[:]); ok {
		t.Fatal("proof verified under torsion-shifted key")
	}
}

func BenchmarkProve(b *testing.B) {
	seed := make([]byte, 32)
	for i := 0; i < b.N; i++ {
		Prove(seed, []byte{byte(i), byte(i >> 8)})
	}
}

func BenchmarkVerify(b *testing.B) {
	seed, alpha := make([]byte, 32), []byte("bench")
	pk := PublicKey(seed)
	pi, _ := Prove(seed, alpha)
	b.ResetTimer()
	for i := 0; i < b.N; i++ {
		if _, ok := Verify(pk[:], alpha, pi[:]); !ok {
			b.Fatal()
		}
	}
}

func BenchmarkEncodeToCurve(b *testing.B) {
	pk := PublicKey(make([]byte, 32))
	for i := 0; i < b.N; i++ {
		EncodeToCurveTAI(pk[:], []byte{byte(i), byte(i >> 8)})
	}
}
