package bip39

import (
	"encoding/hex"
	"testing"
)

func TestVectors(t *testing.T) {
	// BIP-39 (trezor) vectors: 0000..00 (16 bytes) -> "abandon x11 about" = indices 0 x11, 3
	idx := Indices(make([]byte, 16))
	for i := 0; i < 11; i++ {
		if idx[i] != 0 {
			t.Fatal(idx)
		}
	}
	if idx[11] != 3 {
		t.Fatal(idx)
	}
	e, c, k := FromIndices(idx)
	if !c || !k || hex.EncodeToString(e) != "00000000000000000000000000000000" {
		t.Fatal(e, c, k)
	}
	words := []string{"abandon", "abandon", "abandon", "abandon", "abandon", "abandon", "abandon", "abandon", "abandon", "abandon", "abandon", "about"}
	s, err := Seed(words, "TREZOR")
	if err != nil || hex.EncodeToString(s) != "c55257c360c07c72029aebc1b53c05ed0362ada38ead3e3e9efa3708e53495531f09a6987599d18264c1e1c92f2cf141630c7a3c4ab7c81b2f001698e7463b04" {
		t.Fatalf("%x %v", s, err)
	}
	// ffff..ff 16 bytes -> "zoo x11 wrong": zoo=2047, wrong=2037
	idx = Indices([]byte{255, 255, 255, 255, 255, 255, 255, 255, 255, 255, 255, 255, 255, 255, 255, 255})
	if idx[0] != 2047 || idx[11] != 2037 {
		t.Fatal(idx)
	}
	n, _ := NFKD("e\u0302\u0323\u00e9\u212b")
	if n != "e\u0323\u0302e\u0301A\u030a" {
		t.Fatalf("%+q", n)
	}
	if ComposeKana("\u304b\u3099") != "\u304c" {
		t.Fatal("compose")
	}
}
