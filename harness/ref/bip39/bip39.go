// Package bip39 is a bit-array BIP-39 encoder/decoder (no big integers), an own PBKDF2-HMAC-SHA512
// loop and a table-driven NFKD, sharing no code with the repository or with x/text.
package bip39

import (
	"crypto/hmac"
	"crypto/sha256"
	"crypto/sha512"
	"fmt"
	"sort"
	"strings"
)

// ValidEntropyLen: 16..64 bytes in steps of 4.
func ValidEntropyLen(n int) bool { return n >= 16 && n <= 64 && n%4 == 0 }

// ValidWordCount: 12..48 in steps of 3.
func ValidWordCount(n int) bool { return n >= 12 && n <= 48 && n%3 == 0 }

// Indices returns the word indices of the BIP-39 sentence for entropy: entropy followed by the first ENT/32 bits of
// its SHA-256, cut into 11-bit groups.
func Indices(entropy []byte) []int {
	ent := len(entropy) * 8
	cs := ent / 32
	h := sha256.Sum256(entropy)
	bits := make([]byte, 0, ent+cs)
	for _, b := range entropy {
		for k := 7; k >= 0; k-- {
			bits = append(bits, (b>>uint(k))&1)
		}
	}
	for i := 0; i < cs; i++ {
		bits = append(bits, (h[i/8]>>uint(7-i%8))&1)
	}
	out := make([]int, len(bits)/11)
	for i := range out {
		v := 0
		for k := 0; k < 11; k++ {
			v = v<<1 | int(bits[i*11+k])
		}
		out[i] = v
	}
	return out
}

// FromIndices inverts Indices: ok=false when the count is not allowed; csOK=false when the embedded checksum is wrong.
func FromIndices(idx []int) (entropy []byte, countOK, csOK bool) {
	if !ValidWordCount(len(idx)) {
		return nil, false, false
	}
	bits := make([]byte, 0, len(idx)*11)
	for _, v := range idx {
		for k := 10; k >= 0; k-- {
			bits = append(bits, byte(v>>uint(k))&1)
		}
	}
	ent := len(idx) * 11 * 32 / 33
	entropy = make([]byte, ent/8)
	for i := 0; i < ent; i++ {
		entropy[i/8] |= bits[i] << uint(7-i%8)
	}
	h := sha256.Sum256(entropy)
	for i := 0; i < ent/32; i++ {
		if bits[ent+i] != (h[i/8]>>uint(7-i%8))&1 {
			return entropy, true, false
		}
	}
	return entropy, true, true
}

// PBKDF2SHA512 with dkLen = 64 (one block).
func PBKDF2SHA512(password, salt []byte, iter int) []byte {
	mac := hmac.New(sha512.New, password)
	mac.Write(salt)
	mac.Write([]byte{0, 0, 0, 1})
	u := mac.Sum(nil)
	t := append([]byte{}, u...)
	for i := 1; i < iter; i++ {
		mac.Reset()
		mac.Write(u)
		u = mac.Sum(nil)
		for k := range t {
			t[k] ^= u[k]
		}
	}
	return t
}

// Seed is the BIP-39 seed for words (already normalised) and a passphrase (normalised here).
func Seed(words []string, passphrase string) ([]byte, error) {
	p, err := NFKD(passphrase)
	if err != nil {
		return nil, err
	}
	return PBKDF2SHA512([]byte(strings.Join(words, " ")), []byte("mnemonic"+p), 2048), nil
}

// NFKD normalises s with the generated table; it refuses code points outside the table's domain
// (ASCII is always allowed).
func NFKD(s string) (string, error) {
	var rs []rune
	for _, r := range s {
		if r == 0xFFFD {
			return "", fmt.Errorf("invalid UTF-8 or U+FFFD in %q", s)
		}
		if r >= 0x80 && !knownRunes[r] {
			return "", fmt.Errorf("code point U+%04X outside the NFKD table", r)
		}
		if d, ok := nfkdTable[r]; ok {
			rs = append(rs, []rune(d)...)
		} else {
			rs = append(rs, r)
		}
	}
	// canonical ordering: stable sort of every maximal run of non-starters by combining class
	for i := 0; i < len(rs); {
		if cccTable[rs[i]] == 0 {
			i++
			continue
		}
		j := i
		for j < len(rs) && cccTable[rs[j]] != 0 {
			j++
		}
		run := rs[i:j]
		sort.SliceStable(run, func(a, b int) bool { return cccTable[run[a]] < cccTable[run[b]] })
		i = j
	}
	return string(rs), nil
}

// ComposeKana returns the NFC spelling of an NFKD kana word (base + U+3099/U+309A -> precomposed), using the reverse table.
func ComposeKana(s string) string {
	rev := map[string]rune{}
	for cp, d := range nfkdTable {
		if cp >= 0x3040 && cp < 0x3100 && len([]rune(d)) == 2 {
			rev[d] = cp
		}
	}
	rs := []rune(s)
	var out []rune
	for i := 0; i < len(rs); i++ {
		if i+1 < len(rs) {
			if c, ok := rev[string(rs[i:i+2])]; ok {
				out = append(out, c)
				i++
				continue
			}
		}
		out = append(out, rs[i])
	}
	return string(out)
}

// IsWhiteSpace is the Unicode White_Space property.
func IsWhiteSpace(r rune) bool {
	switch {
	case r >= 0x09 && r <= 0x0D, r == 0x20, r == 0x85, r == 0xA0, r == 0x1680, r >= 0x2000 && r <= 0x200A,
		r == 0x2028, r == 0x2029, r == 0x202F, r == 0x205F, r == 0x3000:
		return true
	}
	return false
}

// Parse is the parser of property C09: NFKD, then split on White_Space.
func Parse(s string) ([]string, error) {
	n, err := NFKD(s)
	if err != nil {
		return nil, err
	}
	var out []string
	cur := []rune{}
	for _, r := range n {
		if IsWhiteSpace(r) {
			if len(cur) > 0 {
				out = append(out, string(cur))
				cur = cur[:0]
			}
			continue
		}
		cur = append(cur, r)
	}
	if len(cur) > 0 {
		out = append(out, string(cur))
	}
	return out, nil
}
