package slip10

import (
	"encoding/hex"
	"testing"
)

func hx(s string) []byte { b, _ := hex.DecodeString(s); return b }

// SLIP-0010 test vector 1 (seed 000102030405060708090a0b0c0d0e0f), chains m and m/0H, all three curves.
func TestVector1(t *testing.T) {
	seed := hx("000102030405060708090a0b0c0d0e0f")
	type exp struct{ fpr, chain, priv, pub string }
	cases := []struct {
		p   Plug
		m   exp
		m0h exp
	}{
		{Secp256k1(),
			exp{"00000000", "873dff81c02f525623fd1fe5167eac3a55a049de3d314bb42ee227ffed37d508", "e8f32e723decf4051aefac8e2c93c9c5b214313817cdb01a1494b917c8436b35", "0339a36013301597daef41fbe593a02cc513d0b55527ec2df1050e2e8ff49c85c2"},
			exp{"3442193e", "47fdacbd0f1097043b78c63c20c34ef4ed9a111d980047ad16282c7ae6236141", "edb2e14f9ee77d26dd93b4ecede8d16ed408ce149b6cd80b0715a2d911a0afea", "035a784662a4a20a65bf6aab9ae98a6c068a81c52e4b032c0fb5400c706cfccc56"}},
		{Nist256p1(),
			exp{"00000000", "beeb672fe4621673f722f38529c07392fecaa61015c80c34f29ce8b41b3cb6ea", "612091aaa12e22dd2abef664f8a01a82cae99ad7441b7ef8110424915c268bc2", "0266874dc6ade47b3ecd096745ca09bcd29638dd52c2c12117b11ed3e458cfa9e8"},
			exp{"be6105b5", "3460cea53e6a6bb5fb391eeef3237ffd8724bf0a40e94943c98b83825342ee11", "6939694369114c67917a182c59ddb8cafc3004e63ca5d3b84403ba8613debc0c", "0384610f5ecffe8fda089363a41f56a5c7ffc1d81b59a612d0d649b2d22355590c"}},
		{Ed{},
			exp{"00000000", "90046a93de5380a72b5e45010748567d5ea02bbf6522f979e05c0d8d8ca9fffb", "2b4be7f19ee27bbf30c667b642d5f4aa69fd169872f8fc3059c08ebae2eb19e7", "00a4b2856bfec510abab89753fac1ac0e1112364e7d250545963f135f2a33188ed"},
			exp{"ddebc675", "8b59aa11380b624e81507a27fedda59fea6d0b779a778918a2fd3590e16e9c69", "68e0fe46dfb67e368c75379acec591dad19df3cde26e63b93a8e704f1dade7a3", "008c8a13df77a28f3445213a0f432fde644acaa215fc72dcdf300d5efaa85d350c"}},
	}
	for _, c := range cases {
		m := Master(c.p, seed)
		chk := func(name string, n Node, e exp) {
			if hex.EncodeToString(n.Fingerprint()) != e.fpr || hex.EncodeToString(n.Chain) != e.chain || hex.EncodeToString(n.Priv) != e.priv || hex.EncodeToString(n.Pub) != e.pub {
				t.Fatalf("%s: got fpr=%x chain=%x priv=%x pub=%x", name, n.Fingerprint(), n.Chain, n.Priv, n.Pub)
			}
		}
		chk("m", m, c.m)
		ch, err := m.Child(c.p, 1<<31)
		if err != nil {
			t.Fatal(err)
		}
		chk("m/0H", ch, c.m0h)
	}
	// public derivation commutes
	s := Secp256k1()
	m := Master(s, seed)
	a, _ := m.Child(s, 1)
	b, _ := m.Public().Child(s, 1)
	if hex.EncodeToString(a.Pub) != hex.EncodeToString(b.Pub) || hex.EncodeToString(a.Chain) != hex.EncodeToString(b.Chain) {
		t.Fatal("CKDpub != N(CKDpriv)")
	}
}
