// Package slip10 is SLIP-0010 (BIP-32 for secp256k1) written from the specification text,
// parameterised by a curve plug-in. It shares no code with the repository.
package slip10

import (
	"crypto/ed25519"
	"crypto/hmac"
	"crypto/sha256"
	"crypto/sha512"
	"encoding/binary"
	"errors"
	"math/big"

	"golang.org/x/crypto/ripemd160" //nolint

	"verifharness/ref/wei"
)

// Plug is what the specification needs to know about a curve.
type Plug interface {
	HmacKey() []byte
	// MasterValid: is parse256(I_L) a valid master secret key.
	MasterValid(il []byte) bool
	// ChildPriv: child secret key from I_L and the parent key, ok=false if the specification says "proceed with the next value".
	ChildPriv(parent, il []byte) ([]byte, bool)
	// Pub: 33-byte serialization of the public key of a secret key.
	Pub(priv []byte) []byte
	// ChildPub: child public key from I_L and the parent public key (nil,false => retry). Only called when !HardenedOnly().
	ChildPub(parentPub, il []byte) ([]byte, bool)
	HardenedOnly() bool
}

// Node is an extended key.
type Node struct {
	Priv      []byte // nil for an extended public key
	Pub       []byte
	Chain     []byte
	ParentPub []byte // nil for the master
	Retries   int    // how often the specification's retry rule fired to produce this node
}

var (
	ErrHardenedFromPublic = errors.New("hardened child of a public key is undefined")
	ErrNormalUndefined    = errors.New("non-hardened derivation is undefined for this curve")
)

func mac(key []byte, parts ...[]byte) []byte {
	h := hmac.New(sha512.New, key)
	for _, p := range parts {
		h.Write(p)
	}
	return h.Sum(nil)
}

func ser32(i uint32) []byte { b := make([]byte, 4); binary.BigEndian.PutUint32(b, i); return b }

// Master key generation.
func Master(p Plug, seed []byte) Node {
	s := seed
	retries := 0
	for {
		i := mac(p.HmacKey(), s)
		if p.MasterValid(i[:32]) {
			priv := append([]byte{}, i[:32]...)
			return Node{Priv: priv, Pub: p.Pub(priv), Chain: append([]byte{}, i[32:]...), Retries: retries}
		}
		s = i
		retries++
	}
}

// Child derives CKDpriv (for a private node) or CKDpub (for a public node).
func (n Node) Child(p Plug, idx uint32) (Node, error) {
	hardened := idx >= 1<<31
	if n.Priv == nil && hardened {
		return Node{}, ErrHardenedFromPublic
	}
	if !hardened && p.HardenedOnly() {
		return Node{}, ErrNormalUndefined
	}
	var i []byte
	if hardened {
		i = mac(n.Chain, []byte{0}, n.Priv, ser32(idx))
	} else {
		i = mac(n.Chain, n.Pub, ser32(idx))
	}
	retries := 0
	for {
		il, ir := i[:32], i[32:]
		if n.Priv != nil {
			if k, ok := p.ChildPriv(n.Priv, il); ok {
				return Node{Priv: k, Pub: p.Pub(k), Chain: append([]byte{}, ir...), ParentPub: n.Pub, Retries: retries}, nil
			}
		} else {
			if k, ok := p.ChildPub(n.Pub, il); ok {
				return Node{Pub: k, Chain: append([]byte{}, ir...), ParentPub: n.Pub, Retries: retries}, nil
			}
		}
		i = mac(n.Chain, []byte{1}, ir, ser32(idx))
		retries++
	}
}

// Public is the neutered node.
func (n Node) Public() Node {
	return Node{Pub: n.Pub, Chain: n.Chain, ParentPub: n.ParentPub}
}

// Fingerprint: first 4 bytes of RIPEMD160(SHA256(parent public key)), zero for the master.
func (n Node) Fingerprint() []byte {
	if n.ParentPub == nil {
		return make([]byte, 4)
	}
	a := sha256.Sum256(n.ParentPub)
	r := ripemd160.New()
	r.Write(a[:])
	return r.Sum(nil)[:4]
}

// ---- the three curves of the specification ----

// Weier is secp256k1 / NIST P-256.
type Weier struct {
	C   *wei.Curve
	Key string
}

func (w Weier) HmacKey() []byte { return []byte(w.Key) }
func (w Weier) MasterValid(il []byte) bool {
	k := new(big.Int).SetBytes(il)
	return k.Sign() != 0 && k.Cmp(w.C.N) < 0
}
func (w Weier) ChildPriv(parent, il []byte) ([]byte, bool) {
	a := new(big.Int).SetBytes(il)
	if a.Cmp(w.C.N) >= 0 {
		return nil, false
	}
	a.Add(a, new(big.Int).SetBytes(parent))
	a.Mod(a, w.C.N)
	if a.Sign() == 0 {
		return nil, false
	}
	return a.FillBytes(make([]byte, 32)), true
}
func (w Weier) Pub(priv []byte) []byte {
	return w.C.Compress(w.C.Mul(w.C.G(), new(big.Int).SetBytes(priv)))
}

// Decompress parses a 33-byte compressed point.
func (w Weier) Decompress(b []byte) wei.Pt {
	pt, ok := w.C.LiftX(new(big.Int).SetBytes(b[1:]))
	if !ok {
		panic("not a point")
	}
	if pt.Y.Bit(0) != uint(b[0]&1) {
		pt = w.C.Neg(pt)
	}
	return pt
}
func (w Weier) ChildPub(parentPub, il []byte) ([]byte, bool) {
	a := new(big.Int).SetBytes(il)
	if a.Cmp(w.C.N) >= 0 {
		return nil, false
	}
	k := w.C.Add(w.C.Mul(w.C.G(), a), w.Decompress(parentPub))
	if k.IsO() {
		return nil, false
	}
	return w.C.Compress(k), true
}
func (w Weier) HardenedOnly() bool { return false }

// Secp256k1 plug-in ("Bitcoin seed").
func Secp256k1() Weier { return Weier{wei.Secp256k1(), "Bitcoin seed"} }

// Nist256p1 plug-in ("Nist256p1 seed").
func Nist256p1() Weier { return Weier{wei.P256(), "Nist256p1 seed"} }

// Ed is ed25519 ("ed25519 seed"): every 32-byte string is a key, public key 0x00 || A.
type Ed struct{}

func (Ed) HmacKey() []byte                       { return []byte("ed25519 seed") }
func (Ed) MasterValid([]byte) bool               { return true }
func (Ed) ChildPriv(_, il []byte) ([]byte, bool) { return append([]byte{}, il...), true }
func (Ed) ChildPub(_, _ []byte) ([]byte, bool)   { panic("undefined") }
func (Ed) HardenedOnly() bool                    { return true }
func (Ed) Pub(priv []byte) []byte {
	pk := ed25519.NewKeyFromSeed(priv).Public().(ed25519.PublicKey)
	return append([]byte{0}, pk...)
}
