// Package vsched is a cooperative, controlled scheduler for the goroutines of the code under test.
//
// It is mounted (through a go build overlay) as a virtual package inside the repository module, so that
// the rewritten pow/worker.go can import it. In pass-through mode (Controlled() == false) every shim
// operation is the real one and Go starts a real goroutine (with a recover wrapper that records panics).
// In controlled mode exactly one thread runs at a time; before every synchronisation operation a thread
// announces the operation (Point) and the controller decides who runs next. An operation that is not
// enabled (receive on an empty channel, Wait on a non-zero WaitGroup, ...) blocks its thread.
package vsched

import (
	"fmt"
	"runtime/debug"
	"sync"
	"time"
)

// ---------------------------------------------------------------- pass-through bookkeeping

var (
	ptMu     sync.Mutex
	ptPanics []string
	ptLive   sync.WaitGroup
)

// PassThroughPanics returns and clears the panics recovered from goroutines started by Go in pass-through mode.
func PassThroughPanics() []string {
	ptMu.Lock()
	defer ptMu.Unlock()
	p := ptPanics
	ptPanics = nil
	return p
}

// PassThroughWait waits for every goroutine started by Go in pass-through mode.
func PassThroughWait() { ptLive.Wait() }

// ---------------------------------------------------------------- controlled mode

// Op describes the operation a thread is about to perform.
type Op struct {
	Kind    string      // "atomic.Load", "chan.Send", ...
	Obj     string      // name of the shim object
	Enabled func() bool // nil = always enabled
	Alts    func() int  // number of alternatives once enabled (select with several ready cases); nil = 1
	Write   bool        // the operation writes shared state (used to wake pollers)
}

type thread struct {
	id      int
	name    string
	wake    chan int // value = chosen alternative
	pending *Op
	done    bool
	killed  bool
	panic   string
	polls   map[string]int // fruitless polls per object since the last foreign write
	waitObj string         // blocked until another thread writes this object
	obs     uint64         // running hash of everything this thread's operations returned
	nobs    int
}

// PointRec is one scheduling decision.
type PointRec struct {
	Enabled []int  // thread ids in canonical order (running thread first if enabled, then ascending)
	Chosen  int    // index into Enabled
	Alts    int    // alternatives of the chosen op
	Alt     int    // chosen alternative
	Thread  int    // thread id that ran
	Kind    string // op kind
	Obj     string
	Running bool      // the previously running thread was still enabled (choosing another one is a preemption)
	Key     [2]uint64 // hash of the global state before this decision (Config.Keys)
}

// Exec is the record of one controlled execution.
type Exec struct {
	Points    []PointRec
	Choices   []int // flattened choice list: for every point the thread choice, then (if Alts > 1) the alternative
	Deadlock  bool  // no enabled thread while some thread is unfinished
	Horizon   bool
	Panics    []string
	Blocked   []string // description of threads left blocked at the end
	Events    []string // observations logged by shims/harness (deterministic replay check)
	Divergent string   // non-empty: the replay prefix could not be followed
	Stuck     string   // non-empty: a thread never came back to the scheduler (process must exit)
	ThreadsN  int
}

type controller struct {
	threads []*thread
	ctl     chan int // thread id that arrived at a point or finished
	cur     int
	exec    *Exec
	prefix  []int
	pos     int
	horizon int
	maxPoll int
	keys    bool
	extra   func() string
}

var (
	ctrl       *controller
	controlled bool
)

// Controlled reports whether a controlled execution is in progress.
func Controlled() bool { return controlled }

type killSentinel struct{}

// Cur returns the id of the running thread (controlled mode only).
func Cur() int { return ctrl.cur }

// Log records an observation in the execution record.
func Log(format string, a ...interface{}) {
	if controlled && ctrl != nil {
		ctrl.exec.Events = append(ctrl.exec.Events, fmt.Sprintf("t%d:", ctrl.cur)+fmt.Sprintf(format, a...))
	}
}

// Killed reports whether the calling thread is being torn down (shim operations become no-ops).
func Killed() bool {
	if !controlled || ctrl == nil {
		return false
	}
	return ctrl.threads[ctrl.cur].killed
}

// Point announces op and blocks until the controller schedules this thread; returns the chosen alternative.
func Point(op *Op) int {
	c := ctrl
	t := c.threads[c.cur]
	if t.killed {
		return 0
	}
	t.pending = op
	c.ctl <- t.id
	alt := <-t.wake
	if t.killed {
		panic(killSentinel{})
	}
	return alt
}

// NotePoll is called by polling reads (atomic loads): after maxPoll fruitless polls of obj with no write by
// another thread in between, the next poll of that thread blocks until somebody else writes obj.
func NotePoll(obj string) {
	t := ctrl.threads[ctrl.cur]
	t.polls[obj]++
}

// PollBlocked reports whether the running thread has used up its polls of obj.
func pollBlocked(t *thread, obj string) bool { return t.polls[obj] >= ctrl.maxPoll }

// PollEnabled returns an Enabled function for a polling read of obj by the running thread.
func PollEnabled(obj string) func() bool {
	t := ctrl.threads[ctrl.cur]
	return func() bool { return !pollBlocked(t, obj) }
}

// NoteWrite is called by writes: it resets the poll counters of all other threads for obj.
func NoteWrite(obj string) {
	for _, t := range ctrl.threads {
		if t.id != ctrl.cur {
			delete(t.polls, obj)
		}
	}
}

// Go starts f as a new thread (controlled) or goroutine (pass-through).
func Go(f func()) {
	if !controlled {
		ptLive.Add(1)
		go func() {
			defer ptLive.Done()
			defer func() {
				if r := recover(); r != nil {
					ptMu.Lock()
					ptPanics = append(ptPanics, fmt.Sprintf("%v\n%s", r, debug.Stack()))
					ptMu.Unlock()
				}
			}()
			f()
		}()
		return
	}
	if Killed() {
		return
	}
	Point(&Op{Kind: "go", Obj: fmt.Sprintf("thread%d", len(ctrl.threads)), Write: false})
	spawn(f, "")
}

func spawn(f func(), name string) *thread {
	c := ctrl
	t := &thread{id: len(c.threads), name: name, wake: make(chan int), polls: map[string]int{}}
	t.pending = &Op{Kind: "start", Obj: fmt.Sprintf("thread%d", t.id)}
	c.threads = append(c.threads, t)
	go func() {
		<-t.wake
		defer func() {
			if r := recover(); r != nil {
				if _, ok := r.(killSentinel); !ok {
					t.panic = fmt.Sprintf("%v", r)
					if !t.killed {
						c.exec.Panics = append(c.exec.Panics, fmt.Sprintf("thread %d (%s): %v", t.id, t.name, r))
					}
				}
			}
			t.done = true
			t.pending = nil
			c.ctl <- t.id
		}()
		if t.killed {
			return
		}
		f()
	}()
	return t
}

// Config of one controlled execution.
type Config struct {
	Prefix  []int         // choices to replay; afterwards choice 0 everywhere
	Horizon int           // max scheduling points (default 2000)
	MaxPoll int           // fruitless polls before a poll blocks (default 3)
	Keys    bool          // compute a global state key at every scheduling decision
	Extra   func() string // harness monitors that belong to the state (Keys)
}

// Run executes threads (thread 0 = the first function, ...) under control and returns the record.
// Only one controlled execution can be in progress per process.
func Run(cfg Config, names []string, fns ...func()) *Exec {
	if controlled {
		panic("vsched: nested Run")
	}
	c := &controller{ctl: make(chan int), exec: &Exec{}, prefix: cfg.Prefix, horizon: cfg.Horizon, maxPoll: cfg.MaxPoll, keys: cfg.Keys, extra: cfg.Extra}
	if c.horizon == 0 {
		c.horizon = 2000
	}
	if c.maxPoll == 0 {
		c.maxPoll = 3
	}
	ctrl, controlled = c, true
	defer func() { controlled, ctrl = false, nil }()
	for i, f := range fns {
		spawn(f, names[i])
	}
	c.cur = -1
	next := func(n int) (int, bool) {
		if c.pos < len(c.prefix) {
			v := c.prefix[c.pos]
			c.pos++
			if v < 0 || v >= n {
				c.exec.Divergent = fmt.Sprintf("choice %d at position %d out of range (%d options)", v, c.pos-1, n)
				return 0, false
			}
			c.exec.Choices = append(c.exec.Choices, v)
			return v, true
		}
		c.exec.Choices = append(c.exec.Choices, 0)
		return 0, true
	}
	for {
		// enabled set in canonical order
		var en []int
		running := false
		if c.cur >= 0 {
			t := c.threads[c.cur]
			if !t.done && t.pending != nil && (t.pending.Enabled == nil || t.pending.Enabled()) {
				en = append(en, t.id)
				running = true
			}
		}
		for _, t := range c.threads {
			if t.id == c.cur || t.done || t.pending == nil {
				continue
			}
			if t.pending.Enabled == nil || t.pending.Enabled() {
				en = append(en, t.id)
			}
		}
		if len(en) == 0 {
			for _, t := range c.threads {
				if !t.done {
					c.exec.Deadlock = true
					c.exec.Blocked = append(c.exec.Blocked, fmt.Sprintf("thread %d (%s) blocked at %s %s", t.id, t.name, t.pending.Kind, t.pending.Obj))
				}
			}
			break
		}
		if len(c.exec.Points) >= c.horizon {
			c.exec.Horizon = true
			break
		}
		var key [2]uint64
		if c.keys {
			key = c.stateKey()
		}
		ci, ok := next(len(en))
		if !ok {
			break
		}
		t := c.threads[en[ci]]
		alts, alt := 1, 0
		if t.pending.Alts != nil {
			alts = t.pending.Alts()
		}
		if alts > 1 {
			if alt, ok = next(alts); !ok {
				break
			}
		}
		c.exec.Points = append(c.exec.Points, PointRec{Enabled: en, Chosen: ci, Alts: alts, Alt: alt, Thread: t.id, Kind: t.pending.Kind, Obj: t.pending.Obj, Running: running, Key: key})
		c.cur = t.id
		t.pending = nil
		t.wake <- alt
		select {
		case <-c.ctl: // the thread arrives at its next point or finishes
		case <-time.After(120 * time.Second):
			// the thread computes without ever reaching a synchronisation operation: it cannot be stopped or torn
			// down; the caller must report and exit the process
			c.exec.Stuck = fmt.Sprintf("thread %d (%s) ran for 120 s after %s %s without reaching another synchronisation operation", t.id, t.name, c.exec.Points[len(c.exec.Points)-1].Kind, c.exec.Points[len(c.exec.Points)-1].Obj)
			c.exec.ThreadsN = len(c.threads)
			return c.exec
		}
	}
	c.exec.ThreadsN = len(c.threads)
	// tear down whatever is left (deadlock, horizon, divergence)
	for _, t := range c.threads {
		for !t.done {
			t.killed = true
			c.cur = t.id
			t.wake <- 0
			<-c.ctl
		}
	}
	return c.exec
}

// ---------------------------------------------------------------- object names

var objNames = map[interface{}]string{}

// Name returns a deterministic name for a shim object or address: kind + order of first use in this execution.
func Name(kind string, key interface{}) string {
	if n, ok := objNames[key]; ok {
		return n
	}
	n := fmt.Sprintf("%s%d", kind, len(objNames))
	if d, ok := declared[key]; ok {
		n = kind + ":" + d
	}
	objNames[key] = n
	return n
}

// ResetNames forgets all object names and registered objects (called by the explorer before every execution).
func ResetNames() {
	objNames = map[interface{}]string{}
	objStates = nil
	declared = map[interface{}]string{}
}

var declared = map[interface{}]string{}

// Declare gives the object behind key (an address) a stable name taken from the source (inserted by the rewriter
// after local variable declarations of integer type, so that atomics are named by declaration, not by first use).
func Declare(key interface{}, name string) {
	if !controlled {
		return
	}
	declared[key] = fmt.Sprintf("%s#%d", name, len(declared))
}

// DeclaredName returns the declared name of key, if any.
func DeclaredName(key interface{}) (string, bool) { n, ok := declared[key]; return n, ok }

// ---------------------------------------------------------------- state keys

// Observe mixes the result of an operation into the running thread's observation hash. Thread-local state is a
// deterministic function of the sequence of values its operations returned, so (observation hashes, pending
// operations, shared object contents) identifies the global state.
func Observe(vals ...interface{}) {
	if !controlled || ctrl == nil || ctrl.cur < 0 {
		return
	}
	t := ctrl.threads[ctrl.cur]
	h := t.obs ^ 0xcbf29ce484222325
	for _, b := range []byte(fmt.Sprint(vals...)) {
		h ^= uint64(b)
		h *= 0x100000001b3
	}
	t.nobs++
	t.obs = h*0x9E3779B97F4A7C15 + uint64(t.nobs)
}

type objState struct {
	name  string
	state func() string
}

var objStates []objState

// RegisterObj registers a shared shim object whose contents belong to the global state.
func RegisterObj(name string, state func() string) {
	objStates = append(objStates, objState{name, state})
}

func (c *controller) stateKey() [2]uint64 {
	var sb []byte
	sb = append(sb, fmt.Sprintf("cur=%d|", c.cur)...)
	for _, t := range c.threads {
		pk, po := "-", "-"
		if t.pending != nil {
			pk, po = t.pending.Kind, t.pending.Obj
		}
		sb = append(sb, fmt.Sprintf("t%d:%x:%d:%v:%s:%s:", t.id, t.obs, t.nobs, t.done, pk, po)...)
		// poll counters in a canonical order
		if len(t.polls) > 0 {
			ks := make([]string, 0, len(t.polls))
			for k := range t.polls {
				ks = append(ks, k)
			}
			sortStrings(ks)
			for _, k := range ks {
				sb = append(sb, fmt.Sprintf("%s=%d,", k, t.polls[k])...)
			}
		}
		sb = append(sb, '|')
	}
	// objects sorted by name
	os := append([]objState{}, objStates...)
	for i := 1; i < len(os); i++ {
		for j := i; j > 0 && os[j].name < os[j-1].name; j-- {
			os[j], os[j-1] = os[j-1], os[j]
		}
	}
	for _, o := range os {
		sb = append(sb, o.name...)
		sb = append(sb, '=')
		sb = append(sb, o.state()...)
		sb = append(sb, ';')
	}
	sb = append(sb, fmt.Sprintf("panics=%d;", len(c.exec.Panics))...)
	if c.extra != nil {
		sb = append(sb, c.extra()...)
	}
	var k [2]uint64
	h1, h2 := uint64(0xcbf29ce484222325), uint64(0x84222325cbf29ce4)
	for _, b := range sb {
		h1 ^= uint64(b)
		h1 *= 0x100000001b3
		h2 = (h2 ^ uint64(b)) * 0x9E3779B97F4A7C15
		h2 ^= h2 >> 29
	}
	k[0], k[1] = h1, h2
	return k
}

func sortStrings(a []string) {
	for i := 1; i < len(a); i++ {
		for j := i; j > 0 && a[j] < a[j-1]; j-- {
			a[j], a[j-1] = a[j-1], a[j]
		}
	}
}
