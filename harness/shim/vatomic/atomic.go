// Package atomic is the shim for sync/atomic: the real operation, preceded by a scheduling point in controlled mode.
// Loads count as polls: after a bounded number of fruitless polls a thread waits for a write by another thread.
package atomic

import (
	"fmt"
	"strings"
	real "sync/atomic"
	"unsafe"

	"github.com/wollac/iota-crypto-demo/pkg/verifshim/vsched"
)

var registered = map[unsafe.Pointer]bool{}

// reg registers the word behind p as a shared object (its value is part of the global state).
func reg(p unsafe.Pointer, obj string, size int) {
	if registered[p] {
		return
	}
	registered[p] = true
	vsched.RegisterObj(obj, func() string {
		if size == 4 {
			return fmt.Sprint(real.LoadUint32((*uint32)(p)))
		}
		return fmt.Sprint(real.LoadUint64((*uint64)(p)))
	})
}

// ResetRegistry forgets registered words (explorer calls it before every execution).
func ResetRegistry() { registered = map[unsafe.Pointer]bool{} }

func size(what string) int {
	if strings.Contains(what, "32") {
		return 4
	}
	return 8
}

func load(p unsafe.Pointer, what string) {
	if !vsched.Controlled() || vsched.Killed() {
		return
	}
	obj := vsched.Name("atomic", p)
	reg(p, obj, size(what))
	vsched.Point(&vsched.Op{Kind: "atomic.Load" + what, Obj: obj, Enabled: vsched.PollEnabled(obj)})
	vsched.NotePoll(obj)
	if LoadHook != nil {
		LoadHook(obj)
	}
}

func store(p unsafe.Pointer, what string) {
	if !vsched.Controlled() || vsched.Killed() {
		return
	}
	obj := vsched.Name("atomic", p)
	reg(p, obj, size(what))
	vsched.Point(&vsched.Op{Kind: "atomic." + what, Obj: obj, Write: true})
	vsched.NoteWrite(obj)
}

func LoadUint32(addr *uint32) uint32 {
	load(unsafe.Pointer(addr), "Uint32")
	v := real.LoadUint32(addr)
	if vsched.Controlled() {
		vsched.Log("load=%d", v)
		vsched.Observe("ld32", v)
	}
	return v
}
func LoadUint64(addr *uint64) uint64 {
	load(unsafe.Pointer(addr), "Uint64")
	v := real.LoadUint64(addr)
	vsched.Observe("ld", v)
	return v
}
func LoadInt32(addr *int32) int32 {
	load(unsafe.Pointer(addr), "Int32")
	v := real.LoadInt32(addr)
	vsched.Observe("ld", v)
	return v
}
func LoadInt64(addr *int64) int64 {
	load(unsafe.Pointer(addr), "Int64")
	v := real.LoadInt64(addr)
	vsched.Observe("ld", v)
	return v
}
func StoreUint32(addr *uint32, v uint32) {
	store(unsafe.Pointer(addr), fmt.Sprintf("StoreUint32(%d)", v))
	if vsched.Controlled() {
		storeHook(vsched.Name("atomic", unsafe.Pointer(addr)))
	}
	real.StoreUint32(addr, v)
}
func StoreUint64(addr *uint64, v uint64) {
	store(unsafe.Pointer(addr), "StoreUint64")
	real.StoreUint64(addr, v)
}
func StoreInt32(addr *int32, v int32) {
	store(unsafe.Pointer(addr), "StoreInt32")
	real.StoreInt32(addr, v)
}
func StoreInt64(addr *int64, v int64) {
	store(unsafe.Pointer(addr), "StoreInt64")
	real.StoreInt64(addr, v)
}
func AddUint32(addr *uint32, d uint32) uint32 {
	store(unsafe.Pointer(addr), "AddUint32")
	v := real.AddUint32(addr, d)
	vsched.Observe("add", v)
	return v
}
func AddUint64(addr *uint64, d uint64) uint64 {
	store(unsafe.Pointer(addr), "AddUint64")
	v := real.AddUint64(addr, d)
	vsched.Observe("add", v)
	return v
}
func AddInt32(addr *int32, d int32) int32 {
	store(unsafe.Pointer(addr), "AddInt32")
	v := real.AddInt32(addr, d)
	vsched.Observe("add", v)
	return v
}
func AddInt64(addr *int64, d int64) int64 {
	store(unsafe.Pointer(addr), "AddInt64")
	v := real.AddInt64(addr, d)
	vsched.Observe("add", v)
	return v
}
func CompareAndSwapUint32(addr *uint32, o, n uint32) bool {
	store(unsafe.Pointer(addr), "CASUint32")
	v := real.CompareAndSwapUint32(addr, o, n)
	vsched.Observe("cas", v)
	return v
}
func CompareAndSwapUint64(addr *uint64, o, n uint64) bool {
	store(unsafe.Pointer(addr), "CASUint64")
	v := real.CompareAndSwapUint64(addr, o, n)
	vsched.Observe("cas", v)
	return v
}
func CompareAndSwapInt32(addr *int32, o, n int32) bool {
	store(unsafe.Pointer(addr), "CASInt32")
	v := real.CompareAndSwapInt32(addr, o, n)
	vsched.Observe("cas", v)
	return v
}
func SwapUint32(addr *uint32, n uint32) uint32 {
	store(unsafe.Pointer(addr), "SwapUint32")
	v := real.SwapUint32(addr, n)
	vsched.Observe("swap", v)
	return v
}

// StoreHook, if set, is called (controlled mode) with the object name on every StoreUint32: the harness uses it to
// timestamp the store that sets the done flag.
var StoreHook func(obj string)

// LoadHook, if set, is called (controlled mode) on every atomic load.
var LoadHook func(obj string)

func storeHook(obj string) {
	if StoreHook != nil {
		StoreHook(obj)
	}
}

// Discard variants: the rewriter uses them where the source drops the result of an Add, so that the returned value
// does not count as an observation of the thread (different orders of such adds then lead to the same state).
func AddUint64Discard(addr *uint64, d uint64) {
	store(unsafe.Pointer(addr), "AddUint64")
	real.AddUint64(addr, d)
}
func AddUint32Discard(addr *uint32, d uint32) {
	store(unsafe.Pointer(addr), "AddUint32")
	real.AddUint32(addr, d)
}
func AddInt64Discard(addr *int64, d int64) {
	store(unsafe.Pointer(addr), "AddInt64")
	real.AddInt64(addr, d)
}
func AddInt32Discard(addr *int32, d int32) {
	store(unsafe.Pointer(addr), "AddInt32")
	real.AddInt32(addr, d)
}

// Declare names the word behind p after its source declaration (see vsched.Declare).
func Declare(p interface{}, name string) {
	switch v := p.(type) {
	case *uint32:
		vsched.Declare(unsafe.Pointer(v), name)
	case *uint64:
		vsched.Declare(unsafe.Pointer(v), name)
	case *int32:
		vsched.Declare(unsafe.Pointer(v), name)
	case *int64:
		vsched.Declare(unsafe.Pointer(v), name)
	}
}
