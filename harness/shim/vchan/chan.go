// Package vchan provides typed channel shims. In pass-through mode they wrap real channels; in controlled mode
// they are plain queues whose operations are scheduling points.
package vchan

import (
	"fmt"
	"reflect"
	"sync"

	"github.com/wollac/iota-crypto-demo/pkg/verifshim/vsched"
)

type core struct {
	cap    int
	closed bool
	n      int // number of buffered elements (controlled)
	reg    bool
}

func (c *core) name(self interface{}) string {
	if !c.reg {
		c.reg = true
		n := vsched.Name("chan", self)
		switch ch := self.(type) {
		case *Uint64:
			vsched.RegisterObj(n, func() string { return fmt.Sprint(ch.buf, ch.closed) })
		case *Struct:
			vsched.RegisterObj(n, func() string { return fmt.Sprint(ch.n, ch.closed) })
		}
	}
	return vsched.Name("chan", self)
}

// ---------------- chan uint64 ----------------

// Uint64 is a chan uint64.
type Uint64 struct {
	core
	real chan uint64
	buf  []uint64
}

// MakeUint64 is make(chan uint64, n).
func MakeUint64(n ...int) *Uint64 {
	c := 0
	if len(n) > 0 {
		c = n[0]
	}
	ch := &Uint64{core: core{cap: c}, real: make(chan uint64, c)}
	if vsched.Controlled() && !vsched.Killed() {
		ch.name(ch) // name and register at creation (program order of the creating thread)
	}
	return ch
}

func (c *Uint64) Send(v uint64) {
	if !vsched.Controlled() {
		c.real <- v
		return
	}
	if vsched.Killed() {
		return
	}
	if c.cap == 0 {
		Unsupported = "send on an unbuffered channel (rendezvous is not modelled)"
	}
	vsched.Point(&vsched.Op{Kind: "chan.Send", Obj: c.name(c), Write: true, Enabled: func() bool { return c.closed || len(c.buf) < c.cap }})
	if c.closed {
		panic("send on closed channel")
	}
	c.buf = append(c.buf, v)
	vsched.Log("send len=%d", len(c.buf))
}

func (c *Uint64) Recv2() (uint64, bool) {
	if !vsched.Controlled() {
		v, ok := <-c.real
		return v, ok
	}
	if vsched.Killed() {
		return 0, false
	}
	vsched.Point(&vsched.Op{Kind: "chan.Recv", Obj: c.name(c), Write: true, Enabled: func() bool { return c.closed || len(c.buf) > 0 }})
	if len(c.buf) > 0 {
		v := c.buf[0]
		c.buf = c.buf[1:]
		vsched.Log("recv ok")
		vsched.Observe("recv", v, true)
		return v, true
	}
	vsched.Log("recv closed")
	vsched.Observe("recv closed")
	return 0, false
}

func (c *Uint64) Recv() uint64 { v, _ := c.Recv2(); return v }

func (c *Uint64) Close() {
	if !vsched.Controlled() {
		close(c.real)
		return
	}
	if vsched.Killed() {
		return
	}
	vsched.Point(&vsched.Op{Kind: "chan.Close", Obj: c.name(c), Write: true})
	if c.closed {
		panic("close of closed channel")
	}
	c.closed = true
}

func (c *Uint64) Len() int {
	if !vsched.Controlled() {
		return len(c.real)
	}
	return len(c.buf)
}
func (c *Uint64) Cap() int { return c.cap }

func (c *Uint64) ready() bool           { return c.closed || len(c.buf) > 0 }
func (c *Uint64) realChan() interface{} { return c.real }
func (c *Uint64) take() (interface{}, bool) {
	if len(c.buf) > 0 {
		v := c.buf[0]
		c.buf = c.buf[1:]
		return v, true
	}
	return uint64(0), false
}

// Zero is the zero value of the element type (used by rewritten `case v := <-ch` clauses).
func (c *Uint64) Zero() uint64 { return 0 }

// RecvInto is `case *dst, *ok = <-c` of a select statement (nil pointers: value not wanted).
func (c *Uint64) RecvInto(dst *uint64, ok *bool) Case {
	return Case{ch: c, store: func(v interface{}, k bool) {
		if dst != nil {
			*dst, _ = v.(uint64)
		}
		if ok != nil {
			*ok = k
		}
	}}
}

// ---------------- chan struct{} ----------------

// Struct is a chan struct{}.
type Struct struct {
	core
	real    chan struct{}
	foreign <-chan struct{} // set for wrappers of channels the code under test did not make (ctx.Done())
	fname   string
}

// MakeStruct is make(chan struct{}, n).
func MakeStruct(n ...int) *Struct {
	c := 0
	if len(n) > 0 {
		c = n[0]
	}
	ch := &Struct{core: core{cap: c}, real: make(chan struct{}, c)}
	if vsched.Controlled() && !vsched.Killed() {
		ch.name(ch)
	}
	return ch
}

func (c *Struct) Send(struct{}) {
	if c.foreign != nil {
		panic("vchan: send on a receive-only channel")
	}
	if !vsched.Controlled() {
		c.real <- struct{}{}
		return
	}
	if vsched.Killed() {
		return
	}
	if c.cap == 0 {
		Unsupported = "send on an unbuffered channel (rendezvous is not modelled)"
	}
	vsched.Point(&vsched.Op{Kind: "chan.Send", Obj: c.name(c), Write: true, Enabled: func() bool { return c.closed || c.n < c.cap }})
	if c.closed {
		panic("send on closed channel")
	}
	c.n++
}

func (c *Struct) Recv2() (struct{}, bool) {
	if c == nil { // receive from a nil channel blocks forever
		if !vsched.Controlled() {
			select {}
		}
		vsched.Point(&vsched.Op{Kind: "chan.Recv", Obj: "nil-chan", Enabled: func() bool { return false }})
		return struct{}{}, false
	}
	if !vsched.Controlled() {
		if c.foreign != nil {
			v, ok := <-c.foreign
			return v, ok
		}
		v, ok := <-c.real
		return v, ok
	}
	if vsched.Killed() {
		return struct{}{}, false
	}
	if c.foreign != nil {
		vsched.Point(&vsched.Op{Kind: "chan.Recv", Obj: c.fname, Write: false, Enabled: c.ready})
		vsched.Observe("recv foreign closed")
		return struct{}{}, false
	}
	vsched.Point(&vsched.Op{Kind: "chan.Recv", Obj: c.name(c), Write: true, Enabled: c.ready})
	if c.n > 0 {
		c.n--
		vsched.Observe("recv", true)
		return struct{}{}, true
	}
	vsched.Observe("recv closed")
	return struct{}{}, false
}

func (c *Struct) Recv() struct{} { v, _ := c.Recv2(); return v }

func (c *Struct) Close() {
	if c.foreign != nil {
		panic("vchan: close of a receive-only channel")
	}
	if !vsched.Controlled() {
		close(c.real)
		return
	}
	if vsched.Killed() {
		return
	}
	vsched.Point(&vsched.Op{Kind: "chan.Close", Obj: c.name(c), Write: true})
	if c.closed {
		panic("close of closed channel")
	}
	c.closed = true
}

func (c *Struct) ready() bool {
	if c == nil {
		return false // nil channel: never ready
	}
	if c.foreign != nil {
		f, ok := foreignReady[c.foreign]
		if !ok {
			Unsupported = "receive from a foreign channel the harness does not control"
			return false
		}
		return *f
	}
	return c.closed || c.n > 0
}
func (c *Struct) realChan() interface{} {
	if c == nil {
		return (<-chan struct{})(nil)
	}
	if c.foreign != nil {
		return c.foreign
	}
	return c.real
}
func (c *Struct) take() (interface{}, bool) {
	if c != nil && c.foreign == nil && c.n > 0 {
		c.n--
		return struct{}{}, true
	}
	return struct{}{}, false
}

// Zero is the zero value of the element type (used by rewritten `case v := <-ch` clauses).
func (c *Struct) Zero() struct{} { return struct{}{} }

// RecvInto is `case *dst, *ok = <-c` of a select statement (nil pointers: value not wanted).
func (c *Struct) RecvInto(dst *struct{}, ok *bool) Case {
	return Case{ch: c, store: func(_ interface{}, k bool) {
		if ok != nil {
			*ok = k
		}
	}}
}

var foreignWrap = map[<-chan struct{}]*Struct{}

// Foreign wraps a channel that the code under test did not make (ctx.Done()) so that it can be stored, passed and
// received from like the shim channels. The same channel always gives the same wrapper.
func Foreign(ch <-chan struct{}) *Struct {
	if ch == nil {
		return nil
	}
	if !vsched.Controlled() {
		return &Struct{foreign: ch, fname: "foreign"} // free-running: nothing to name, nothing to remember
	}
	foreignMu.Lock()
	defer foreignMu.Unlock()
	if w, ok := foreignWrap[ch]; ok {
		return w
	}
	w := &Struct{foreign: ch, fname: "foreign?"}
	if n, ok := foreignName[ch]; ok {
		w.fname = n
	}
	foreignWrap[ch] = w
	return w
}

// ---------------- select ----------------

type recvable interface {
	ready() bool
	realChan() interface{}
	take() (interface{}, bool)
}

// Case is one case of a select statement.
type sendable interface {
	canSend() bool
	doSend(v interface{})
	realChan() interface{}
}

func (c *Uint64) canSend() bool { return c.closed || len(c.buf) < c.cap }
func (c *Uint64) doSend(v interface{}) {
	if c.closed {
		panic("send on closed channel")
	}
	c.buf = append(c.buf, v.(uint64))
}
func (c *Struct) canSend() bool { return c.closed || c.n < c.cap }
func (c *Struct) doSend(interface{}) {
	if c.closed {
		panic("send on closed channel")
	}
	c.n++
}

// SendTo is `case ch <- v` for a shim channel.
func SendTo(ch interface{}, v interface{}) Case {
	s, ok := ch.(sendable)
	if !ok {
		panic("vchan: unsupported channel type in select send")
	}
	return Case{snd: s, val: v}
}

type Case struct {
	snd     sendable
	val     interface{}
	ch      recvable // shim channel receive
	store   func(v interface{}, ok bool)
	foreign <-chan struct{} // receive from a channel not created by the code under test (ctx.Done())
	deflt   bool
}

// RecvFrom is `case <-ch` for a shim channel.
func RecvFrom(ch interface{}) Case {
	r, ok := ch.(recvable)
	if !ok {
		panic("vchan: unsupported channel type in select")
	}
	return Case{ch: r}
}

// ForeignRecv is `case <-expr` for a channel that is not a shim (e.g. ctx.Done()).
func ForeignRecv(ch <-chan struct{}) Case { return Case{foreign: ch} }

// Default is the default case.
func Default() Case { return Case{deflt: true} }

// foreign channels known to the harness: readiness is a scheduler-visible flag
var (
	foreignMu    sync.Mutex
	foreignReady = map[<-chan struct{}]*bool{}
	foreignName  = map[<-chan struct{}]string{}
)

// RegisterForeign makes ch known to the controlled scheduler; *ready says whether a receive would succeed.
func RegisterForeign(ch <-chan struct{}, ready *bool) {
	foreignMu.Lock()
	defer foreignMu.Unlock()
	foreignReady[ch] = ready
	n := fmt.Sprintf("foreign%d", len(foreignReady))
	foreignName[ch] = n
	vsched.RegisterObj(n, func() string { return fmt.Sprint(*ready) })
}

// ResetForeign forgets all registered foreign channels.
func ResetForeign() {
	foreignMu.Lock()
	defer foreignMu.Unlock()
	foreignReady = map[<-chan struct{}]*bool{}
	foreignName = map[<-chan struct{}]string{}
	foreignWrap = map[<-chan struct{}]*Struct{}
}

// Unsupported is set when controlled code used a construct the shim cannot model (the check then reports
// exhaustive:false instead of a verdict).
var Unsupported string

// Select chooses a ready case and returns its index (receives are performed; values of struct{} channels are dropped,
// for Uint64 channels use SelectRecvUint64 - not needed by the code under test today).
func Select(cases ...Case) int {
	if !vsched.Controlled() {
		rc := make([]reflect.SelectCase, len(cases))
		for i, c := range cases {
			switch {
			case c.deflt:
				rc[i] = reflect.SelectCase{Dir: reflect.SelectDefault}
			case c.snd != nil:
				rc[i] = reflect.SelectCase{Dir: reflect.SelectSend, Chan: reflect.ValueOf(c.snd.realChan()), Send: reflect.ValueOf(c.val)}
			case c.ch != nil:
				rc[i] = reflect.SelectCase{Dir: reflect.SelectRecv, Chan: reflect.ValueOf(c.ch.realChan())}
			default:
				rc[i] = reflect.SelectCase{Dir: reflect.SelectRecv, Chan: reflect.ValueOf(c.foreign)}
			}
		}
		i, rv, rok := reflect.Select(rc)
		if cases[i].store != nil {
			var v interface{}
			if rv.IsValid() {
				v = rv.Interface()
			}
			cases[i].store(v, rok)
		}
		return i
	}
	if vsched.Killed() {
		return 0
	}
	readyIdx := func() []int {
		var r []int
		for i, c := range cases {
			switch {
			case c.deflt:
			case c.snd != nil:
				if c.snd.canSend() {
					r = append(r, i)
				}
			case c.ch != nil:
				if c.ch.ready() {
					r = append(r, i)
				}
			default:
				f, ok := foreignReady[c.foreign]
				if !ok {
					Unsupported = "select on an unregistered foreign channel"
				} else if *f {
					r = append(r, i)
				}
			}
		}
		return r
	}
	hasDefault := false
	for _, c := range cases {
		if c.deflt {
			hasDefault = true
		}
	}
	alt := vsched.Point(&vsched.Op{Kind: "select", Obj: "select", Write: true,
		Enabled: func() bool { return hasDefault || len(readyIdx()) > 0 },
		Alts: func() int {
			if n := len(readyIdx()); n > 0 {
				return n
			}
			return 1
		}})
	r := readyIdx()
	if len(r) == 0 {
		for i, c := range cases {
			if c.deflt {
				vsched.Log("select default")
				vsched.Observe("select default")
				return i
			}
		}
		return 0
	}
	i := r[alt%len(r)]
	if cases[i].snd != nil {
		cases[i].snd.doSend(cases[i].val)
	} else if cases[i].ch != nil {
		v, ok := cases[i].ch.take()
		if cases[i].store != nil {
			cases[i].store(v, ok)
		}
		vsched.Observe("select recv", v, ok)
	}
	vsched.Log("select case %d", i)
	vsched.Observe("select", i)
	return i
}
