// Package curl is the shim for this module's own batched Curl (github.com/wollac/iota-crypto-demo/pkg/curl) when the
// PoW code is changed to hash through it instead of iota.go's curl/bct: the same object and hooks as the vbct shim,
// with pkg/curl as the backend.
package curl

import (
	real "github.com/wollac/iota-crypto-demo/pkg/curl"
	vbct "github.com/wollac/iota-crypto-demo/pkg/verifshim/vbct"
)

// MaxBatchSize mirrors the real constant.
const MaxBatchSize = real.MaxBatchSize

const (
	StateSize = real.StateSize
	NumRounds = real.NumRounds
)

type SpongeDirection = real.SpongeDirection

const (
	SpongeAbsorbing = real.SpongeAbsorbing
	SpongeSqueezing = real.SpongeSqueezing
)

// Curl is the instrumented object.
type Curl = vbct.Curl

func NewCurlP81() *Curl {
	return vbct.NewWith(real.NewCurlP81(), func(b vbct.Backend) vbct.Backend { return b.(*real.Curl).Clone() })
}
