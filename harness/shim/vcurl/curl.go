// Package curl is the shim for github.com/iotaledger/iota.go/curl used by pow/pow.go (Score). By default it is the real
// Curl-P-81; with ScriptDigest set, Squeeze returns a scripted digest so that Score's arithmetic can be driven to
// difficulties no real hash will ever show (2^64 boundary, saturation).
package curl

import (
	real "github.com/iotaledger/iota.go/curl"
	sponge "github.com/iotaledger/iota.go/signing/utils"
	"github.com/iotaledger/iota.go/trinary"
)

// SpongeFunction mirrors the real interface.
type SpongeFunction = sponge.SpongeFunction

// ScriptDigest, when non-nil, maps the absorbed trits to the 243 trits Squeeze returns.
var ScriptDigest func(absorbed trinary.Trits) trinary.Trits

type scripted struct {
	sponge.SpongeFunction
	in trinary.Trits
}

func (s *scripted) Absorb(in trinary.Trits) error {
	s.in = append(s.in, in...)
	return s.SpongeFunction.Absorb(in)
}

func (s *scripted) Squeeze(n int) (trinary.Trits, error) {
	if f := ScriptDigest; f != nil && n == 243 {
		return f(s.in), nil
	}
	return s.SpongeFunction.Squeeze(n)
}

// NewCurlP81 returns the real sponge, wrapped when a script is installed.
func NewCurlP81() SpongeFunction {
	if ScriptDigest != nil {
		return &scripted{SpongeFunction: real.NewCurlP81()}
	}
	return real.NewCurlP81()
}
