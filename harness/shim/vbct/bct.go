// Package bct is the shim for github.com/iotaledger/iota.go/curl/bct used by pow/worker.go.
//
// Default: the real batched Curl. Scripted mode (C11/C12): CopyState returns states produced by a script instead of
// hashes, so that a single-worker Mine reveals the lane test it applies. BatchHook lets the harness count hash batches
// (promptness after cancellation). Memo caches real results by input, because the explorer repeats identical batches.
package bct

import (
	"crypto/sha256"
	"sync"
	"sync/atomic"

	"github.com/iotaledger/iota.go/consts"
	real "github.com/iotaledger/iota.go/curl/bct"
	"github.com/iotaledger/iota.go/trinary"
)

// MaxBatchSize mirrors the real constant.
const MaxBatchSize = real.MaxBatchSize

// Script, when non-nil, replaces the hash: it fills l and h (243 words each) for batch number `batch` (0-based count of
// Absorb calls on this Curl object since it was created; Reset does not restart the count).
var Script func(batch int, src []trinary.Trits, l, h *[consts.HashTrinarySize]uint)

// ScriptEx is like Script but also receives the Curl object (one per worker), so that a script can follow each worker.
var ScriptEx func(obj *Curl, batch int, src []trinary.Trits, l, h *[consts.HashTrinarySize]uint)

// BatchHook, when non-nil, is called at the start of every Absorb.
var BatchHook func()

// Memo enables caching of real results.
var Memo bool

var (
	memoMu sync.Mutex
	memo   = map[[32]byte]*[2][729]uint{}
)

// Backend is the batched Curl a Curl object wraps (iota.go's bct.Curl, or this module's own pkg/curl through the vpcurl shim).
type Backend interface {
	Reset()
	Absorb(src []trinary.Trits, tritsCount int) error
	CopyState(l, h []uint)
	Squeeze(dst []trinary.Trits, tritsCount int) error
}

// Curl wraps the real batched Curl.
type Curl struct {
	r        Backend
	clone    func(Backend) Backend
	batches  int
	scripted bool
	l, h     [consts.HashTrinarySize]uint
	cached   *[2][729]uint
}

func NewCurlP81() *Curl {
	return NewWith(real.NewCurlP81(), func(b Backend) Backend { return b.(*real.Curl).Clone() })
}

// NewWith wraps another batched Curl implementation with the same hooks.
func NewWith(b Backend, clone func(Backend) Backend) *Curl { return &Curl{r: b, clone: clone} }

// Intercepted counts the Absorb calls that went through this shim (whatever the mode): the harness uses it to find out
// whether Mine hashes through a package the overlay instruments at all.
var Intercepted atomic.Int64

func (c *Curl) Reset() {
	c.r.Reset()
	c.scripted = false
	c.cached = nil
}

func (c *Curl) Clone() *Curl {
	d := *c
	d.r = c.clone(c.r)
	return &d
}

func (c *Curl) Absorb(src []trinary.Trits, tritsCount int) error {
	Intercepted.Add(1)
	if BatchHook != nil {
		BatchHook()
	}
	if ScriptEx != nil {
		if len(src) < 1 || len(src) > MaxBatchSize {
			return consts.ErrInvalidBatchSize
		}
		ScriptEx(c, c.batches, src, &c.l, &c.h)
		c.batches++
		c.scripted = true
		return nil
	}
	if Script != nil {
		if len(src) < 1 || len(src) > MaxBatchSize {
			return consts.ErrInvalidBatchSize
		}
		if tritsCount%consts.HashTrinarySize != 0 {
			return consts.ErrInvalidTritsLength
		}
		Script(c.batches, src, &c.l, &c.h)
		c.batches++
		c.scripted = true
		return nil
	}
	c.batches++
	if Memo && tritsCount == consts.HashTrinarySize && len(src) == MaxBatchSize {
		hsh := sha256.New()
		b := make([]byte, 0, 64*243)
		for _, s := range src {
			for _, t := range s[:tritsCount] {
				b = append(b, byte(t))
			}
		}
		hsh.Write(b)
		var k [32]byte
		copy(k[:], hsh.Sum(nil))
		memoMu.Lock()
		e := memo[k]
		memoMu.Unlock()
		if e == nil {
			c.r.Reset()
			if err := c.r.Absorb(src, tritsCount); err != nil {
				return err
			}
			e = new([2][729]uint)
			c.r.CopyState(e[0][:], e[1][:])
			memoMu.Lock()
			memo[k] = e
			memoMu.Unlock()
		}
		c.cached = e
		return nil
	}
	c.cached = nil
	return c.r.Absorb(src, tritsCount)
}

func (c *Curl) CopyState(l, h []uint) {
	switch {
	case c.scripted:
		copy(l, c.l[:])
		copy(h, c.h[:])
	case c.cached != nil:
		copy(l, c.cached[0][:])
		copy(h, c.cached[1][:])
	default:
		c.r.CopyState(l, h)
	}
}

func (c *Curl) Squeeze(dst []trinary.Trits, tritsCount int) error {
	return c.r.Squeeze(dst, tritsCount)
}
