// Package sync is the shim for the parts of package sync the code under test uses.
package sync

import (
	"fmt"
	real "sync"

	"github.com/wollac/iota-crypto-demo/pkg/verifshim/vsched"
)

// WaitGroup mirrors sync.WaitGroup.
type WaitGroup struct {
	r   real.WaitGroup
	n   int
	reg bool
}

func (w *WaitGroup) name() string {
	if !w.reg {
		w.reg = true
		n := vsched.Name("wg", w)
		vsched.RegisterObj(n, func() string { return fmt.Sprint(w.n) })
	}
	return vsched.Name("wg", w)
}

func (w *WaitGroup) Add(d int) {
	if !vsched.Controlled() {
		w.r.Add(d)
		return
	}
	if vsched.Killed() {
		return
	}
	vsched.Point(&vsched.Op{Kind: "wg.Add", Obj: w.name(), Write: true})
	w.n += d
	vsched.Log("wg=%d", w.n)
	if w.n < 0 {
		panic("sync: negative WaitGroup counter")
	}
}

func (w *WaitGroup) Done() { w.Add(-1) }

func (w *WaitGroup) Wait() {
	if !vsched.Controlled() {
		w.r.Wait()
		return
	}
	if vsched.Killed() {
		return
	}
	vsched.Point(&vsched.Op{Kind: "wg.Wait", Obj: w.name(), Enabled: func() bool { return w.n == 0 }})
}

// Mutex mirrors sync.Mutex.
type Mutex struct {
	r      real.Mutex
	locked bool
	reg    bool
}

func (m *Mutex) name() string {
	if !m.reg {
		m.reg = true
		vsched.RegisterObj(vsched.Name("mu", m), func() string { return fmt.Sprint(m.locked) })
	}
	return vsched.Name("mu", m)
}

func (m *Mutex) Lock() {
	if !vsched.Controlled() {
		m.r.Lock()
		return
	}
	if vsched.Killed() {
		return
	}
	vsched.Point(&vsched.Op{Kind: "mutex.Lock", Obj: m.name(), Enabled: func() bool { return !m.locked }, Write: true})
	m.locked = true
}

func (m *Mutex) Unlock() {
	if !vsched.Controlled() {
		m.r.Unlock()
		return
	}
	if vsched.Killed() {
		return
	}
	vsched.Point(&vsched.Op{Kind: "mutex.Unlock", Obj: m.name(), Write: true})
	if !m.locked {
		panic("sync: unlock of unlocked mutex")
	}
	m.locked = false
}

// RWMutex: writers only (readers treated as writers; coarser but sound for mutual exclusion).
type RWMutex struct{ Mutex }

func (m *RWMutex) RLock()   { m.Lock() }
func (m *RWMutex) RUnlock() { m.Unlock() }

// Once mirrors sync.Once.
type Once struct {
	r    real.Once
	done bool
	m    Mutex
}

func (o *Once) Do(f func()) {
	if !vsched.Controlled() {
		o.r.Do(f)
		return
	}
	o.m.Lock()
	defer o.m.Unlock()
	if !o.done {
		defer func() { o.done = true }()
		f()
	}
}

// Pass-through aliases for parts of package sync that are not scheduling points of the explored code (they keep the
// rewritten sources compiling; a Map or Pool used between goroutines is ordinary data as far as the scheduler goes).
type (
	Map    = real.Map
	Pool   = real.Pool
	Locker = real.Locker
)
