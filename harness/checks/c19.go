package checks

import (
	"bytes"
	"fmt"
	"strings"

	"github.com/iotaledger/iota.go/checksum"
	"github.com/wollac/iota-crypto-demo/pkg/bech32/address"
	"github.com/wollac/iota-crypto-demo/pkg/ed25519"
	"github.com/wollac/iota-crypto-demo/pkg/migration"
	"golang.org/x/crypto/blake2b"

	"verifharness/core"
	rb "verifharness/ref/bech32"
)

func init() {
	core.Register(core.Check{ID: "C19", Level: "exploration", Run: func(c *core.Ctx) {
		waitArch := background(func() { arch386Pass(c, "C19") })
		runC19(c)
		historyPass(c, "C19")
		reentrancyPass(c, "C19")
		waitArch()
	}})
}

var c19Known = map[string]address.Prefix{"iota": address.IOTAMainnet, "atoi": address.IOTADevnet, "smr": address.ShimmerMainnet, "rms": address.ShimmerDevnet}

func c19WantLen(version byte) (int, bool) {
	switch version {
	case 0x00:
		return 32, true
	case 0x08, 0x10:
		return 20, true
	}
	return 0, false
}

func c19JudgeParse(c *core.Ctx, s string, tag string) bool {
	// reference verdict
	hrp, data, ok := rb.Decode(s)
	want := false
	var wantPrefix address.Prefix
	if ok && len(data) >= 1 {
		if p, known := c19Known[hrp]; known {
			if l, kv := c19WantLen(data[0]); kv && len(data)-1 == l {
				want, wantPrefix = true, p
			}
		}
	}
	var gp address.Prefix
	var ga address.Address
	var err error
	p := core.Catch(func() { gp, ga, err = address.ParseBech32(s) })
	c.Eval(1)
	gotest := fmt.Sprintf("func TestC19(t *testing.T) { p, a, err := address.ParseBech32(%q); t.Log(p, a, err) /* expected accept=%v */ }", s, want)
	if p != nil {
		c.Violate("C19/"+tag+"/panic", fmt.Sprintf("ParseBech32(%q) panicked: %v", s, p), s, gotest, nil)
		return want
	}
	if want && err != nil {
		c.Violate("C19/"+tag+"/reject-valid", fmt.Sprintf("ParseBech32(%q): %v", s, err), s, gotest, nil)
		return true
	}
	if !want {
		if err == nil {
			why := "invalid Bech32"
			if ok {
				why = fmt.Sprintf("hrp %q, %d data bytes, version %v", hrp, len(data), data[:min(1, len(data))])
			}
			c.Violate("C19/"+tag+"/accept-invalid", fmt.Sprintf("ParseBech32(%q) accepted (%s)", s, why), s, gotest, nil)
		} else if ga != nil {
			c.Violate("C19/"+tag+"/address-with-error", fmt.Sprintf("ParseBech32(%q) returned an address together with %v", s, err), s, gotest, nil)
		}
		return false
	}
	if gp != wantPrefix {
		c.Violate("C19/"+tag+"/wrong-prefix", fmt.Sprintf("ParseBech32(%q) prefix %v want %v", s, gp, wantPrefix), s, gotest, nil)
	}
	if ga == nil || !bytes.Equal(ga.Bytes(), data) || byte(ga.Version()) != data[0] {
		c.Violate("C19/"+tag+"/wrong-address", fmt.Sprintf("ParseBech32(%q) address bytes %x want %x", s, ga, data), s, gotest, nil)
		return true
	}
	re, e2 := address.Bech32(gp, ga)
	if e2 != nil || re != rb.Lower(s) {
		c.Violate("C19/"+tag+"/reencode-differs", fmt.Sprintf("ParseBech32(%q) re-encodes to %q (%v)", s, re, e2), s, gotest, nil)
	}
	return true
}

func refMigrationEncode(addr [32]byte) string {
	sum := blake2b.Sum256(addr[:])
	var t []int8
	for _, b := range append(append([]byte{}, addr[:]...), sum[:4]...) {
		g := refB1T6Enc(b)
		t = append(t, g[:]...)
	}
	return "TRANSFER" + refTrytes(t) + "9"
}

func c19JudgeMig(c *core.Ctx, s string, tag string) bool {
	var addr [32]byte
	var err error
	p := core.Catch(func() { addr, err = migration.Decode(s) })
	c.Eval(1)
	if p != nil {
		c.Violate("C19/migration/"+tag+"/panic", fmt.Sprintf("Decode(%q) panicked: %v", s, p), s, "", nil)
		return false
	}
	if err != nil {
		return false
	}
	// accepted => it must be exactly what the encoder produces for the returned address
	if re := refMigrationEncode(addr); re != s {
		c.Violate("C19/migration/"+tag+"/not-canonical", fmt.Sprintf("Decode(%q) accepted as %x, whose encoding is %q", s, addr, re), s, "", nil)
	}
	return true
}

func runC19(c *core.Ctx) {
	if st := rb.SelfTest(); st != "" {
		c.Abort("reference self test failed: %s", st)
		return
	}
	c.Rule = "9 hrps (4 known, upper case, near misses) x every version byte 0..255 x every payload length that fits 90 characters (0..50) x 2 payload fillings through ParseBech32; corpus of invalid Bech32 spellings; round trip of the three address kinds x 4 prefixes x 64 hashes; migration: 300 addresses round trip, every single-tryte substitution, every tryte-pair substitution of every b1t6 group, lengths 80/82, non-tryte characters, prefix/suffix changes; non-trivial = distinct inputs accepted"
	var nontriv int64
	hrps := []string{"iota", "atoi", "smr", "rms", "IOTA", "iot", "iotaa", "tiota", "rm", "Smr", "iota1"}
	acc := make([]int64, 256)
	core.Par(256, func(v int) {
		for _, h := range hrps {
			for l := 0; l <= 50; l++ {
				for fill := 0; fill < 2; fill++ {
					data := make([]byte, l+1)
					data[0] = byte(v)
					for i := 1; i <= l; i++ {
						if fill == 1 {
							data[i] = byte(i*41 + v)
						}
					}
					var s string
					if h == "Smr" { // mixed case hrp: build lower then break the case
						x, ok := rb.Encode("smr", data)
						if !ok {
							continue
						}
						s = "S" + x[1:]
					} else {
						x, ok := rb.Encode(h, data)
						if !ok {
							continue
						}
						s = x
					}
					if c19JudgeParse(c, s, "product") {
						acc[v]++
					}
				}
			}
		}
	})
	for _, a := range acc {
		nontriv += a
	}
	// empty payload, and strings without a version byte
	for _, h := range hrps[:5] {
		s, _ := rb.Encode(h, nil)
		c19JudgeParse(c, s, "product")
	}
	c.Sample("iota1 + version 0x08 + 20 bytes")

	// every value of the last data symbol (all padding-bit patterns) for each known version and exact payload length
	for _, h := range []string{"iota", "atoi", "smr", "rms", "SMR"} {
		for _, v := range []byte{0, 8, 16} {
			l, _ := c19WantLen(v)
			for fill := 0; fill < 2; fill++ {
				data := make([]byte, l+1)
				data[0] = v
				for i := 1; i <= l; i++ {
					data[i] = byte(i*13+int(v)) * byte(fill)
				}
				sym, _ := rb.ConvertBits(data, 8, 5, true)
				for last := 0; last < 32; last++ {
					s2 := append([]byte{}, sym...)
					s2[len(s2)-1] = byte(last)
					str := rb.EncodeSymbols(rb.Lower(h), s2)
					if h != rb.Lower(h) {
						str = rb.Upper(str)
					}
					if c19JudgeParse(c, str, "padding") {
						nontriv++
					}
				}
				// one more / one fewer symbol (payload length off by the regrouping granularity)
				for _, extra := range [][]byte{append(append([]byte{}, sym...), 0), sym[:len(sym)-1]} {
					c19JudgeParse(c, rb.EncodeSymbols(rb.Lower(h), extra), "padding")
				}
			}
		}
	}

	// invalid Bech32 spellings of a valid address
	good, _ := rb.Encode("iota", append([]byte{0}, bytes.Repeat([]byte{0x5A}, 32)...))
	var bad []string
	for pos := 0; pos < len(good); pos++ {
		for _, v := range []string{"K", "b", "1", "B", "\x80", "", "ſ", "İ", "Q"} {
			bad = append(bad, good[:pos]+v+good[pos+1:])
		}
		up := []byte(good)
		if up[pos] >= 'a' && up[pos] <= 'z' {
			up[pos] -= 32
		}
		bad = append(bad, string(up))
	}
	for pos := 0; pos < len(good); pos++ {
		for v := 0; v < 256; v++ {
			if byte(v) != good[pos] {
				bad = append(bad, good[:pos]+string([]byte{byte(v)})+good[pos+1:])
			}
		}
	}
	bad = append(bad, "", "iota", "iota1", "1", good+"q", good[:len(good)-1], strings.ToUpper(good), " "+good, good+" ")
	// valid Bech32 strings that carry no address at all: no data symbols, fewer than one byte of data
	for _, h := range []string{"iota", "atoi", "smr", "rms", "IOTA"} {
		for _, sym := range [][]byte{nil, {0}, {31}, {0, 0}, {1, 0}} {
			v := rb.EncodeSymbols(rb.Lower(h), sym)
			bad = append(bad, v, strings.ToUpper(v))
		}
	}
	// well-formed addresses whose checksum is right for another convention (Bech32m and other final constants)
	for _, h := range []string{"iota", "atoi", "smr", "rms"} {
		for ver := 0; ver < 3; ver++ {
			n := 32
			if ver == 8 {
				n = 20
			}
			sym, _ := rb.ConvertBits(append([]byte{byte(ver)}, bytes.Repeat([]byte{0xC3}, n)...), 8, 5, true)
			for _, k := range []uint32{0x2bc830a3, 0, 2, 3, 0x3fffffff, 1 << 29} {
				bad = append(bad, rb.EncodeSymbolsConst(h, sym, k), strings.ToUpper(rb.EncodeSymbolsConst(h, sym, k)))
			}
		}
	}
	for _, s := range bad {
		if c19JudgeParse(c, s, "spelling") {
			nontriv++
		}
	}

	// round trip of constructed addresses
	for i := 0; i < 64; i++ {
		key := make([]byte, 32)
		var oid [address.OutputIDLength]byte
		for k := range key {
			key[k] = byte(i*k + i + k*k)
		}
		for k := range oid {
			oid[k] = byte(i*3 + k*7)
		}
		addrs := []address.Address{address.AddressFromPublicKey(ed25519.PublicKey(key)), address.AliasAddressFromOutputID(oid), address.NFTAddressFromOutputID(oid)}
		for pi, hrp := range []string{"iota", "atoi", "smr", "rms"} {
			for _, a := range addrs {
				s, err := address.Bech32(address.Prefix(pi), a)
				c.Eval(1)
				want, _ := rb.Encode(hrp, a.Bytes())
				if err != nil || s != want {
					c.Violate("C19/roundtrip/encode", fmt.Sprintf("Bech32(%s, %x) = %q,%v want %q", hrp, a.Bytes(), s, err, want), s, "", nil)
					continue
				}
				p2, a2, err := address.ParseBech32(s)
				if err != nil || int(p2) != pi || !bytes.Equal(a2.Bytes(), a.Bytes()) || a2.Version() != a.Version() || a2 != a {
					c.Violate("C19/roundtrip/parse", fmt.Sprintf("ParseBech32(%q) = %v,%v,%v", s, p2, a2, err), s, "", nil)
				}
				nontriv++
			}
		}
	}

	// migration addresses
	var addrs [][32]byte
	for i := 0; i < 300; i++ {
		var a [32]byte
		switch {
		case i == 0:
		case i == 1:
			for k := range a {
				a[k] = 0xFF
			}
		case i < 34:
			a[i-2] = 0x80
		case i < 66:
			a[i-34] = 0x7F
		default:
			h := blake2b.Sum256([]byte{byte(i), byte(i >> 8)})
			a = h
		}
		addrs = append(addrs, a)
	}
	macc := make([]int64, len(addrs))
	core.Par(len(addrs), func(i int) {
		a := addrs[i]
		s := migration.Encode(a)
		c.Eval(1)
		if want := refMigrationEncode(a); s != want {
			c.Violate("C19/migration/encode", fmt.Sprintf("Encode(%x) = %q want %q", a, s, want), a, "", nil)
			return
		}
		back, err := migration.Decode(s)
		if err != nil || back != a {
			c.Violate("C19/migration/roundtrip", fmt.Sprintf("Decode(Encode(%x)) = %x,%v", a, back, err), a, "", nil)
			return
		}
		macc[i]++
		if i >= 40 && i%10 != 0 && !c.Thorough() {
			return
		}
		const alphabet = "9ABCDEFGHIJKLMNOPQRSTUVWXYZ"
		for pos := 0; pos < len(s); pos++ {
			for k := 0; k < len(alphabet); k++ {
				if alphabet[k] == s[pos] {
					continue
				}
				if c19JudgeMig(c, s[:pos]+string(alphabet[k])+s[pos+1:], "substitution") {
					macc[i]++
				}
			}
			for _, v := range []string{"a", "0", " ", "\x00", "\xff", "Ω", "", "99"} {
				c19JudgeMig(c, s[:pos]+v+s[pos+1:], "nontryte")
			}
		}
		// both trytes of one b1t6 group replaced: every one of the 729 tryte pairs at each of the 36 groups (non-code
		// words, and second spellings of a byte if the decoder's range check is loose)
		if i < 6 || (i%50 == 0) {
			for g := 0; g < 36; g++ {
				pos := 8 + 2*g
				for a := 0; a < 27; a++ {
					for b := 0; b < 27; b++ {
						if alphabet[a] == s[pos] && alphabet[b] == s[pos+1] {
							continue
						}
						if c19JudgeMig(c, s[:pos]+string([]byte{alphabet[a], alphabet[b]})+s[pos+2:], "group") {
							macc[i]++
						}
					}
				}
			}
		}
		// the 90-tryte form of the same address (81 trytes + the 9-tryte Kerl checksum wallets append) is not a migration address
		withSum, _ := checksum.AddChecksum(s, true, 9)
		for _, v := range []string{s + "9", s[:80], "9" + s, s[1:], strings.ToLower(s), "TRANSFEQ" + s[8:], s[:80] + "A", "", s + s, withSum, s + "999999999", s + s[:9]} {
			c19JudgeMig(c, v, "shape")
		}
	})
	for _, a := range macc {
		nontriv += a
	}
	c.Sample(migration.Encode(addrs[2]))
	c.NonTrivial(nontriv)
	c.SetExhaustive(true)
	c.Assume = []string{"BIP-173 reference (validated against its vectors) builds the inputs", "BLAKE2b from x/crypto"}
}
