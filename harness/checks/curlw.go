package checks

// C20w: the word-size generic core of C20/C06 - the batched permutation and the public sponge against the one-lane
// reference, with as many lanes as a uint has bits. It exists for the build variants in which the full checks cannot
// run or run other code: GOARCH=386 (32 lanes, always the portable code) and GOAMD64=v3 (other assembly may be selected
// by a build constraint). Run as a child by archPass; never registered in the manifest.

import (
	"fmt"
	"math/bits"

	"github.com/iotaledger/iota.go/trinary"
	"github.com/wollac/iota-crypto-demo/pkg/curl"

	"verifharness/bitexec/refcurl"
	"verifharness/core"
)

func init() { core.Register(core.Check{ID: "C20w", Level: "other", Run: runCurlW}) }

// curlwTrit: deterministic trit for (state s, lane j, position i); a few lanes are constant.
func curlwTrit(s, j, i int) int8 {
	switch {
	case s == 0:
		return 0
	case j%11 == 3:
		return int8(s%3) - 1
	case j%11 == 7:
		return int8((i+s)%3) - 1
	}
	x := uint32(s*7919+j*104729+i*1299709) * 2654435761
	x ^= x >> 13
	x *= 0x5bd1e995
	x ^= x >> 15
	return int8(x%3) - 1
}

func runCurlW(c *core.Ctx) {
	W := bits.UintSize
	c.Set("explanation", "word-size generic permutation/sponge comparison; child of C20 and C06 in other build variants")
	c.Set("lanes", int64(W))
	nStates := 24
	for s := 0; s < nStates; s++ {
		var lf, hf, lt, ht, lt2, ht2, lf2, hf2 [curl.StateSize]uint
		want := make([][refcurl.N]int8, W)
		for j := 0; j < W; j++ {
			for i := 0; i < curl.StateSize; i++ {
				t := curlwTrit(s, j, i)
				want[j][i] = t
				if t <= 0 {
					lf[i] |= 1 << uint(j)
				}
				if t >= 0 {
					hf[i] |= 1 << uint(j)
				}
			}
			refcurl.Transform(&want[j])
		}
		lf2, hf2 = lf, hf
		if p := core.Catch(func() { curl.VerifTransform(&lt, &ht, &lf, &hf) }); p != nil {
			c.Violate("C20w/transform/panic", fmt.Sprint(p), nil, "", nil)
			return
		}
		if p := core.Catch(func() { curl.VerifTransformGeneric(&lt2, &ht2, &lf2, &hf2) }); p != nil {
			c.Violate("C20w/transform-generic/panic", fmt.Sprint(p), nil, "", nil)
			return
		}
		for which, pl := range [][2]*[curl.StateSize]uint{{&lt, &ht}, {&lt2, &ht2}} {
			name := []string{"transform", "transform-generic"}[which]
		lanes:
			for j := 0; j < W; j++ {
				for i := 0; i < curl.StateSize; i++ {
					lb, hb := pl[0][i]>>uint(j)&1, pl[1][i]>>uint(j)&1
					var t int8
					switch {
					case lb == 1 && hb == 1:
						t = 0
					case lb == 0 && hb == 1:
						t = 1
					case lb == 1 && hb == 0:
						t = -1
					default:
						t = 9
					}
					c.Eval(1)
					if t != want[j][i] {
						c.Violate("C20w/"+name+"/differs-from-Curl-P-81", fmt.Sprintf("state %d, lane %d of %d, trit %d: the batched permutation gives %d, the one-lane reference %d", s, j, W, i, t, want[j][i]), map[string]interface{}{"state": s, "lane": j, "trit": i}, "", nil)
						break lanes
					}
				}
			}
		}
	}
	// the public sponge: batches of 1, 2, W-1, W messages of 1..3 blocks, two squeezed blocks
	// batches larger than the word size (W+1 ... 65): the implementation may refuse them, but a batch it accepts must come
	// out lane by lane like every other one (a batch limit that does not follow the word size folds lanes onto each other)
	for _, b := range []int{1, 2, W - 1, W, W + 1, 2*W - 1, 2 * W, 63, 64, 65} {
		for blocks := 1; blocks <= 3; blocks++ {
			if b > W && blocks > 1 {
				continue
			}
			src := make([]trinary.Trits, b)
			for j := range src {
				src[j] = make(trinary.Trits, 243*blocks)
				for i := range src[j] {
					src[j][i] = curlwTrit(40+b+blocks, j, i)
				}
			}
			h := curl.NewCurlP81()
			dst := make([]trinary.Trits, b)
			var err error
			p := core.Catch(func() {
				if err = h.Absorb(src, 243*blocks); err == nil {
					err = h.Squeeze(dst, 486)
				}
			})
			c.Eval(int64(b))
			if b > W && p == nil && err != nil {
				continue // refused: fine
			}
			if p != nil || err != nil {
				c.Violate("C20w/sponge/error", fmt.Sprintf("batch of %d messages of %d blocks: %v %v", b, blocks, p, err), nil, "", nil)
				continue
			}
			for j := range src {
				in := make([]int8, len(src[j]))
				for i, t := range src[j] {
					in[i] = t
				}
				w, _ := refcurl.Sum(in, 486)
				ok := len(dst[j]) == 486
				for i := 0; ok && i < 486; i++ {
					ok = dst[j][i] == w[i]
				}
				if !ok {
					c.Violate("C20w/sponge/differs-from-Curl-P-81", fmt.Sprintf("batch of %d messages of %d blocks: lane %d of the squeezed output differs from the one-lane Curl-P-81 sponge", b, blocks, j), map[string]interface{}{"batch": b, "blocks": blocks, "lane": j}, "", nil)
					break
				}
			}
		}
	}
	c.NonTrivial(int64(nStates*W) + 12)
	c.SetExhaustive(false)
}
