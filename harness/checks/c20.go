package checks

// C20 - the amd64 assembly permutation and the portable Go permutation both equal Curl-P-81 on every
// bit-sliced state, and the assembly touches nothing outside its four buffers.
//
// Deciding step (model checking, package bitexec): the checked-in assembly text and the go/ssa form
// of transformGeneric+sBox are executed instruction by instruction in one executor whose words carry
// provenance (control / pointer / data + dependency set + "lane-wise only"). All branch conditions
// turn out to depend on control words only, so each routine has exactly one path for all inputs; it
// is executed to the end with every memory access bounds-checked. At each arrival at the round-loop
// head the finished round is compared with the definition of the Curl-P round function (dependency
// set, lane-wise-ness and the complete 16-row truth table of every output bit, read off a 3-colour
// lane pattern), for all 81 rounds.
//
// Binding the model to the binaries (a corpus, not the deciding step): executor results, the native
// assembly, the compiled portable code, the bit-level definition and 64 x the one-lane trit
// reference are compared on a structured corpus; a child process built with "-tags purego" must
// produce the same digest over permutation outputs and public-API hashes.
//
// Testing hooks (detection demonstrations only, never set in normal runs):
//   VERIF_C20_ASM=<file>    analyse this assembly file instead of <repo>/pkg/curl/transform_amd64.s
//   VERIF_C20_GOSRC=<file>  analyse this file as <repo>/pkg/curl/transform.go (go/packages overlay)
// With either set the run reports exhaustive:false and the model/binary comparison is expected to
// differ (the binaries are still built from the unchanged repository).

import (
	"bytes"
	"context"
	"crypto/sha256"
	"encoding/binary"
	"encoding/hex"
	"encoding/json"
	"fmt"
	"os"
	"os/exec"
	"path/filepath"
	"regexp"
	"sort"
	"strings"
	"sync"
	"time"

	iotacurl "github.com/iotaledger/iota.go/curl"
	"github.com/iotaledger/iota.go/trinary"
	"github.com/wollac/iota-crypto-demo/pkg/curl"

	"verifharness/bitexec"
	"verifharness/bitexec/refcurl"
	"verifharness/core"
)

func init() {
	core.Register(core.Check{ID: "C20", Level: "model_checking", Run: func(c *core.Ctx) {
		waitArch := background(func() { curlVariantPasses(c, "C20") })
		runC20(c)
		c20StackSweep(c, "C20")
		historyPass(c, "C20")
		reentrancyPass(c, "C20")
		waitArch()
	}})
	// helper run inside the purego-built binary; prints digests, decides nothing
	core.Register(core.Check{ID: "C20purego", Level: "other", Run: runC20Purego})
}

const (
	c20Pkg    = "github.com/wollac/iota-crypto-demo/pkg/curl"
	c20N      = refcurl.N
	c20AsmRel = "pkg/curl/transform_amd64.s"
	c20GoRel  = "pkg/curl/transform.go"
)

// ---------------------------------------------------------------------------------------------
// deterministic pseudo-random numbers (fixed LCG, independent of math/rand versions)

type c20LCG uint64

func (g *c20LCG) next() uint64 {
	*g = c20LCG(uint64(*g)*6364136223846793005 + 1442695040888963407)
	x := uint64(*g)
	x ^= x >> 33
	x *= 0xff51afd7ed558ccd
	x ^= x >> 33
	return x
}

func (g *c20LCG) trit() int8 { return int8(g.next()>>32%3) - 1 }

// ---------------------------------------------------------------------------------------------
// corpus of bit-sliced states

type c20State struct{ l, h [c20N]uint64 }

type c20Item struct {
	name string
	gen  func() *c20State
}

func c20AllOnes() *c20State {
	s := &c20State{}
	for i := range s.l {
		s.l[i], s.h[i] = ^uint64(0), ^uint64(0)
	}
	return s
}

func c20RandomValid(seed uint64) *c20State {
	g := c20LCG(seed)
	s := &c20State{}
	for i := 0; i < c20N; i++ {
		for j := uint(0); j < 64; j++ {
			l, h := refcurl.Encode(g.trit())
			s.l[i] |= l << j
			s.h[i] |= h << j
		}
	}
	return s
}

// c20Corpus builds the structured corpus. step thins the two single-word families (1 = all words).
func c20Corpus(step int) []c20Item {
	var items []c20Item
	add := func(name string, gen func() *c20State) { items = append(items, c20Item{name, gen}) }
	add("all-ones (trit 0 everywhere)", c20AllOnes)
	add("all-zero words (invalid encoding everywhere)", func() *c20State { return &c20State{} })
	add("3-colour pattern state", func() *c20State {
		s := &c20State{}
		for i := 0; i < c20N; i++ {
			s.l[i], s.h[i] = bitexec.PatternWords(i)
		}
		return s
	})
	const mixed = 0x9E3779B97F4A7C15
	for w := 0; w < 2*c20N; w += step {
		w := w
		add(fmt.Sprintf("single word %d = %#x, rest all-ones", w, uint64(mixed)), func() *c20State {
			s := c20AllOnes()
			if w < c20N {
				s.l[w] = mixed
			} else {
				s.h[w-c20N] = mixed
			}
			return s
		})
	}
	for w := 0; w < 2*c20N; w += step {
		w := w
		add(fmt.Sprintf("single word %d = 0, rest all-ones", w), func() *c20State {
			s := c20AllOnes()
			if w < c20N {
				s.l[w] = 0
			} else {
				s.h[w-c20N] = 0
			}
			return s
		})
	}
	// the invalid (0,0) encoding next to uniform words: both words of one position cleared (all lanes / one lane), and
	// all-ones words at one position inside arbitrary words - word-level special cases of an implementation show here
	for w := 0; w < c20N; w += step {
		w := w
		add(fmt.Sprintf("position %d = (0,0) in all lanes, rest all-ones", w), func() *c20State {
			s := c20AllOnes()
			s.l[w], s.h[w] = 0, 0
			return s
		})
		add(fmt.Sprintf("position %d = (0,0) in lane %d, rest all-ones", w, w%64), func() *c20State {
			s := c20AllOnes()
			s.l[w] &^= 1 << uint(w%64)
			s.h[w] &^= 1 << uint(w%64)
			return s
		})
		add(fmt.Sprintf("position %d all-ones inside arbitrary words", w), func() *c20State {
			g := c20LCG(0xB0B0000 + uint64(w))
			s := &c20State{}
			for i := 0; i < c20N; i++ {
				s.l[i], s.h[i] = g.next(), g.next()
			}
			s.l[w], s.h[w] = ^uint64(0), ^uint64(0)
			return s
		})
	}
	for j := uint(0); j < 64; j++ {
		j := j
		add(fmt.Sprintf("one lane: lane %d random valid trits, other lanes trit 0", j), func() *c20State {
			g := c20LCG(0xC20 + uint64(j))
			s := c20AllOnes()
			for i := 0; i < c20N; i++ {
				l, h := refcurl.Encode(g.trit())
				s.l[i] = s.l[i]&^(1<<j) | l<<j
				s.h[i] = s.h[i]&^(1<<j) | h<<j
			}
			return s
		})
	}
	for k := 0; k < 50; k++ {
		k := k
		add(fmt.Sprintf("random valid state #%d", k), func() *c20State { return c20RandomValid(0x5EED0000 + uint64(k)) })
	}
	for k := 0; k < 20; k++ {
		k := k
		add(fmt.Sprintf("random arbitrary words #%d (invalid encodings included)", k), func() *c20State {
			g := c20LCG(0xA5B10000 + uint64(k))
			s := &c20State{}
			for i := 0; i < c20N; i++ {
				s.l[i], s.h[i] = g.next(), g.next()
			}
			return s
		})
	}
	return items
}

// c20Bufs lays a state out as the four buffers handed to transform; lto/hto get filler content so
// that a routine that forgets to write a word is noticed.
func c20Bufs(s *c20State) *[bitexec.NumBufs][c20N]uint64 {
	var b [bitexec.NumBufs][c20N]uint64
	b[bitexec.BufLFrom], b[bitexec.BufHFrom] = s.l, s.h
	for i := 0; i < c20N; i++ {
		b[bitexec.BufLTo][i] = 0xDEADBEEF00000000 | uint64(i)
		b[bitexec.BufHTo][i] = 0xFEEDFACE00000000 | uint64(i)
	}
	return &b
}

type c20Native func(lto, hto, lfrom, hfrom *[curl.StateSize]uint)

func c20RunNative(f c20Native, in *[bitexec.NumBufs][c20N]uint64) (out [bitexec.NumBufs][c20N]uint64) {
	var b [bitexec.NumBufs][curl.StateSize]uint
	for k := range b {
		for i := range b[k] {
			b[k][i] = uint(in[k][i])
		}
	}
	f(&b[bitexec.BufLTo], &b[bitexec.BufHTo], &b[bitexec.BufLFrom], &b[bitexec.BufHFrom])
	for k := range b {
		for i := range b[k] {
			out[k][i] = uint64(b[k][i])
		}
	}
	return out
}

// ---------------------------------------------------------------------------------------------
// digests compared between the default and the purego build

// c20Digests returns SHA-256 digests over (1) curl.VerifTransform outputs on the corpus and
// (2) hashes computed through the public API on deterministic batches. apiOut also returns the
// individual API hashes so that the parent can compare them with the reference.
type c20APICase struct {
	Batch, InLen, OutLen int
	In                   [][]int8
	Out                  [][]int8
}

func c20APICases() []c20APICase {
	var cases []c20APICase
	g := c20LCG(0xAB50)
	for _, batch := range []int{1, 2, 7, 33, 64} {
		for _, lens := range [][2]int{{243, 243}, {486, 243}, {243, 729}, {8019, 243}} {
			c := c20APICase{Batch: batch, InLen: lens[0], OutLen: lens[1]}
			for b := 0; b < batch; b++ {
				in := make([]int8, lens[0])
				for i := range in {
					in[i] = g.trit()
				}
				c.In = append(c.In, in)
			}
			cases = append(cases, c)
		}
	}
	return cases
}

func c20Digests(step int) (transform, api string, cases []c20APICase, err error) {
	ht := sha256.New()
	var buf [8]byte
	for _, it := range c20Corpus(step) {
		out := c20RunNative(curl.VerifTransform, c20Bufs(it.gen()))
		for _, b := range []int{bitexec.BufLTo, bitexec.BufHTo} {
			for i := 0; i < c20N; i++ {
				binary.LittleEndian.PutUint64(buf[:], out[b][i])
				ht.Write(buf[:])
			}
		}
	}
	ha := sha256.New()
	cases = c20APICases()
	for k := range cases {
		cs := &cases[k]
		c := curl.NewCurlP81()
		src := make([]trinary.Trits, cs.Batch)
		for b := range src {
			src[b] = append(trinary.Trits(nil), cs.In[b]...)
		}
		if e := c.Absorb(src, cs.InLen); e != nil {
			return "", "", nil, fmt.Errorf("Absorb: %v", e)
		}
		dst := make([]trinary.Trits, cs.Batch)
		if e := c.Squeeze(dst, cs.OutLen); e != nil {
			return "", "", nil, fmt.Errorf("Squeeze: %v", e)
		}
		for b := range dst {
			cs.Out = append(cs.Out, []int8(dst[b]))
			for _, t := range dst[b] {
				ha.Write([]byte{byte(t)})
			}
		}
	}
	return hex.EncodeToString(ht.Sum(nil)), hex.EncodeToString(ha.Sum(nil)), cases, nil
}

func c20Step(tier string) int {
	if tier == "quick" {
		return 8
	}
	return 1
}

// runC20Purego is the helper executed inside build/vcheck-purego. It prints one line with the
// digests and whether the binary really is a purego build.
func runC20Purego(c *core.Ctx) {
	c.Rule = "helper of C20: digest of curl.VerifTransform outputs and public-API hashes in this build; decides nothing"
	c.Set("explanation", "helper process of check C20 (prints digests of this build variant); not a check")
	tr, api, cases, err := c20Digests(c20Step(c.Tier))
	if err != nil {
		c.Abort("C20purego: %v", err)
		return
	}
	c.Eval(int64(len(cases)))
	c.NonTrivial(int64(len(cases)))
	c.Sample(map[string]string{"transform": tr, "api": api})
	fmt.Printf("C20PUREGO purego=%v transform=%s api=%s\n", bitexec.PureGo, tr, api)
}

var c20ChildRe = regexp.MustCompile(`(?m)^C20PUREGO purego=(true|false) transform=([0-9a-f]{64}) api=([0-9a-f]{64})$`)

// c20RunChild runs the purego helper; found == false means the binary is not there.
func c20RunChild(tier string) (found bool, purego bool, tr, api string, err error) {
	bin := filepath.Join(core.VerifDir, "build", "vcheck-purego")
	if _, e := os.Stat(bin); e != nil {
		return false, false, "", "", nil
	}
	tmp, e := os.MkdirTemp("", "c20purego")
	if e != nil {
		return true, false, "", "", e
	}
	defer os.RemoveAll(tmp)
	ctx, cancel := context.WithTimeout(context.Background(), 5*time.Minute)
	defer cancel()
	cmd := exec.CommandContext(ctx, bin, "C20purego", tier)
	// the child writes its (meaningless) evidence file below VERIF_DIR: send it to a scratch dir
	cmd.Env = append(os.Environ(), "VERIF_DIR="+tmp)
	var out, errb bytes.Buffer
	cmd.Stdout, cmd.Stderr = &out, &errb
	if e := cmd.Run(); e != nil {
		return true, false, "", "", fmt.Errorf("%s C20purego %s: %v; stderr: %s; stdout: %s", bin, tier, e, errb.String(), out.String())
	}
	mm := c20ChildRe.FindStringSubmatch(out.String())
	if mm == nil {
		return true, false, "", "", fmt.Errorf("no digest line in the helper's output: %q", out.String())
	}
	return true, mm[1] == "true", mm[2], mm[3], nil
}

// ---------------------------------------------------------------------------------------------
// reference validation

type c20Vector struct {
	In   string `json:"in"`
	Hash string `json:"hash"`
}

// c20CheckReference validates the one-lane reference: internal consistency, the repository's hash
// vectors, and iota.go's unbatched Curl on deterministic inputs. Any failure is a machinery failure.
func c20CheckReference(c *core.Ctx) (vectors int, ok bool) {
	if err := refcurl.SelfCheck(); err != nil {
		c.Abort("C20 reference self-check: %v", err)
		return 0, false
	}
	if err := bitexec.PatternSelfCheck(); err != nil {
		c.Abort("C20 pattern self-check: %v", err)
		return 0, false
	}
	b, err := os.ReadFile(filepath.Join(core.RepoDir, "pkg/curl/testdata/curlp81.json"))
	if err != nil {
		c.Set("reference_vector_file", "pkg/curl/testdata/curlp81.json not readable: only the iota.go cross-check was done")
	} else {
		var vs []c20Vector
		if e := json.Unmarshal(b, &vs); e != nil {
			c.Abort("C20: cannot parse testdata/curlp81.json: %v", e)
			return 0, false
		}
		for i, v := range vs {
			in, e1 := refcurl.TrytesToTrits(v.In)
			want, e2 := refcurl.TrytesToTrits(v.Hash)
			if e1 != nil || e2 != nil {
				c.Abort("C20: vector %d is not trytes", i)
				return 0, false
			}
			got, e := refcurl.Sum(in, len(want))
			if e != nil || !bytes.Equal(c20Bytes(got), c20Bytes(want)) {
				c.Abort("C20: the one-lane reference fails hash vector %d of testdata/curlp81.json (%v)", i, e)
				return 0, false
			}
			vectors++
		}
	}
	g := c20LCG(0x1E57)
	for k := 0; k < 24; k++ {
		inLen := 243 * (1 + k%4)
		outLen := 243 * (1 + k%3)
		in := make([]int8, inLen)
		for i := range in {
			in[i] = g.trit()
		}
		want, _ := refcurl.Sum(in, outLen)
		sp := iotacurl.NewCurlP81()
		if e := sp.Absorb(append(trinary.Trits(nil), in...)); e != nil {
			c.Abort("C20: iota.go Absorb: %v", e)
			return 0, false
		}
		got, e := sp.Squeeze(outLen)
		if e != nil || !bytes.Equal(c20Bytes(got), c20Bytes(want)) {
			c.Abort("C20: the one-lane reference disagrees with iota.go/curl on deterministic input %d (%v)", k, e)
			return 0, false
		}
		vectors++
	}
	return vectors, true
}

func c20Bytes(t []int8) []byte {
	b := make([]byte, len(t))
	for i, x := range t {
		b[i] = byte(x)
	}
	return b
}

// ---------------------------------------------------------------------------------------------
// front ends

type c20Front struct {
	name   string
	run    func(m *bitexec.Machine) // nil: could not be loaded
	loadEr string
	sym    *bitexec.Machine
}

func c20LoadFronts() (asm, gen *c20Front, info map[string]interface{}, alternate bool) {
	info = map[string]interface{}{}
	asmPath := filepath.Join(core.RepoDir, c20AsmRel)
	if p := os.Getenv("VERIF_C20_ASM"); p != "" {
		asmPath, alternate = p, true
		info["alternate_asm"] = p
	}
	asm = &c20Front{name: "asm"}
	if prog, err := bitexec.ParseAsmFile(asmPath, "·transform"); err != nil {
		asm.loadEr = err.Error()
	} else {
		asm.run = prog.Run
		info["asm_instructions_in_text"] = len(prog.Instrs)
		if u := prog.UnmodelledInstrs(); len(u) > 0 {
			info["asm_not_modelled_in_text"] = u
		}
		info["asm_listing"] = prog.Listing()
	}
	var overlay map[string][]byte
	if p := os.Getenv("VERIF_C20_GOSRC"); p != "" {
		alternate = true
		info["alternate_gosrc"] = p
		if b, err := os.ReadFile(p); err == nil {
			abs, _ := filepath.Abs(filepath.Join(core.RepoDir, c20GoRel))
			overlay = map[string][]byte{abs: b}
		} else {
			info["alternate_gosrc_error"] = err.Error()
		}
	}
	gen = &c20Front{name: "generic"}
	if prog, err := bitexec.LoadGeneric(core.RepoDir, c20Pkg, "transformGeneric", overlay); err != nil {
		gen.loadEr = err.Error()
	} else {
		gen.run = prog.Run
		info["generic_ssa"] = prog.SSAText
		if u := prog.UnmodelledInstrs(); len(u) > 0 {
			info["generic_not_modelled_in_ssa"] = u
		}
		var files []string
		for _, f := range prog.Files {
			files = append(files, filepath.Base(f))
		}
		sort.Strings(files)
		info["default_build_go_files"] = files
	}
	return asm, gen, info, alternate
}

// ---------------------------------------------------------------------------------------------
// main check

type c20Diff struct {
	Item     string `json:"corpus_item"`
	Compared string `json:"compared"`
	Buffer   string `json:"buffer"`
	Index    int    `json:"index"`
	Got      string `json:"got"`
	Want     string `json:"want"`
	state    *c20State
}

func c20FirstDiff(a, b *[bitexec.NumBufs][c20N]uint64, bufs []int) (buf, idx int, differs bool) {
	for _, k := range bufs {
		for i := 0; i < c20N; i++ {
			if a[k][i] != b[k][i] {
				return k, i, true
			}
		}
	}
	return 0, 0, false
}

var (
	c20ResultBufs = []int{bitexec.BufLTo, bitexec.BufHTo}
	c20AllBufs    = []int{bitexec.BufLTo, bitexec.BufHTo, bitexec.BufLFrom, bitexec.BufHFrom}
)

func runC20(c *core.Ctx) {
	c.Assume = []string{
		"the executor's semantics of the amd64 integer instructions used (MOVQ, XORQ, ANDQ, ORQ, NOTQ, XCHGQ, ADDQ, SUBQ, CMPQ, DECQ, JL, JNZ, RET and the addressing mode disp(base)(index*8)) and of 12 go/ssa instruction kinds; bound to the binaries only by the conformance corpus",
		"the Go assembler encodes the Plan-9 text faithfully and the CPU executes it as documented; the Go compiler implements the semantics go/ssa models",
		"the four *[729]uint arguments are four distinct arrays (how curl.go calls transform); overlapping arguments are outside the property",
		"uint is 64 bits wide (amd64)",
		"the default build on amd64 selects transform_amd64.s and the purego tag selects transform_noasm.go (go build constraints; the selected Go files are recorded under default_build_go_files, the helper binary reports its tag)",
	}
	c.Rule = "enumeration: the single control path of each routine (assembly text; go/ssa of transformGeneric+sBox), every instruction executed, every memory access checked against the four 729-word buffers; per round (81) x output position (729) x s-box input row (16 = all values of aL,aH,bL,bH, spread over the 64 lanes by a 3-colour pattern) the two output bits are compared with the s-box truth table, after checking that the output word is lane-wise and depends only on the four words the definition names. " +
		"non-trivial = every such table row (distinct by construction: front end, round, position, row) plus every distinct corpus state (by SHA-256) on which executor results, native assembly, native portable code, the bit-level definition and (valid encodings) 64 x the one-lane trit reference were compared"

	vectors, ok := c20CheckReference(c)
	if !ok {
		return
	}
	c.Set("reference_vectors_passed", int64(vectors))

	asm, gen, info, alternate := c20LoadFronts()
	for k, v := range info {
		c.Set(k, v)
	}
	var unsupported []string
	for _, fe := range []*c20Front{asm, gen} {
		if fe.loadEr != "" {
			unsupported = append(unsupported, "unsupported:"+fe.name+": cannot load: "+fe.loadEr)
		}
	}
	if bitexec.PureGo {
		unsupported = append(unsupported, "unsupported: this binary is a purego build, curl.VerifTransform is not the assembly here")
	}

	// ---- deciding step: symbolic run of both front ends (in parallel) ----
	var wg sync.WaitGroup
	for _, fe := range []*c20Front{asm, gen} {
		if fe.run == nil {
			continue
		}
		fe := fe
		wg.Add(1)
		go func() {
			defer wg.Done()
			m := bitexec.NewMachine(fe.name, true)
			if p := core.Catch(func() { fe.run(m) }); p != nil {
				m.Unsupported(fmt.Sprintf("executor panic: %v", p))
			}
			fe.sym = m
		}()
	}
	wg.Wait()

	var states, transitions int64
	exhaustive := !alternate && !bitexec.PureGo
	outcomes := map[string]bool{}
	for _, fe := range []*c20Front{asm, gen} {
		m := fe.sym
		if m == nil {
			exhaustive = false
			c.Set(fe.name+"_exhaustive", false)
			continue
		}
		feExh := m.Exhaustive() && m.CleanRnds == refcurl.Rounds
		c.Set(fe.name+"_exhaustive", feExh)
		c.Set(fe.name+"_rounds_verified", int64(m.CleanRnds))
		c.Set(fe.name+"_rounds_seen", int64(m.Rounds))
		c.Set(fe.name+"_instructions_executed", m.Steps)
		c.Set(fe.name+"_table_rows", m.TableRows/2)
		c.Set(fe.name+"_buffer_loads_checked", m.LoadCount)
		c.Set(fe.name+"_buffer_stores_checked", m.StoreCount)
		c.Set(fe.name+"_truth_tables_seen", m.OutcomeList())
		if m.Stopped {
			c.Set(fe.name+"_stopped", m.StopWhy)
		}
		for _, o := range m.OutcomeList() {
			outcomes[strings.Fields(o)[0]] = true
		}
		exhaustive = exhaustive && feExh
		states += m.TableRows / 2
		transitions += m.Steps
		c.Eval(m.TableRows / 2)
		c.NonTrivial(m.TableRows / 2)
		unsupported = append(unsupported, c20PrefixAll(fe.name+": ", m.Unsup)...)
		for _, s := range m.Samples {
			c.Sample(s)
		}
		var notes []string
		for _, f := range m.Findings() {
			if !f.Violation {
				notes = append(notes, fmt.Sprintf("%s x%d: %s", f.Key, f.Count, f.What))
				continue
			}
			fe, key := fe, f.Key
			c.Violate("C20/"+fe.name+"/"+f.Key, fmt.Sprintf("%s (first of %d cases in this class)", f.What, f.Count), f.Case, "",
				func() bool { // re-execute the front end from scratch: the class must show up again
					m2 := bitexec.NewMachine(fe.name, true)
					fe.run(m2)
					for _, f2 := range m2.Findings() {
						if f2.Key == key && f2.Violation {
							return true
						}
					}
					return false
				})
			for k := int64(1); k < f.Count; k++ { // make the class size visible in the verdict line
				c.Violate("C20/"+fe.name+"/"+key, "", nil, "", nil)
			}
		}
		if len(notes) > 0 {
			c.Set(fe.name+"_notes", notes)
		}
	}
	c.Set("rounds_verified", int64(c20MinRounds(asm, gen)))
	c.Set("distinct_outcomes", int64(len(outcomes)))

	// ---- conformance: model <-> binaries <-> references on the corpus ----
	items := c20Corpus(c20Step(c.Tier))
	type res struct {
		done    bool
		digest  [32]byte
		steps   int64
		diffs   []c20Diff
		refFail string
	}
	results := make([]res, len(items))
	core.Par(len(items), func(i int) {
		if c.OverBudget() {
			return
		}
		r := &results[i]
		s := items[i].gen()
		in := c20Bufs(s)
		h := sha256.New()
		binary.Write(h, binary.LittleEndian, s.l[:])
		binary.Write(h, binary.LittleEndian, s.h[:])
		copy(r.digest[:], h.Sum(nil))

		// references: bit-level definition for every state, trit reference where encodings are valid
		var ref [bitexec.NumBufs][c20N]uint64
		ref[bitexec.BufLTo], ref[bitexec.BufHTo] = s.l, s.h
		refcurl.BitTransform(&ref[bitexec.BufLTo], &ref[bitexec.BufHTo])
		if refcurl.Valid(&s.l, &s.h) {
			tl, th, err := refcurl.LaneTransform(&s.l, &s.h)
			if err != nil || tl != ref[bitexec.BufLTo] || th != ref[bitexec.BufHTo] {
				r.refFail = fmt.Sprintf("bit-level reference and 64 x one-lane trit reference disagree on %q (%v)", items[i].name, err)
				return
			}
		}
		diff := func(what string, got, want *[bitexec.NumBufs][c20N]uint64, bufs []int) {
			if b, k, d := c20FirstDiff(got, want, bufs); d {
				r.diffs = append(r.diffs, c20Diff{Item: items[i].name, Compared: what, Buffer: bitexec.BufName(b), Index: k,
					Got: fmt.Sprintf("%#016x", got[b][k]), Want: fmt.Sprintf("%#016x", want[b][k]), state: s})
			}
		}
		natAsm := c20RunNative(curl.VerifTransform, in)
		natGen := c20RunNative(curl.VerifTransformGeneric, in)
		diff("native/transform-vs-reference", &natAsm, &ref, c20ResultBufs)
		diff("native/generic-vs-reference", &natGen, &ref, c20ResultBufs)
		diff("native/transform-vs-generic", &natAsm, &natGen, c20ResultBufs)
		for _, fe := range []*c20Front{asm, gen} {
			if fe.run == nil {
				continue
			}
			m := bitexec.NewMachine(fe.name, false)
			m.SetConcrete(in)
			if p := core.Catch(func() { fe.run(m) }); p != nil {
				m.Unsupported(fmt.Sprintf("executor panic: %v", p))
			}
			r.steps += m.Steps
			out, defined := m.Concrete()
			if !m.Finished || !defined {
				// the executor could not run this routine to the end (unsupported construct, rejected
				// access): nothing to compare; the symbolic run has reported why
				continue
			}
			nat := &natAsm
			if fe.name == "generic" {
				nat = &natGen
			}
			diff("conformance/"+fe.name+"-model-vs-binary", &out, nat, c20AllBufs)
			diff("conformance/"+fe.name+"-model-vs-reference", &out, &ref, c20ResultBufs)
		}
		r.done = true
	})
	// report sequentially, in corpus order, so that the output is deterministic
	distinct := map[[32]byte]bool{}
	var compared, concreteSteps int64
	for i := range results {
		r := &results[i]
		if r.refFail != "" {
			c.Abort("C20: %s", r.refFail)
			return
		}
		if !r.done {
			continue
		}
		compared++
		concreteSteps += r.steps
		distinct[r.digest] = true
		for _, d := range r.diffs {
			d := d
			key := "C20/" + d.Compared
			if alternate && strings.HasPrefix(d.Compared, "conformance/") && strings.HasSuffix(d.Compared, "-model-vs-binary") {
				// expected with VERIF_C20_ASM / VERIF_C20_GOSRC: the binary is built from the real tree
				key += "(alternate-source)"
			}
			c.Violate(key, fmt.Sprintf("%s: on corpus state %q word %s[%d] is %s, expected %s", d.Compared, d.Item, d.Buffer, d.Index, d.Got, d.Want),
				d, c20GoTest(d), nil)
		}
	}
	c.Eval(compared)
	c.NonTrivial(int64(len(distinct)))
	c.Set("corpus_states", int64(len(items)))
	c.Set("corpus_states_compared", compared)
	c.Set("corpus_thinning_step", int64(c20Step(c.Tier)))
	c.Set("concrete_instructions_executed", concreteSteps)
	c.Sample(map[string]interface{}{"corpus_items": []string{items[0].name, items[1].name, items[2].name, items[3].name, items[len(items)-1].name}})

	// ---- public API hashes against the reference, and default build vs purego build ----
	tr, api, cases, err := c20Digests(c20Step(c.Tier))
	if err != nil {
		c.Abort("C20: public API failed on a well-formed batch: %v", err)
		return
	}
	var apiHashes int64
	for _, cs := range cases {
		for b := 0; b < cs.Batch; b++ {
			want, _ := refcurl.Sum(cs.In[b], cs.OutLen)
			apiHashes++
			if !bytes.Equal(c20Bytes(cs.Out[b]), c20Bytes(want)) {
				c.Violate("C20/api/hash-vs-reference", fmt.Sprintf("batch of %d, %d trits in, %d out: hash of lane %d differs from the one-lane reference", cs.Batch, cs.InLen, cs.OutLen, b),
					map[string]interface{}{"batch": cs.Batch, "in_len": cs.InLen, "out_len": cs.OutLen, "lane": b, "in": cs.In[b], "got": cs.Out[b], "want": want}, "", nil)
			}
		}
	}
	c.Eval(apiHashes)
	c.Set("api_hashes_compared_with_reference", apiHashes)
	found, childPure, ctr, capi, cerr := c20RunChild(c.Tier)
	switch {
	case !found:
		exhaustive = false
		c.Set("purego_helper", "build/vcheck-purego not found: purego comparison skipped")
	case cerr != nil:
		c.Abort("C20: purego helper failed: %v", cerr)
		return
	case !childPure:
		exhaustive = false
		c.Set("purego_helper", "build/vcheck-purego reports it was built without the purego tag: comparison skipped")
	default:
		c.Set("purego_helper", "ran")
		c.Set("digest_default_build", map[string]string{"transform": tr, "api": api})
		c.Set("digest_purego_build", map[string]string{"transform": ctr, "api": capi})
		if ctr != tr || capi != api {
			c.Violate("C20/purego/differs", fmt.Sprintf("digests differ between the default build (transform=%s api=%s) and the purego build (transform=%s api=%s)", tr, api, ctr, capi),
				map[string]string{"default_transform": tr, "purego_transform": ctr, "default_api": api, "purego_api": capi}, "",
				func() bool {
					_, _, t2, a2, e := c20RunChild(c.Tier)
					return e == nil && (t2 != tr || a2 != api)
				})
		}
	}

	if len(unsupported) > 0 {
		exhaustive = false
		c.Set("unsupported", unsupported)
	} else {
		c.Set("unsupported", []string{})
	}
	if states == 0 || transitions == 0 {
		// neither front end could run: nothing was model checked; the evidence then carries only the
		// corpus counts (the schema wants states/transitions >= 1 when they are present)
		c.Set("model_checking_skipped", true)
	} else {
		c.Set("states", states)
		c.Set("transitions", transitions)
	}
	c.Set("traces_validated_against_impl", compared)
	c.SetExhaustive(exhaustive)
}

func c20MinRounds(fes ...*c20Front) int {
	min := refcurl.Rounds
	for _, fe := range fes {
		r := 0
		if fe.sym != nil {
			r = fe.sym.CleanRnds
		}
		if r < min {
			min = r
		}
	}
	return min
}

func c20PrefixAll(p string, s []string) []string {
	out := make([]string, len(s))
	for i, x := range s {
		out[i] = p + x
	}
	return out
}

// c20GoTest renders a plain Go test (package curl, build tag verif) that reproduces a difference
// between the native routines on a corpus state.
func c20GoTest(d c20Diff) string {
	if !strings.HasPrefix(d.Compared, "native/") || d.state == nil {
		return ""
	}
	var sb strings.Builder
	lit := func(name string, w *[c20N]uint64) {
		fmt.Fprintf(&sb, "\t%s := [729]uint{", name)
		for i, x := range w {
			if i%6 == 0 {
				sb.WriteString("\n\t\t")
			}
			fmt.Fprintf(&sb, "%#x, ", x)
		}
		sb.WriteString("\n\t}\n")
	}
	sb.WriteString("//go:build verif\n\npackage curl\n\nimport \"testing\"\n\n")
	sb.WriteString("// corpus state: " + d.Item + "; compared: " + d.Compared + "\n")
	sb.WriteString("func TestC20Replay(t *testing.T) {\n")
	lit("l", &d.state.l)
	lit("h", &d.state.h)
	sb.WriteString("\tl1, h1, l2, h2 := l, h, l, h // both routines use their source buffers as scratch\n")
	sb.WriteString("\tvar al, ah, gl, gh [729]uint\n")
	sb.WriteString("\tVerifTransform(&al, &ah, &l1, &h1)\n\tVerifTransformGeneric(&gl, &gh, &l2, &h2)\n")
	sb.WriteString("\tif al != gl || ah != gh {\n\t\tt.Error(\"assembly and portable permutation differ\")\n\t}\n")
	arr := map[string]string{"lto": "l", "hto": "h"}[d.Buffer]
	pre := "a"
	if d.Compared == "native/generic-vs-reference" {
		pre = "g"
	}
	fmt.Fprintf(&sb, "\t// expected value: %s\n", map[bool]string{true: "the portable routine's word", false: "81 rounds of new[i] = sbox(old[idx(i)], old[idx(i+1)]) per lane"}[d.Compared == "native/transform-vs-generic"])
	fmt.Fprintf(&sb, "\tif got := %s%s[%d]; got != %s {\n\t\tt.Errorf(\"%s[%d] = %%#x, expected %s\", got)\n\t}\n",
		pre, arr, d.Index, d.Want, d.Buffer, d.Index, d.Want)
	sb.WriteString("}\n")
	return sb.String()
}
