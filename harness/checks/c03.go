package checks

import (
	"bytes"
	"crypto/sha256"
	"encoding/hex"
	"errors"
	"fmt"
	"strings"
	"sync/atomic"

	"github.com/wollac/iota-crypto-demo/pkg/bip39"

	"verifharness/core"
	rb39 "verifharness/ref/bip39"
)

func init() {
	core.Register(core.Check{ID: "C03", Level: "exploration", Run: func(c *core.Ctx) {
		waitArch := background(func() { arch386Pass(c, "C03") })
		runC03(c)
		historyPass(c, "C03")
		reentrancyPass(c, "C03")
		waitArch()
	}})
}

// official BIP-39 word list files (bitcoin/bips bip-0039/*.txt), SHA-256
var c03ListHash = map[string]string{
	"english":  "2f5eed53a4727b4bf8880d8f3f199efc90e58503646d9ff8eff3a2ed3b24dbda",
	"japanese": "2eed0aef492291e061633d7ad8117f1a2b03eb80a29d0e4e3117ac2528d05ffd",
}

// c03ReadList reads all 2048 words of the currently selected list through the public API: the first word of the
// sentence of an entropy whose first 11 bits are the index.
func c03ReadList(c *core.Ctx, lang string) []string {
	words := make([]string, 2048)
	for i := 0; i < 2048; i++ {
		e := make([]byte, 16)
		e[0] = byte(i >> 3)
		e[1] = byte(i&7) << 5
		m, err := bip39.EntropyToMnemonic(e)
		if err != nil || len(m) != 12 {
			c.Violate("C03/"+lang+"/wordlist/read", fmt.Sprintf("EntropyToMnemonic(%x): %v %v", e, m, err), i, "", nil)
			return nil
		}
		words[i] = m[0]
	}
	return words
}

func c03Key(lang, tag, class string, e []byte) string {
	lz := ""
	if len(e) > 0 && e[0] == 0 && !bytes.Equal(e, make([]byte, len(e))) {
		lz = "/leading-zero-byte"
	}
	return "C03/" + lang + "/" + tag + "/" + class + lz
}

func runC03(c *core.Ctx) {
	th := c.Thorough()
	c.Rule = "per word list: word list read index by index (SHA-256 of the official file); entropy lengths 0..70; per allowed length: 6 base entropies, every position x all 256 byte values on all-00 and all-FF, every position pair x {00,01,7F,80,FF}^2; decode: per word count every position x all 2048 words and position pairs x a 12-word alphabet on a valid sentence, counts 0..51, out-of-list and other-list words; E2: all sequences of length <=4 over {Set(english),Set(japanese),Set(unknown),Enc,Dec(en),Dec(ja)}; non-trivial = distinct entropies round-tripped + distinct sentences the reference accepts"
	var nontriv atomic.Int64
	lens := []int{16, 20, 32, 64}
	if th {
		lens = []int{16, 20, 24, 28, 32, 36, 40, 44, 48, 52, 56, 60, 64}
	}
	lists := map[string][]string{}
	for _, lang := range []string{"english", "japanese"} {
		if err := bip39.SetWordList(lang); err != nil {
			c.Violate("C03/"+lang+"/setwordlist", err.Error(), lang, "", nil)
			continue
		}
		words := c03ReadList(c, lang)
		if words == nil {
			continue
		}
		lists[lang] = words
		sum := sha256.Sum256([]byte(strings.Join(words, "\n") + "\n"))
		c.Eval(2048)
		if hex.EncodeToString(sum[:]) != c03ListHash[lang] {
			c.Violate("C03/"+lang+"/wordlist/not-official", fmt.Sprintf("SHA-256 of the %s list read through the API is %x, official file %s", lang, sum, c03ListHash[lang]), lang, "", nil)
		}
		index := map[string]int{}
		for i, w := range words {
			index[w] = i
		}
		if len(index) != 2048 {
			c.Violate("C03/"+lang+"/wordlist/duplicates", "duplicate words", lang, "", nil)
		}
		toWords := func(idx []int) bip39.Mnemonic {
			m := make(bip39.Mnemonic, len(idx))
			for i, v := range idx {
				m[i] = words[v]
			}
			return m
		}

		// ---- encode direction + round trip ----
		judgeEntropy := func(e []byte, tag string) {
			c.Eval(1)
			var m bip39.Mnemonic
			var err error
			in := append([]byte{}, e...)
			p := core.Catch(func() { m, err = bip39.EntropyToMnemonic(in) })
			cas := map[string]interface{}{"list": lang, "entropy": hex.EncodeToString(e)}
			gt := fmt.Sprintf("func TestC03(t *testing.T) { e, _ := hex.DecodeString(%q); m, err := bip39.EntropyToMnemonic(e); if err != nil { t.Fatal(err) }; back, err := bip39.MnemonicToEntropy(m); if err != nil || !bytes.Equal(back, e) { t.Fatalf(\"round trip: %%x %%v\", back, err) } }", hex.EncodeToString(e))
			if p != nil {
				c.Violate(c03Key(lang, tag, "encode-panic", e), fmt.Sprint(p), cas, gt, nil)
				return
			}
			if !rb39.ValidEntropyLen(len(e)) {
				if err == nil || m != nil {
					c.Violate(c03Key(lang, tag, "bad-size-accepted", nil), fmt.Sprintf("%d-byte entropy accepted", len(e)), cas, gt, nil)
				} else if !errors.Is(err, bip39.ErrInvalidEntropySize) {
					c.Violate(c03Key(lang, tag, "bad-size-error", nil), fmt.Sprintf("%d-byte entropy: error %v, want ErrInvalidEntropySize", len(e), err), cas, gt, nil)
				}
				return
			}
			if err != nil {
				c.Violate(c03Key(lang, tag, "encode-error", e), err.Error(), cas, gt, nil)
				return
			}
			want := toWords(rb39.Indices(e))
			if strings.Join(m, " ") != strings.Join(want, " ") {
				c.Violate(c03Key(lang, tag, "wrong-sentence", e), fmt.Sprintf("EntropyToMnemonic(%x) = %q, BIP-39: %q", e, m.String(), want.String()), cas, gt, nil)
				return
			}
			if !bytes.Equal(in, e) {
				c.Violate(c03Key(lang, tag, "input-modified", e), "entropy modified", cas, gt, nil)
			}
			var back []byte
			p = core.Catch(func() { back, err = bip39.MnemonicToEntropy(m) })
			if p != nil {
				c.Violate(c03Key(lang, tag, "decode-panic", e), fmt.Sprint(p), cas, gt, nil)
			} else if err != nil || !bytes.Equal(back, e) {
				c.Violate(c03Key(lang, tag, "roundtrip", e), fmt.Sprintf("MnemonicToEntropy(EntropyToMnemonic(%x)) = %x, %v", e, back, err), cas, gt, func() bool {
					m2, _ := bip39.EntropyToMnemonic(e)
					b2, e2 := bip39.MnemonicToEntropy(m2)
					return e2 != nil || !bytes.Equal(b2, e)
				})
			}
			nontriv.Add(1)
		}
		for n := 0; n <= 70; n++ {
			judgeEntropy(make([]byte, n), "size")
			judgeEntropy(bytes.Repeat([]byte{0xFF}, n), "size")
		}
		heavy := map[int]bool{}
		for _, n := range lens {
			heavy[n] = true
		}
		for n := 16; n <= 64; n += 4 { // every allowed length: bases and d1; the pair enumeration on the lengths of this tier
			n := n
			ramp := make([]byte, n)
			for i := range ramp {
				ramp[i] = byte(i*17 + 3)
			}
			b1 := make([]byte, n)
			b1[n-1] = 1
			b2 := make([]byte, n)
			b2[0] = 1
			b3 := make([]byte, n)
			b3[0] = 0x80
			for _, e := range [][]byte{ramp, b1, b2, b3} {
				judgeEntropy(e, "base")
			}
			core.Par(n, func(pos int) {
				for _, fill := range []byte{0x00, 0xFF} {
					for v := 0; v < 256; v++ {
						e := bytes.Repeat([]byte{fill}, n)
						e[pos] = byte(v)
						judgeEntropy(e, "d1")
					}
					for q := pos + 1; q < n && heavy[n]; q++ {
						for _, a := range []byte{0x00, 0x01, 0x7F, 0x80, 0xFF} {
							for _, b := range []byte{0x00, 0x01, 0x7F, 0x80, 0xFF} {
								if a == fill && b == fill {
									continue
								}
								e := bytes.Repeat([]byte{fill}, n)
								e[pos], e[q] = a, b
								judgeEntropy(e, "d2")
							}
						}
					}
				}
			})
		}
		c.Sample(map[string]interface{}{"list": lang, "entropy": "00010000000000000000000000000007"})

		// ---- decode direction on word indices ----
		judgeWords := func(m bip39.Mnemonic, idx []int, tag string) {
			// idx[i] < 0 means "not in the list"
			c.Eval(1)
			inList := true
			for _, v := range idx {
				if v < 0 {
					inList = false
				}
			}
			var wantE []byte
			countOK, csOK := rb39.ValidWordCount(len(idx)), false
			if countOK && inList {
				wantE, _, csOK = rb39.FromIndices(idx)
			}
			var got []byte
			var err error
			p := core.Catch(func() { got, err = bip39.MnemonicToEntropy(m) })
			cas := map[string]interface{}{"list": lang, "sentence": m.String()}
			key := "C03/" + lang + "/" + tag
			if p != nil {
				c.Violate(key+"/decode-panic", fmt.Sprintf("MnemonicToEntropy(%q) panicked: %v", m.String(), p), cas, "", nil)
				return
			}
			accept := countOK && inList && csOK
			if accept {
				nontriv.Add(1)
				if err != nil || !bytes.Equal(got, wantE) {
					lz := ""
					if wantE[0] == 0 {
						lz = "/leading-zero-byte"
					}
					c.Violate(key+"/reject-valid"+lz, fmt.Sprintf("MnemonicToEntropy(%q) = %x, %v; BIP-39: valid, entropy %x", m.String(), got, err, wantE), cas, "", nil)
					return
				}
				re, e2 := bip39.EntropyToMnemonic(got)
				if e2 != nil || re.String() != m.String() {
					c.Violate(key+"/not-canonical", fmt.Sprintf("accepted %q re-encodes to %q", m.String(), re.String()), cas, "", nil)
				}
				return
			}
			if err == nil {
				c.Violate(key+"/accept-invalid", fmt.Sprintf("MnemonicToEntropy(%q) = %x accepted (count ok %v, words in list %v, checksum ok %v)", m.String(), got, countOK, inList, csOK), cas, "", nil)
				return
			}
			if got != nil {
				c.Violate(key+"/entropy-with-error", "entropy returned together with an error", cas, "", nil)
			}
			want := bip39.ErrInvalidChecksum
			if !countOK || !inList {
				want = bip39.ErrInvalidMnemonic
			}
			if !errors.Is(err, want) {
				c.Violate(key+"/wrong-error", fmt.Sprintf("MnemonicToEntropy(%q): %v, want %v", m.String(), err, want), cas, "", nil)
			}
		}
		counts := []int{12, 15, 24, 48}
		if th {
			counts = []int{12, 15, 18, 21, 24, 27, 30, 33, 36, 39, 42, 45, 48}
		}
		alpha12 := []int{0, 1, 2, 3, 1023, 1024, 1025, 2045, 2046, 2047, 682, 1365}
		for _, wc := range counts {
			ent := make([]byte, wc*4/3)
			for i := range ent {
				ent[i] = byte(i*29 + wc)
			}
			base := rb39.Indices(ent)
			core.Par(wc, func(pos int) {
				idx := append([]int{}, base...)
				for w := 0; w < 2048; w++ {
					idx[pos] = w
					judgeWords(toWords(idx), idx, "d1")
				}
				idx[pos] = base[pos]
				for q := pos + 1; q < wc; q++ {
					for _, a := range alpha12 {
						for _, b := range alpha12 {
							idx[pos], idx[q] = a, b
							judgeWords(toWords(idx), idx, "d2")
						}
					}
					idx[q] = base[q]
				}
			})
			// zero-entropy neighbourhood (leading zero words) as well
			zb := rb39.Indices(make([]byte, wc*4/3))
			for pos := 0; pos < wc; pos++ {
				idx := append([]int{}, zb...)
				for w := 0; w < 2048; w += 1 {
					idx[pos] = w
					judgeWords(toWords(idx), idx, "d1z")
				}
			}
			// one out-of-list word at every position
			other := "japanese"
			if lang == "japanese" {
				other = "english"
			}
			for pos := 0; pos < wc; pos++ {
				w0 := words[base[pos]]
				for _, bad := range []string{"", "notaword", strings.ToUpper(w0), w0 + " ", " " + w0, "\x00", rb39.ComposeKana(w0), w0 + "\u3099", w0 + "\u200b", w0[:len(w0)-1], "zoó"} {
					if _, in := index[bad]; in {
						continue
					}
					m := toWords(base)
					m[pos] = bad
					idx := append([]int{}, base...)
					idx[pos] = -1
					judgeWords(m, idx, "foreign")
				}
				if ow, ok := lists[other]; ok {
					m := toWords(base)
					m[pos] = ow[base[pos]]
					idx := append([]int{}, base...)
					if _, in := index[m[pos]]; !in {
						idx[pos] = -1
						judgeWords(m, idx, "other-list")
					}
				}
			}
		}
		for wc := 0; wc <= 51; wc++ {
			for _, w := range []int{0, 2047, 1000} {
				idx := make([]int, wc)
				for i := range idx {
					idx[i] = w
				}
				judgeWords(toWords(idx), idx, "count")
			}
		}
		judgeWords(nil, nil, "count")
	}
	c.Sample(map[string]interface{}{"list": "english", "sentence": "abandon abandon abandon abandon abandon abandon abandon abandon abandon abandon abandon about"})

	// ---- E2: word-list selection as a one-variable state machine ----
	if len(lists) == 2 {
		e1 := []byte("0123456789abcdef")
		idx := rb39.Indices(e1)
		mk := func(lang string) bip39.Mnemonic {
			m := make(bip39.Mnemonic, len(idx))
			for i, v := range idx {
				m[i] = lists[lang][v]
			}
			return m
		}
		men, mja := mk("english"), mk("japanese")
		ops := []string{"Set(english)", "Set(japanese)", "Set(unknown)", "Enc", "Dec(en)", "Dec(ja)"}
		var seqs, states int64
		seenState := map[string]bool{}
		var rec func(seq []int)
		rec = func(seq []int) {
			if len(seq) > 0 {
				// replay from the initial state on the real package
				bip39.SetWordList("english")
				cur := "english"
				for step, op := range seq {
					what := ""
					switch op {
					case 0, 1:
						lang := []string{"english", "japanese"}[op]
						if err := bip39.SetWordList(lang); err != nil {
							what = "SetWordList(" + lang + ") failed: " + err.Error()
						}
						cur = lang
					case 2:
						if err := bip39.SetWordList("klingon"); err == nil {
							what = "SetWordList(unknown) succeeded"
						}
					case 3:
						m, err := bip39.EntropyToMnemonic(e1)
						if err != nil || m.String() != mk(cur).String() {
							what = fmt.Sprintf("Enc under %s gave %q", cur, m.String())
						}
					case 4, 5:
						m, lang := men, "english"
						if op == 5 {
							m, lang = mja, "japanese"
						}
						got, err := bip39.MnemonicToEntropy(m)
						if lang == cur {
							if err != nil || !bytes.Equal(got, e1) {
								what = fmt.Sprintf("Dec(%s sentence) under %s failed: %v", lang, cur, err)
							}
						} else if err == nil {
							what = fmt.Sprintf("Dec(%s sentence) accepted under %s", lang, cur)
						}
					}
					if what != "" {
						names := []string{}
						for _, o := range seq[:step+1] {
							names = append(names, ops[o])
						}
						c.Violate("C03/selection/"+ops[op], fmt.Sprintf("after %v: %s", names, what), names, "", nil)
					}
				}
				seqs++
				seenState[cur] = true
			}
			if len(seq) == 4 {
				return
			}
			for o := range ops {
				rec(append(append([]int{}, seq...), o))
			}
		}
		rec(nil)
		states = int64(len(seenState))
		c.Eval(seqs)
		c.Set("selection_sequences", seqs)
		c.Set("selection_states", states)
		bip39.SetWordList("english")
	}
	bip39PluginPass(c, "C03", lists["english"], lists["japanese"])
	c.NonTrivial(nontriv.Load())
	c.SetExhaustive(true)
	c.Assume = []string{"SHA-256 of the official english.txt / japanese.txt are the pinned constants", "reference: bit-array codec validated on BIP-39 vectors in its unit tests"}
}
