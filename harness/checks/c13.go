package checks

import (
	"bytes"
	"context"
	"encoding/binary"
	"fmt"
	"math"
	"os"
	"os/exec"
	"path/filepath"
	"regexp"
	"runtime"
	"strings"
	"time"

	"github.com/wollac/iota-crypto-demo/pkg/pow"
	powv2 "github.com/wollac/iota-crypto-demo/pkg/pow/v2"

	"verifharness/core"
)

// set by c13_sched.go in the sched build variant
var (
	c13Sched           func(c *core.Ctx)
	c13SchedExhaustive bool
)

func init() {
	core.Register(core.Check{ID: "C13", Level: "model_checking", Run: func(c *core.Ctx) { runC13(c); historyPass(c, "C13"); reentrancyPass(c, "C13") }})
	core.Register(core.Check{ID: "C13race", Level: "other", Run: runC13Race})
}

func runC13(c *core.Ctx) {
	c.Rule = "controlled scheduler: every interleaving of the goroutines of Mine (caller, watcher, N workers, canceller) at its synchronisation operations (atomics, channel ops, select, WaitGroup, go), stateless depth-first search with an iterated preemption bound, per scenario = (PoW version, N, which worker finds in which batch, cancellation never/before/concurrent); every schedule judged: returns, result valid or cancelled-only-if-cancelled, no goroutine panic, no goroutine left, at most one hash batch per worker after the done flag; states/transitions = scheduling points executed; separately a free-running -race pass (sampling, not counted)"
	exhaustive := false
	if c13Sched == nil {
		c.Set("scheduler", "this binary was built without the sched variant (overlay could not be generated or built): no interleaving exploration")
		c.Set("states", int64(1))
		c.Set("transitions", int64(1))
		c.Set("traces_validated_against_impl", int64(0))
		c.NonTrivial(2)
		c.Eval(1)
	} else {
		c13Sched(c)
		exhaustive = c13SchedExhaustive
	}
	// ---- free-running race pass (sampling; a different, weaker kind of evidence, reported separately) ----
	bin := filepath.Join(core.VerifDir, "build", "vcheck-race")
	if _, err := os.Stat(bin); err != nil {
		c.Set("race_pass", "build/vcheck-race not found: skipped")
	} else {
		for _, cold := range []string{"", "1,16", "2,16", "1,3", "2,3"} {
			c13RacePass(c, bin, cold, "")
		}
	}
	// the same free-running scenarios in the GOARCH=386 build (no race detector there): alignment of 64-bit atomics, 32-bit
	// counters; a crash inside pkg/pow, an invalid result, a hang or a leaked goroutine is reported as C13/386/...
	if bin386 := filepath.Join(core.VerifDir, "build", "vcheck-386"); runtime.GOARCH == "amd64" {
		if _, err := os.Stat(bin386); err != nil {
			c.Set("arch_386_pass", "build/vcheck-386 not found: skipped")
		} else {
			c13RacePass(c, bin386, "", "386/")
			c13RacePass(c, bin386, "1,3", "386/")
			c13RacePass(c, bin386, "2,3", "386/")
		}
	}
	c.SetExhaustive(exhaustive)
	c.Assume = []string{"Go atomics are sequentially consistent, so SC interleaving of synchronisation operations is the language semantics for race-free code", "a worker that polled the done flag three times without any other thread writing is treated as waiting (bounds the number of fruitless batches per execution)", "data races are looked for by a separate free-running -race pass (sampling)", "the overlay rewriter is mechanical and its output is compiled by the real compiler"}
}

// c13RacePass runs the free-running pass in build/vcheck-race; cold = "v,N": a fresh process whose first use of the
// package is a Mine of version v with N workers.
func c13RacePass(c *core.Ctx, bin, cold, label string) {
	tag := label + "race"
	if cold != "" {
		tag = label + "race-cold-start"
	}
	{
		tmp, _ := os.MkdirTemp("", "c13race")
		defer os.RemoveAll(tmp)
		ctx, cancel := context.WithTimeout(context.Background(), 10*time.Minute)
		defer cancel()
		cmd := exec.CommandContext(ctx, bin, "C13race", c.Tier)
		cmd.Env = append(os.Environ(), "VERIF_DIR="+tmp, "VERIF_C13_COLD="+cold, "GORACE=halt_on_error=1 exitcode=66", "VERIF_CHILD=1")
		var out, errb bytes.Buffer
		cmd.Stdout, cmd.Stderr = &out, &errb
		err := cmd.Run()
		code := 0
		if ee, ok := err.(*exec.ExitError); ok {
			code = ee.ExitCode()
		}
		m := regexp.MustCompile(`(?m)^C13RACE runs=(\d+) problems=(\d+)(.*)$`).FindStringSubmatch(out.String())
		switch {
		case strings.Contains(errb.String(), "WARNING: DATA RACE"):
			log := errb.String()
			if len(log) > 5000 {
				log = log[:5000]
			}
			where := "in harness code only"
			if strings.Contains(log, "iota-crypto-demo/pkg/pow") {
				where = "involving pkg/pow"
			}
			if where == "in harness code only" {
				c.Abort("race detector fired in harness code: %s", log)
			} else {
				c.Violate("C13/"+tag+"/data-race", "the race detector reports a data race "+where+" in a free-running Mine", map[string]interface{}{"report": log}, "", nil)
			}
		case m == nil:
			if strings.Contains(errb.String(), "iota-crypto-demo/pkg/pow") {
				c.Violate("C13/"+tag+"/process-crash", "the free-running pass died inside pkg/pow: "+tail(errb.String(), 1500), nil, "", nil)
			} else {
				c.Set("race_pass", fmt.Sprintf("no result (exit %d): %s", code, tail(errb.String(), 400)))
			}
		default:
			if cold == "" {
				c.Set(strings.ReplaceAll(label, "/", "_")+"race_pass_runs", m[1])
			}
			if m[2] != "0" {
				c.Violate("C13/"+tag+"/free-running", "free-running pass: "+strings.TrimSpace(m[3]), nil, "", nil)
			}
		}
	}
}

// runC13Race runs inside the -race build without any scheduler: real goroutines, real sync.
func runC13Race(c *core.Ctx) {
	runs, problems := 0, 0
	var notes []string
	base := runtime.NumGoroutine()
	reps := 30
	if c.Thorough() {
		reps = 150
	}
	type sc struct {
		version, workers int
		cancel           string
		zeros            int
	}
	var scs []sc
	if cold := os.Getenv("VERIF_C13_COLD"); cold != "" {
		// cold start: the first use of the package in this process is a multi-worker Mine
		var v, n int
		fmt.Sscanf(cold, "%d,%d", &v, &n)
		scs = append(scs, sc{v, n, "never", 2}, sc{v, n, "never", 0})
		reps = 3
	}
	coldMode := len(scs) > 0
	for _, v := range []int{1, 2} {
		if coldMode {
			break
		}
		for _, n := range []int{1, 2, 4, 16, 64} {
			scs = append(scs, sc{v, n, "never", 2}, sc{v, n, "concurrent", 5}, sc{v, n, "before", 2}, sc{v, n, "concurrent-unattainable", 243}, sc{v, n, "deadline-unattainable", 243}, sc{v, n, "expired-deadline", 2},
				sc{v, n, "never", 0}, sc{v, n, "far-deadline-cancelled-unattainable", 243}, sc{v, n, "far-deadline-never", 2},
				sc{v, n, "concurrent-unattainable-max-product", 243})
		}
		// another Worker of the same version is mining (unattainable target, twice as many goroutines as processors) while
		// this call is cancelled: calls on different Workers with different contexts do not wait for each other
		for _, n := range []int{1, 2} {
			scs = append(scs, sc{v, n, "concurrent-unattainable-while-another-worker-mines", 243})
		}
	}
	for _, s := range scs {
		if problems > 0 {
			break // one problem is enough; a hung Mine keeps spinning and would slow everything after it
		}
		r := reps
		if s.workers >= 16 {
			r = reps / 5
		}
		var bgCancel context.CancelFunc
		for i := 0; i < r && problems == 0; i++ {
			data := []byte{'r', byte(s.version), byte(s.workers), byte(i), byte(i >> 8), 0, 0, 0}
			ctx, cancel := context.WithCancel(context.Background())
			if s.cancel == "before" {
				cancel()
			}
			if s.cancel == "deadline-unattainable" { // the context ends by its deadline, nobody calls cancel
				ctx, cancel = context.WithTimeout(context.Background(), time.Duration(50+i%5*100)*time.Microsecond)
			}
			if s.cancel == "expired-deadline" {
				ctx, cancel = context.WithDeadline(context.Background(), time.Now().Add(-time.Hour))
			}
			if strings.HasPrefix(s.cancel, "far-deadline") { // a context with a deadline that is cancelled long before it (or never)
				var pcancel context.CancelFunc
				ctx, pcancel = context.WithTimeout(context.Background(), time.Hour)
				defer pcancel()
				cancel = pcancel
				if strings.Contains(s.cancel, "cancelled") {
					ctx, cancel = context.WithCancel(ctx) // and a descendant of it: Deadline() is inherited
				}
			}
			if strings.HasPrefix(s.cancel, "concurrent") || strings.Contains(s.cancel, "-cancelled-") {
				go func(d time.Duration) { time.Sleep(d); cancel() }(time.Duration(i%7) * 50 * time.Microsecond)
			}
			if strings.HasSuffix(s.cancel, "-max-product") {
				data = data[:7] // message length 15 divides 2^64-1: v2 length*target can be exactly 2^64-1, the largest legal product
			}
			if strings.HasSuffix(s.cancel, "-while-another-worker-mines") && i == 0 {
				var bgCtx context.Context
				bgCtx, bgCancel = context.WithCancel(context.Background())
				bgStarted := make(chan struct{})
				go func() {
					close(bgStarted)
					if s.version == 1 {
						pow.New(2*runtime.GOMAXPROCS(0)).Mine(bgCtx, []byte("background miner"), math.Pow(3, 242)/24*1.5)
					} else {
						powv2.New(2*runtime.GOMAXPROCS(0)).Mine(bgCtx, []byte("background miner"), math.MaxUint64/24)
					}
				}()
				<-bgStarted
				time.Sleep(20 * time.Millisecond) // let the other Worker's goroutines get going
			}
			type result struct {
				nonce uint64
				err   error
			}
			done := make(chan result, 1)
			go func() {
				var n uint64
				var err error
				if s.version == 1 {
					t := math.Pow(3, float64(s.zeros))/16 - 0.01
					if s.zeros == 243 {
						t = math.Pow(3, 242) / 16 * 1.5
					}
					n, err = pow.New(s.workers).Mine(ctx, data, t)
				} else {
					t := uint64(math.Pow(3, float64(s.zeros))) / 16
					if s.zeros == 243 {
						t = math.MaxUint64 / uint64(len(data)+8)
					}
					n, err = powv2.New(s.workers).Mine(ctx, data, t)
				}
				done <- result{n, err}
			}()
			runs++
			select {
			case r := <-done:
				if r.err == nil {
					msg := make([]byte, 16)
					copy(msg, data)
					binary.LittleEndian.PutUint64(msg[8:], r.nonce)
					ok := false
					if s.version == 1 {
						ok = pow.Score(msg) >= math.Pow(3, float64(s.zeros))/16-0.01
					} else {
						ok = powv2.Score(msg) >= uint64(math.Pow(3, float64(s.zeros)))/16
					}
					if !ok {
						problems++
						notes = append(notes, fmt.Sprintf("v%d N=%d: invalid nonce", s.version, s.workers))
					}
				} else if strings.HasSuffix(s.cancel, "never") {
					problems++
					notes = append(notes, fmt.Sprintf("v%d N=%d: error %v without cancellation", s.version, s.workers, r.err))
				}
			case <-time.After(60 * time.Second):
				problems++
				notes = append(notes, fmt.Sprintf("v%d N=%d cancel=%s: Mine did not return within 60 s", s.version, s.workers, s.cancel))
			}
			cancel()
		}
		if bgCancel != nil {
			bgCancel() // the other Worker stops; its goroutines drain with the rest
		}
		// goroutines must drain
		deadline := time.Now().Add(30 * time.Second)
		for runtime.NumGoroutine() > base+1 && time.Now().Before(deadline) {
			time.Sleep(2 * time.Millisecond)
		}
		if g := runtime.NumGoroutine(); g > base+1 {
			problems++
			notes = append(notes, fmt.Sprintf("v%d N=%d cancel=%s: %d goroutines left 30 s after the calls returned", s.version, s.workers, s.cancel, g-base))
			base = g
		}
	}
	if len(notes) > 5 {
		notes = notes[:5]
	}
	fmt.Printf("C13RACE runs=%d problems=%d %s\n", runs, problems, strings.Join(notes, " | "))
	c.Set("explanation", "free-running -race pass of check C13; not a check")
	c.Eval(int64(runs))
	c.NonTrivial(2)
}

func tail(s string, n int) string {
	if len(s) > n {
		return "..." + s[len(s)-n:]
	}
	return s
}
