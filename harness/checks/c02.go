package checks

import (
	"bytes"
	stdelliptic "crypto/elliptic"
	"crypto/hmac"
	"crypto/sha256"
	"crypto/sha512"
	"encoding/binary"
	"errors"
	"fmt"
	"math/big"
	"sync/atomic"

	"github.com/wollac/iota-crypto-demo/pkg/slip10"
	"github.com/wollac/iota-crypto-demo/pkg/slip10/btccurve"
	"github.com/wollac/iota-crypto-demo/pkg/slip10/eddsa"
	slipelliptic "github.com/wollac/iota-crypto-demo/pkg/slip10/elliptic"

	"verifharness/core"
	rs "verifharness/ref/slip10"
)

func init() {
	core.Register(core.Check{ID: "C02", Level: "exploration", Run: func(c *core.Ctx) {
		waitArch := background(func() { arch386Pass(c, "C02") })
		runC02(c)
		historyPass(c, "C02")
		reentrancyPass(c, "C02")
		waitArch()
	}})
}

// ---------- (c) toy curve: validity decided by a byte predicate, 3 of 4 candidates rejected ----------

type toyCurve struct{}
type toyPriv []byte
type toyPub []byte

func (toyCurve) Name() string    { return "toy" }
func (toyCurve) HmacKey() []byte { return []byte("toy seed") }
func (toyCurve) NewPrivateKey(buf []byte) (slip10.Key, error) {
	if buf[0]&3 != 0 {
		return nil, slip10.ErrInvalidKey
	}
	return toyPriv(append([]byte{}, buf...)), nil
}
func (k toyPriv) Bytes() []byte { return append([]byte{}, k...) }
func (toyPriv) IsPrivate() bool { return true }
func (k toyPriv) Public() slip10.Key {
	s := sha256.Sum256(k)
	return toyPub(append([]byte{2}, s[:]...))
}
func toyShift(parent, il []byte) ([]byte, bool) {
	out := make([]byte, 32)
	for i := range out {
		out[i] = parent[i] + il[i]
	}
	return out, out[31]&3 == 0
}
func (k toyPriv) Shift(il []byte) (slip10.Key, error) {
	out, ok := toyShift(k, il)
	if !ok {
		return nil, fmt.Errorf("toy: %w", slip10.ErrInvalidKey) // wrapped on purpose
	}
	return toyPriv(out), nil
}
func (k toyPub) Bytes() []byte      { return append([]byte{}, k...) }
func (toyPub) IsPrivate() bool      { return false }
func (k toyPub) Public() slip10.Key { return k }
func (toyPub) Shift([]byte) (slip10.Key, error) {
	return nil, errors.New("toy: public derivation unsupported")
}

type toyPlug struct{}

func (toyPlug) HmacKey() []byte                       { return []byte("toy seed") }
func (toyPlug) MasterValid(il []byte) bool            { return il[0]&3 == 0 }
func (toyPlug) ChildPriv(p, il []byte) ([]byte, bool) { return toyShift(p, il) }
func (toyPlug) Pub(priv []byte) []byte                { s := sha256.Sum256(priv); return append([]byte{2}, s[:]...) }
func (toyPlug) ChildPub(_, _ []byte) ([]byte, bool)   { panic("unsupported") }
func (toyPlug) HardenedOnly() bool                    { return false }

// ---------- (b) scripted curve: the explorer chooses every answer ----------

type c02answer int

const (
	ansValid c02answer = iota
	ansInvalid
	ansWrappedInvalid
	ansPermanent
)

var c02AnsNames = []string{"valid", "ErrInvalidKey", "wrapped ErrInvalidKey", "permanent error"}

var errC02Permanent = errors.New("scripted permanent curve error")

type c02script struct {
	answers []c02answer
	calls   [][]byte // buffer passed at each NewPrivateKey / Shift call
	over    bool     // a permanent answer was given
}

type c02sentinel string

func (s *c02script) next(buf []byte) (slip10.Key, error) {
	if s.over {
		panic(c02sentinel("curve called again after it returned a permanent error"))
	}
	if len(s.calls) >= len(s.answers) {
		panic(c02sentinel("more curve calls than scripted answers"))
	}
	a := s.answers[len(s.calls)]
	s.calls = append(s.calls, append([]byte{}, buf...))
	switch a {
	case ansValid:
		return &c02skey{s: s, b: append([]byte{}, buf...), priv: true}, nil
	case ansInvalid:
		return nil, slip10.ErrInvalidKey
	case ansWrappedInvalid:
		return nil, fmt.Errorf("scripted: %w", slip10.ErrInvalidKey)
	default:
		s.over = true
		return nil, errC02Permanent
	}
}

type c02scurve struct{ s *c02script }

func (c02scurve) Name() string                                   { return "scripted" }
func (c02scurve) HmacKey() []byte                                { return []byte("scripted seed") }
func (c c02scurve) NewPrivateKey(buf []byte) (slip10.Key, error) { return c.s.next(buf) }

type c02skey struct {
	s    *c02script
	b    []byte
	priv bool
}

func (k *c02skey) Bytes() []byte {
	if k.priv {
		return append([]byte{}, k.b...)
	}
	return append([]byte{3}, k.b...)
}
func (k *c02skey) IsPrivate() bool    { return k.priv }
func (k *c02skey) Public() slip10.Key { return &c02skey{s: k.s, b: k.b, priv: false} }
func (k *c02skey) Shift(il []byte) (slip10.Key, error) {
	key, err := k.s.next(il)
	if sk, ok := key.(*c02skey); ok {
		sk.priv = k.priv
	}
	return key, err
}

func c02mac(key []byte, parts ...[]byte) []byte {
	h := hmac.New(sha512.New, key)
	for _, p := range parts {
		h.Write(p)
	}
	return h.Sum(nil)
}

func c02seqs() [][]c02answer {
	var out [][]c02answer
	var rec func(pre []c02answer)
	rec = func(pre []c02answer) {
		for _, end := range []c02answer{ansValid, ansPermanent} {
			out = append(out, append(append([]c02answer{}, pre...), end))
		}
		if len(pre) == 3 {
			return
		}
		for _, mid := range []c02answer{ansInvalid, ansWrappedInvalid} {
			rec(append(append([]c02answer{}, pre...), mid))
		}
	}
	rec(nil)
	return out
}

func c02seqName(s []c02answer) string {
	n := ""
	for i, a := range s {
		if i > 0 {
			n += ","
		}
		n += c02AnsNames[a]
	}
	return n
}

// ---------- the check ----------

type c02curve struct {
	name string
	impl slip10.Curve
	ref  rs.Plug
}

func runC02(c *core.Ctx) {
	c.Rule = "(a) 3 real curves x seeds x all paths of length <=3 over {0,1,2^31-1,2^31,2^31+1,2^32-1}: every node's private key, chain code, public key, fingerprint vs a SLIP-0010 reference, extension law, undefined derivations must fail; (b) scripted curve: all answer sequences of length <=4 over {valid, ErrInvalidKey, wrapped ErrInvalidKey, permanent error} for master, hardened and normal child derivation, buffers of every retry compared with the specification's chain; (c) toy curve rejecting 3/4 of candidates: seeds 0..255 x all paths of length <=2 over {0,1,H,H+1}; non-trivial = distinct (curve, seed, path) nodes compared + scripted sequences + toy nodes that needed >=1 retry"
	var nontriv atomic.Int64
	curves := []c02curve{
		{"secp256k1", slipelliptic.Secp256k1(), rs.Secp256k1()},
		{"nist256p1", slipelliptic.Nist256p1(), rs.Nist256p1()},
		{"ed25519", eddsa.Ed25519(), rs.Ed{}},
	}
	seeds := [][]byte{
		bytes.Repeat([]byte{0}, 16), bytes.Repeat([]byte{0xFF}, 16), {}, {0x01},
		{0, 1, 2, 3, 4, 5, 6, 7, 8, 9, 10, 11, 12, 13, 14, 15},
		bytes.Repeat([]byte{0xA5, 0x5A}, 32),
	}
	if c.Thorough() {
		for i := 0; i < 12; i++ {
			s := sha512.Sum512([]byte{byte(i)})
			seeds = append(seeds, s[:16+i*4])
		}
	}
	alpha := []uint32{0, 1, 1<<31 - 1, 1 << 31, 1<<31 + 1, 1<<32 - 1}
	type job struct {
		cv   c02curve
		seed []byte
		i1   int // first path element index, -1: only the master
	}
	var jobs []job
	for _, cv := range curves {
		for _, sd := range seeds {
			for i := range alpha {
				jobs = append(jobs, job{cv, sd, i})
			}
		}
	}
	cmpNode := func(cv c02curve, seed []byte, path []uint32, e *slip10.ExtendedKey, r rs.Node, how string) {
		cas := map[string]interface{}{"curve": cv.name, "seed": fmt.Sprintf("%x", seed), "path": path, "via": how}
		key := "C02/" + cv.name + "/node"
		var pub, fpr []byte
		if p := core.Catch(func() { pub = e.Key.Public().Bytes(); fpr = e.Fingerprint() }); p != nil {
			c.Violate(key+"/panic", fmt.Sprint(p), cas, "", nil)
			return
		}
		if !e.IsPrivate() || !bytes.Equal(e.Key.Bytes(), r.Priv) {
			c.Violate(key+"/private-key", fmt.Sprintf("private key %x, SLIP-0010: %x", e.Key.Bytes(), r.Priv), cas, "", nil)
		}
		if !bytes.Equal(e.ChainCode, r.Chain) {
			c.Violate(key+"/chain-code", fmt.Sprintf("chain code %x, SLIP-0010: %x", e.ChainCode, r.Chain), cas, "", nil)
		}
		if !bytes.Equal(pub, r.Pub) {
			c.Violate(key+"/public-key", fmt.Sprintf("public key %x, SLIP-0010: %x", pub, r.Pub), cas, "", nil)
		}
		if !bytes.Equal(fpr, r.Fingerprint()) {
			c.Violate(key+"/fingerprint", fmt.Sprintf("fingerprint %x, SLIP-0010: %x", fpr, r.Fingerprint()), cas, "", nil)
		}
		if len(e.Key.Bytes()) != slip10.PrivateKeySize || len(pub) != slip10.PublicKeySize || len(e.ChainCode) != slip10.ChainCodeSize {
			c.Violate(key+"/sizes", "serialization sizes", cas, "", nil)
		}
	}
	core.Par(len(jobs), func(ji int) {
		j := jobs[ji]
		cv := j.cv
		m, err := slip10.NewMasterKey(j.seed, cv.impl)
		if err != nil {
			c.Violate("C02/"+cv.name+"/master/error", err.Error(), fmt.Sprintf("%x", j.seed), "", nil)
			return
		}
		rm := rs.Master(cv.ref, j.seed)
		if j.i1 == 0 {
			c.Eval(1)
			nontriv.Add(1)
			cmpNode(cv, j.seed, nil, m, rm, "NewMasterKey")
			if k2, err := slip10.DeriveKeyFromPath(j.seed, cv.impl, nil); err != nil || !bytes.Equal(k2.Key.Bytes(), m.Key.Bytes()) {
				c.Violate("C02/"+cv.name+"/extension", "DeriveKeyFromPath(empty) != master", nil, "", nil)
			}
			// hardened child of a public key
			for _, idx := range alpha {
				if idx < 1<<31 {
					continue
				}
				var e error
				var k *slip10.ExtendedKey
				p := core.Catch(func() { k, e = m.Public().DeriveChild(idx) })
				c.Eval(1)
				if p != nil || k != nil || !errors.Is(e, slip10.ErrHardenedChildPublicKey) {
					c.Violate("C02/"+cv.name+"/hardened-from-public", fmt.Sprintf("Public().DeriveChild(%d) = %v, %v (panic %v)", idx, k, e, p), idx, "", nil)
				}
			}
		}
		var walk func(e *slip10.ExtendedKey, r rs.Node, path []uint32, depth int)
		walk = func(e *slip10.ExtendedKey, r rs.Node, path []uint32, depth int) {
			for ai, idx := range alpha {
				if depth == 0 && ai != j.i1 {
					continue
				}
				np := append(append([]uint32{}, path...), idx)
				cas := map[string]interface{}{"curve": cv.name, "seed": fmt.Sprintf("%x", j.seed), "path": np}
				var ch *slip10.ExtendedKey
				var err error
				p := core.Catch(func() { ch, err = e.DeriveChild(idx) })
				c.Eval(1)
				if p != nil {
					c.Violate("C02/"+cv.name+"/derive/panic", fmt.Sprint(p), cas, "", nil)
					continue
				}
				rch, rerr := r.Child(cv.ref, idx)
				if rerr != nil { // undefined derivation: must fail, and so must the path form
					if err == nil || ch != nil {
						c.Violate("C02/"+cv.name+"/undefined-derivation-accepted", fmt.Sprintf("DeriveChild(%d) on %s returned a key (%v); SLIP-0010: %v", idx, cv.name, err, rerr), cas,
							fmt.Sprintf("func TestC02(t *testing.T) { m, _ := slip10.NewMasterKey([]byte{1}, eddsa.Ed25519()); k, err := m.DeriveChild(%d); if err == nil { t.Fatalf(\"non-hardened ed25519 child derived: %%x\", k.Key.Bytes()) } }", idx), nil)
					}
					var k2 *slip10.ExtendedKey
					var e2 error
					core.Catch(func() { k2, e2 = slip10.DeriveKeyFromPath(j.seed, cv.impl, np) })
					if e2 == nil || k2 != nil {
						c.Violate("C02/"+cv.name+"/undefined-derivation-accepted", fmt.Sprintf("DeriveKeyFromPath(%v) returned a key", np), cas, "", nil)
					}
					nontriv.Add(1)
					continue
				}
				if err != nil {
					c.Violate("C02/"+cv.name+"/derive/error", err.Error(), cas, "", nil)
					continue
				}
				nontriv.Add(1)
				cmpNode(cv, j.seed, np, ch, rch, "DeriveChild chain")
				// extension law through the path API
				var k2 *slip10.ExtendedKey
				var e2 error
				if p := core.Catch(func() { k2, e2 = slip10.DeriveKeyFromPath(j.seed, cv.impl, np) }); p != nil || e2 != nil {
					c.Violate("C02/"+cv.name+"/extension", fmt.Sprintf("DeriveKeyFromPath(%v): %v %v", np, p, e2), cas, "", nil)
				} else if !bytes.Equal(k2.Key.Bytes(), ch.Key.Bytes()) || !bytes.Equal(k2.ChainCode, ch.ChainCode) || !bytes.Equal(k2.Fingerprint(), ch.Fingerprint()) {
					c.Violate("C02/"+cv.name+"/extension", fmt.Sprintf("Derive(p||i) != Derive(p).DeriveChild(i) for %v", np), cas, "", nil)
				}
				if depth+1 < 3 {
					walk(ch, rch, np, depth+1)
				}
			}
		}
		walk(m, rm, nil, 0)
	})
	c.Sample(map[string]interface{}{"curve": "ed25519", "seed": "01", "path": []uint32{1 << 31, 0}, "expect": "error (non-hardened ed25519)"})

	// ---- (a') extended keys the caller restored from stored material ----
	// A wallet keeps k || c and rebuilds the ExtendedKey from the exported fields: key and chain code are windows of one
	// buffer (len 32, capacity reaching into whatever follows). Children must be what SLIP-0010 says and the stored
	// material must not be written.
	for _, cv := range curves {
		for _, sd := range seeds[:4] {
			rm := rs.Master(cv.ref, sd)
			for layout := 0; layout < 3; layout++ {
				var blob, kwin, cwin []byte
				switch layout {
				case 0: // k || c || spare
					blob = append(append(append([]byte{}, rm.Priv...), rm.Chain...), bytes.Repeat([]byte{0xEE}, 16)...)
					kwin, cwin = blob[0:32], blob[32:64]
				case 1: // c || k || spare
					blob = append(append(append([]byte{}, rm.Chain...), rm.Priv...), bytes.Repeat([]byte{0xEE}, 16)...)
					cwin, kwin = blob[0:32], blob[32:64]
				default: // exact-capacity copies
					blob = append(append([]byte{}, rm.Priv...), rm.Chain...)
					kwin, cwin = append([]byte{}, blob[0:32]...), append([]byte{}, blob[32:64]...)
				}
				stored := append([]byte{}, blob...)
				var key slip10.Key
				switch cv.name {
				case "ed25519":
					key = eddsa.Seed(kwin)
				case "secp256k1":
					key = &slipelliptic.PrivateKey{K: new(big.Int).SetBytes(kwin), Curve: btccurve.Secp256k1()}
				default:
					key = &slipelliptic.PrivateKey{K: new(big.Int).SetBytes(kwin), Curve: stdelliptic.P256()}
				}
				ek := &slip10.ExtendedKey{ChainCode: cwin, Key: key}
				for _, idx := range alpha {
					cas := map[string]interface{}{"curve": cv.name, "seed": fmt.Sprintf("%x", sd), "index": idx, "layout": []string{"k||c||spare", "c||k||spare", "separate copies"}[layout]}
					var ch *slip10.ExtendedKey
					var err error
					p := core.Catch(func() { ch, err = ek.DeriveChild(idx) })
					c.Eval(1)
					nontriv.Add(1)
					rch, rerr := rm.Child(cv.ref, idx)
					if p != nil {
						c.Violate("C02/"+cv.name+"/restored-key/panic", fmt.Sprint(p), cas, "", nil)
						continue
					}
					if !bytes.Equal(blob, stored) {
						c.Violate("C02/"+cv.name+"/restored-key/stored-material-written", fmt.Sprintf("DeriveChild(%d) on a key restored from one k||c buffer changed that buffer from %x to %x", idx, stored, blob), cas, "", nil)
						copy(blob, stored)
					}
					if (err != nil) != (rerr != nil) {
						c.Violate("C02/"+cv.name+"/restored-key/defined", fmt.Sprintf("DeriveChild(%d): err=%v, SLIP-0010: %v", idx, err, rerr), cas, "", nil)
						continue
					}
					if err == nil && (!bytes.Equal(ch.Key.Bytes(), rch.Priv) || !bytes.Equal(ch.ChainCode, rch.Chain) || !bytes.Equal(ch.Key.Public().Bytes(), rch.Pub)) {
						c.Violate("C02/"+cv.name+"/restored-key/child", fmt.Sprintf("DeriveChild(%d) = key %x chain %x, SLIP-0010: key %x chain %x", idx, ch.Key.Bytes(), ch.ChainCode, rch.Priv, rch.Chain), cas, "", nil)
					}
				}
			}
		}
	}

	// ---- (a'') boundary values of the intermediate I_L: children whose HMAC output starts with zero bytes (short big-endian
	// scalars) or with FF (next to the group order), found by scanning 8192 indices per parent with an own HMAC; derived on
	// the private side and, for non-hardened indices, from the extended public key
	for _, cv := range curves {
		for _, sd := range [][]byte{seeds[0], seeds[4]} {
			m, err := slip10.NewMasterKey(sd, cv.impl)
			if err != nil {
				continue
			}
			rm := rs.Master(cv.ref, sd)
			pick := func(base uint32, data []byte) []uint32 {
				var zero, ff []uint32
				for i := uint32(0); i < 8192; i++ {
					I := c02mac(rm.Chain, data, []byte{byte((base + i) >> 24), byte((base + i) >> 16), byte((base + i) >> 8), byte(base + i)})
					if I[0] == 0 && len(zero) < 8 {
						zero = append(zero, base+i)
					}
					if I[0] == 0xFF && I[1] >= 0xF0 && len(ff) < 3 {
						ff = append(ff, base+i)
					}
				}
				return append(zero, ff...)
			}
			var idxs []uint32
			if cv.name != "ed25519" {
				idxs = append(idxs, pick(0, rm.Pub)...)
			}
			idxs = append(idxs, pick(1<<31, append([]byte{0}, rm.Priv...))...)
			for _, idx := range idxs {
				cas := map[string]interface{}{"curve": cv.name, "seed": fmt.Sprintf("%x", sd), "index": idx, "why": "I_L starts with 00 or FF"}
				rch, rerr := rm.Child(cv.ref, idx)
				var ch *slip10.ExtendedKey
				var cerr error
				p := core.Catch(func() { ch, cerr = m.DeriveChild(idx) })
				c.Eval(1)
				nontriv.Add(1)
				if p != nil || (cerr != nil) != (rerr != nil) {
					c.Violate("C02/"+cv.name+"/I_L-boundary/private", fmt.Sprintf("DeriveChild(%d): %v %v, SLIP-0010: %v", idx, p, cerr, rerr), cas, "", nil)
					continue
				}
				if cerr == nil && (!bytes.Equal(ch.Key.Bytes(), rch.Priv) || !bytes.Equal(ch.ChainCode, rch.Chain) || !bytes.Equal(ch.Key.Public().Bytes(), rch.Pub)) {
					c.Violate("C02/"+cv.name+"/I_L-boundary/private", fmt.Sprintf("DeriveChild(%d) = key %x chain %x pub %x, SLIP-0010: key %x chain %x pub %x", idx, ch.Key.Bytes(), ch.ChainCode, ch.Key.Public().Bytes(), rch.Priv, rch.Chain, rch.Pub), cas, "", nil)
				}
				if idx < 1<<31 && cv.name != "ed25519" {
					rpc, rperr := rm.Public().Child(cv.ref, idx)
					var pc *slip10.ExtendedKey
					var perr error
					p := core.Catch(func() { pc, perr = m.Public().DeriveChild(idx) })
					c.Eval(1)
					if p != nil || (perr != nil) != (rperr != nil) {
						c.Violate("C02/"+cv.name+"/I_L-boundary/public", fmt.Sprintf("Public().DeriveChild(%d): %v %v, SLIP-0010: %v", idx, p, perr, rperr), cas, "", nil)
						continue
					}
					if perr == nil && (!bytes.Equal(pc.Key.Bytes(), rpc.Pub) || !bytes.Equal(pc.ChainCode, rpc.Chain)) {
						c.Violate("C02/"+cv.name+"/I_L-boundary/public", fmt.Sprintf("Public().DeriveChild(%d) = key %x chain %x, SLIP-0010: key %x chain %x", idx, pc.Key.Bytes(), pc.ChainCode, rpc.Pub, rpc.Chain), cas, "", nil)
					}
				}
			}
		}
	}

	// ---- kept objects (E2): one master key and one extended public key object used again and again ----
	// all operation sequences of length <= 3 (thorough 4) on the SAME two objects; after every operation its result and both
	// kept objects are compared with the reference (a derivation must not change the key it starts from)
	{
		depth := 3
		if c.Thorough() {
			depth = 4
		}
		var kseqs int64
		for _, cv := range curves {
			seed := []byte{0x5e, 0xed, byte(len(cv.name))}
			rm := rs.Master(cv.ref, seed)
			type kop struct {
				name   string
				public bool
				idx    uint32
				again  bool // call Public() on the kept public object first
			}
			ops := []kop{{"m.DeriveChild(0)", false, 0, false}, {"m.DeriveChild(1H)", false, 1<<31 + 1, false}, {"xpub.DeriveChild(0)", true, 0, false},
				{"xpub.DeriveChild(1)", true, 1, false}, {"xpub.Public().DeriveChild(2)", true, 2, true}, {"xpub.DeriveChild(1H)", true, 1<<31 + 1, false}}
			type refRes struct {
				n   rs.Node
				err error
			}
			refChild := make([]refRes, len(ops)) // the reference's answer depends on the operation only: computed once
			for oi, o := range ops {
				if o.public {
					refChild[oi].n, refChild[oi].err = rm.Public().Child(cv.ref, o.idx)
				} else {
					refChild[oi].n, refChild[oi].err = rm.Child(cv.ref, o.idx)
				}
			}
			var rec func(seq []int)
			rec = func(seq []int) {
				if len(seq) > 0 {
					kseqs++
					m, err := slip10.NewMasterKey(seed, cv.impl)
					if err != nil {
						return
					}
					xpub := m.Public()
					var names []string
					for _, oi := range seq {
						o := ops[oi]
						names = append(names, o.name)
						cas := map[string]interface{}{"curve": cv.name, "operations": names}
						var ch *slip10.ExtendedKey
						var cerr error
						pn := core.Catch(func() {
							switch {
							case !o.public:
								ch, cerr = m.DeriveChild(o.idx)
							case o.again:
								ch, cerr = xpub.Public().DeriveChild(o.idx)
							default:
								ch, cerr = xpub.DeriveChild(o.idx)
							}
						})
						rch, rerr := refChild[oi].n, refChild[oi].err
						bad := ""
						switch {
						case pn != nil:
							bad = fmt.Sprintf("%s panicked: %v", o.name, pn)
						case (rerr != nil) != (cerr != nil):
							bad = fmt.Sprintf("%s: error %v, SLIP-0010: %v", o.name, cerr, rerr)
						case rerr == nil && o.public && (!bytes.Equal(ch.Key.Bytes(), rch.Pub) || !bytes.Equal(ch.ChainCode, rch.Chain) || !bytes.Equal(ch.Fingerprint(), rch.Fingerprint())):
							bad = fmt.Sprintf("%s = key %x chain %x fingerprint %x, SLIP-0010: %x / %x / %x", o.name, ch.Key.Bytes(), ch.ChainCode, ch.Fingerprint(), rch.Pub, rch.Chain, rch.Fingerprint())
						case rerr == nil && !o.public && (!bytes.Equal(ch.Key.Bytes(), rch.Priv) || !bytes.Equal(ch.ChainCode, rch.Chain) || !bytes.Equal(ch.Fingerprint(), rch.Fingerprint())):
							bad = fmt.Sprintf("%s = key %x chain %x, SLIP-0010: %x / %x", o.name, ch.Key.Bytes(), ch.ChainCode, rch.Priv, rch.Chain)
						}
						if bad == "" {
							if pn := core.Catch(func() {
								if !bytes.Equal(m.Key.Bytes(), rm.Priv) || !bytes.Equal(m.ChainCode, rm.Chain) || !m.IsPrivate() {
									bad = fmt.Sprintf("after %s the kept master key is key %x chain %x, it was %x / %x", o.name, m.Key.Bytes(), m.ChainCode, rm.Priv, rm.Chain)
								} else if !bytes.Equal(xpub.Key.Bytes(), rm.Pub) || !bytes.Equal(xpub.ChainCode, rm.Chain) || !bytes.Equal(xpub.Fingerprint(), rm.Fingerprint()) || xpub.IsPrivate() {
									bad = fmt.Sprintf("after %s the kept extended public key is key %x chain %x fingerprint %x, it was %x / %x / %x", o.name, xpub.Key.Bytes(), xpub.ChainCode, xpub.Fingerprint(), rm.Pub, rm.Chain, rm.Fingerprint())
								}
							}); pn != nil {
								bad = fmt.Sprintf("after %s reading the kept keys panics: %v", o.name, pn)
							}
						}
						if bad != "" {
							c.Violate("C02/"+cv.name+"/kept-objects", fmt.Sprintf("operations %q on one master key m and one xpub = m.Public(): %s", names, bad), cas, "", nil)
							break
						}
					}
				}
				if len(seq) == depth {
					return
				}
				for o := range ops {
					rec(append(append([]int{}, seq...), o))
				}
			}
			rec(nil)
		}
		c.Eval(kseqs)
		nontriv.Add(kseqs)
		c.Set("kept_object_sequences", kseqs)
	}

	// ---- (b) scripted answers ----
	seqs := c02seqs()
	c.Set("scripted_sequences", int64(len(seqs)*3))
	for _, mode := range []string{"master", "child-hardened", "child-normal"} {
		for _, seq := range seqs {
			c.Eval(1)
			nontriv.Add(1)
			cas := map[string]interface{}{"mode": mode, "answers": c02seqName(seq)}
			key := "C02/scripted/" + mode
			last := seq[len(seq)-1]
			// the seed is a window of a larger caller buffer (spare capacity behind it, poisoned): neither may be written
			seedBuf := bytes.Repeat([]byte{0xEE}, 256)
			seed := seedBuf[8 : 8+copy(seedBuf[8:], "scripted-seed-bytes")]
			seedWant := append([]byte{}, seedBuf...)
			var parent *slip10.ExtendedKey
			var parentScript *c02script
			if mode != "master" {
				parentScript = &c02script{answers: []c02answer{ansValid}}
				var err error
				parent, err = slip10.NewMasterKey(seed, c02scurve{parentScript})
				if err != nil {
					c.Abort("scripted master failed: %v", err)
					return
				}
			}
			sc := &c02script{answers: seq}
			idx := uint32(5)
			if mode == "child-hardened" {
				idx |= 1 << 31
			}
			var res *slip10.ExtendedKey
			var err error
			p := core.Catch(func() {
				if mode == "master" {
					res, err = slip10.NewMasterKey(seed, c02scurve{sc})
				} else {
					// re-bind the parent's key to the new script so that Shift consumes its answers
					pk := parent.Key.(*c02skey)
					par := &slip10.ExtendedKey{ChainCode: parent.ChainCode, Key: &c02skey{s: sc, b: pk.b, priv: true}}
					res, err = par.DeriveChild(idx)
				}
			})
			if p != nil {
				if s, ok := p.(c02sentinel); ok {
					cls := "/retry-after-permanent-error"
					if !sc.over {
						cls = "/too-many-calls"
					}
					c.Violate(key+cls, fmt.Sprintf("answers [%s]: %s", c02seqName(seq), string(s)), cas,
						"// a curve whose NewPrivateKey returns a non-ErrInvalidKey error: NewMasterKey must return that error instead of retrying", nil)
				} else {
					c.Violate(key+"/panic", fmt.Sprint(p), cas, "", nil)
				}
				continue
			}
			if !bytes.Equal(seedBuf, seedWant) {
				c.Violate(key+"/seed-buffer-written", fmt.Sprintf("answers [%s]: the caller's seed buffer (seed = 19-byte window with spare capacity) was written to: %x", c02seqName(seq), seedBuf[:96]), cas, "", nil)
				copy(seedBuf, seedWant)
			}
			// expected chain of buffers
			var want [][]byte
			var finalI []byte
			if mode == "master" {
				i := c02mac([]byte("scripted seed"), seed)
				for k := 0; k < len(seq); k++ {
					want = append(want, i[:32])
					finalI = i
					i = c02mac([]byte("scripted seed"), i)
				}
			} else {
				ser := make([]byte, 4)
				binary.BigEndian.PutUint32(ser, idx)
				pk := parent.Key.(*c02skey)
				var i []byte
				if idx >= 1<<31 {
					i = c02mac(parent.ChainCode, []byte{0}, pk.b, ser)
				} else {
					i = c02mac(parent.ChainCode, append([]byte{3}, pk.b...), ser)
				}
				for k := 0; k < len(seq); k++ {
					want = append(want, i[:32])
					finalI = i
					i = c02mac(parent.ChainCode, []byte{1}, i[32:], ser)
				}
			}
			if len(sc.calls) != len(seq) {
				c.Violate(key+"/call-count", fmt.Sprintf("answers [%s]: %d curve calls, want %d", c02seqName(seq), len(sc.calls), len(seq)), cas, "", nil)
				continue
			}
			for k := range want {
				if !bytes.Equal(sc.calls[k], want[k]) {
					c.Violate(key+"/retry-input", fmt.Sprintf("answers [%s]: call %d got buffer %x, SLIP-0010 chain gives %x", c02seqName(seq), k+1, sc.calls[k], want[k]), cas, "", nil)
					break
				}
			}
			if last == ansPermanent {
				if err == nil || !errors.Is(err, errC02Permanent) || res != nil {
					c.Violate(key+"/permanent-error-lost", fmt.Sprintf("answers [%s]: result %v, error %v; the curve's error must be returned", c02seqName(seq), res, err), cas, "", nil)
				}
				continue
			}
			if err != nil || res == nil {
				c.Violate(key+"/error", fmt.Sprintf("answers [%s]: %v", c02seqName(seq), err), cas, "", nil)
				continue
			}
			if !bytes.Equal(res.Key.Bytes(), finalI[:32]) || !bytes.Equal(res.ChainCode, finalI[32:]) {
				c.Violate(key+"/result", fmt.Sprintf("answers [%s]: key %x chain %x, want %x / %x", c02seqName(seq), res.Key.Bytes(), res.ChainCode, finalI[:32], finalI[32:]), cas, "", nil)
			}
		}
	}
	c.Sample(map[string]interface{}{"mode": "child-normal", "answers": "ErrInvalidKey,wrapped ErrInvalidKey,valid"})

	// ---- (c) toy curve ----
	toyIdx := []uint32{0, 1, 1 << 31, 1<<31 + 1}
	hist := make([]atomic.Int64, 16)
	core.Par(256, func(s int) {
		seedBuf := bytes.Repeat([]byte{0xEE}, 200)
		seedBuf[0], seedBuf[1] = byte(s), 0x77
		seed := seedBuf[:2]
		defer func() {
			if seedBuf[0] != byte(s) || seedBuf[1] != 0x77 || !bytes.Equal(seedBuf[2:], bytes.Repeat([]byte{0xEE}, 198)) {
				c.Violate("C02/toy/seed-buffer-written", fmt.Sprintf("seed %02x77 (a window with spare capacity): the caller's buffer was written to: %x", s, seedBuf[:80]), s, "", nil)
			}
		}()
		m, err := slip10.NewMasterKey(seed, toyCurve{})
		rm := rs.Master(toyPlug{}, seed)
		c.Eval(1)
		cmp := func(e *slip10.ExtendedKey, r rs.Node, path []uint32) {
			if r.Retries < len(hist) {
				hist[r.Retries].Add(1)
			}
			if r.Retries > 0 {
				nontriv.Add(1)
			}
			if !bytes.Equal(e.Key.Bytes(), r.Priv) || !bytes.Equal(e.ChainCode, r.Chain) || !bytes.Equal(e.Fingerprint(), r.Fingerprint()) || !bytes.Equal(e.Key.Public().Bytes(), r.Pub) {
				c.Violate("C02/toy/node", fmt.Sprintf("seed %x path %v (reference needed %d retries): key %x chain %x, want %x / %x", seed, path, r.Retries, e.Key.Bytes(), e.ChainCode, r.Priv, r.Chain),
					map[string]interface{}{"seed": fmt.Sprintf("%x", seed), "path": path, "retries": r.Retries}, "", nil)
			}
		}
		if err != nil {
			c.Violate("C02/toy/master", err.Error(), seed, "", nil)
			return
		}
		cmp(m, rm, nil)
		for _, a := range toyIdx {
			ch, err := m.DeriveChild(a)
			c.Eval(1)
			if err != nil {
				c.Violate("C02/toy/derive", err.Error(), seed, "", nil)
				continue
			}
			rch, _ := rm.Child(toyPlug{}, a)
			cmp(ch, rch, []uint32{a})
			for _, b := range toyIdx {
				ch2, err := ch.DeriveChild(b)
				c.Eval(1)
				if err != nil {
					c.Violate("C02/toy/derive", err.Error(), seed, "", nil)
					continue
				}
				rch2, _ := rch.Child(toyPlug{}, b)
				cmp(ch2, rch2, []uint32{a, b})
				k2, err := slip10.DeriveKeyFromPath(seed, toyCurve{}, []uint32{a, b})
				if err != nil || !bytes.Equal(k2.Key.Bytes(), ch2.Key.Bytes()) {
					c.Violate("C02/toy/extension", fmt.Sprintf("path %v", []uint32{a, b}), seed, "", nil)
				}
			}
		}
	})
	h := map[string]int64{}
	for i := range hist {
		if v := hist[i].Load(); v > 0 {
			h[fmt.Sprint(i)] = v
		}
	}
	c.Set("toy_retry_histogram", h)
	c.NonTrivial(nontriv.Load())
	c.SetExhaustive(true)
	c.Assume = []string{"ref/slip10 written from the specification, validated on SLIP-0010 test vector 1 for all three curves", "crypto/ed25519 for the ed25519 public key, HMAC-SHA512/RIPEMD160 from the standard/x libraries"}
}
