//go:build sched

package checks

import (
	"context"
	"encoding/binary"
	"fmt"
	"math"
	"math/big"
	"sync/atomic"
	"time"

	"github.com/iotaledger/iota.go/consts"
	"github.com/iotaledger/iota.go/trinary"
	powv2 "github.com/wollac/iota-crypto-demo/pkg/pow/v2"
	vbct "github.com/wollac/iota-crypto-demo/pkg/verifshim/vbct"
	vcurl "github.com/wollac/iota-crypto-demo/pkg/verifshim/vcurl"
	"github.com/wollac/iota-crypto-demo/pkg/verifshim/vsched"

	"verifharness/core"
)

func init() { c12Sched = runC12Scripted }

func runC12Scripted(c *core.Ctx, nontriv *atomic.Int64) bool {
	// ---- Score on scripted digests: uint64 fast path, big-int path, saturation ----
	two64 := new(big.Int).Lsh(big.NewInt(1), 64)
	var hashes []*big.Int
	addAround := func(h *big.Int) {
		for d := int64(-1); d <= 1; d++ {
			v := new(big.Int).Add(h, big.NewInt(d))
			if v.Sign() > 0 && v.Cmp(c12Pow243) <= 0 {
				hashes = append(hashes, v)
			}
		}
	}
	addAround(big.NewInt(1))
	addAround(big.NewInt(3))
	addAround(new(big.Int).Set(c12Pow243))
	addAround(new(big.Int).Quo(c12Pow243, two64))
	addAround(new(big.Int).Quo(c12Pow243, new(big.Int).Sub(two64, big.NewInt(1))))
	for _, l := range []int64{8, 9, 100, 32776} {
		addAround(new(big.Int).Quo(c12Pow243, new(big.Int).Mul(two64, big.NewInt(l))))
		addAround(new(big.Int).Quo(c12Pow243, new(big.Int).Sub(new(big.Int).Mul(two64, big.NewInt(l)), big.NewInt(1))))
	}
	for k := 1; k < 243; k += 11 {
		addAround(c12Pow3(k))
	}
	var cur *big.Int
	vcurl.ScriptDigest = func(trinary.Trits) trinary.Trits {
		t := refTritsOfHash(cur)
		return trinary.Trits(t[:])
	}
	for _, h := range hashes {
		cur = h
		for _, l := range []int{8, 9, 100, 1000, 32776} {
			msg := make([]byte, l)
			var got uint64
			p := core.Catch(func() { got = powv2.Score(msg) })
			want := refScoreV2FromHash(h, l)
			c.Eval(1)
			nontriv.Add(1)
			if p != nil || got != want {
				cls := "uint64-path"
				if refDifficulty(h).Cmp(two64) >= 0 {
					cls = "bigint-path"
				}
				c.Violate("C12/score-scripted/"+cls, fmt.Sprintf("hash integer %v, message length %d: Score = %d (panic %v), floor(floor(3^243/h)/len) saturated = %d", h, l, got, p, want), map[string]interface{}{"hash": h.String(), "len": l}, "", nil)
			}
		}
	}
	vcurl.ScriptDigest = nil
	c.Set("scripted_score_digests", int64(len(hashes)))

	// ---- scripted batches through Mine: lane states at batch 0 and batch 3 ----
	if !powIntercepted(2) {
		c.Set("scripted_part", "skipped: Mine does not hash through a package the overlay instruments")
		return false
	}
	sweepCtx, sweepCancel := context.WithTimeout(context.Background(), 45*time.Minute)
	defer sweepCancel()
	cfgs := c12Configs(false)
	step := 7
	if c.Thorough() {
		step = 2
	}
	var jobs []c12config
	for i := 0; i < len(cfgs); i += step {
		if cfgs[i].msgLen <= 1000 {
			jobs = append(jobs, cfgs[i])
		}
	}
	vbct.Memo = false
	defer func() { vbct.Script = nil }()
	vsched.PassThroughPanics()
	// the script is global: run configurations one after the other, lanes in parallel inside the state
	for _, cfg := range jobs {
		hs := cfg.classes()
		type cls struct {
			h            *big.Int
			tr           [243]int8
			qual, strict bool
		}
		var cl []cls
		bg := -1
		for _, h := range hs {
			d := refDifficulty(h)
			cl = append(cl, cls{h, refTritsOfHash(h), d.Cmp(cfg.lx) >= 0, d.Cmp(cfg.lx) > 0})
			if !cl[len(cl)-1].qual && (bg < 0 || h.Cmp(cl[bg].h) < 0) {
				bg = len(cl) - 1 // the smallest unqualified hash: as close to the thresholds as possible
			}
		}
		if bg < 0 {
			continue
		}
		data := make([]byte, cfg.msgLen-8)
		if p := core.Catch(func() { powv2.VerifSufficientTrailingZeros(data, cfg.t) }); p != nil {
			continue
		}
		for _, B0 := range []int{0, 3} {
			for _, lane := range []int{0, 63, 17} {
				for a := range cl {
					// the scripted hash as a function of the hashed nonce n: nonce 64*B0+lane has the hash under test, every
					// nonce from block B0+2 on has hash integer 1 (qualifies for every target), all others the background
					var lanes [64][243]int8
					for j := range lanes {
						lanes[j] = cl[a].tr
					}
					la, ha := c12Planes(&lanes)
					for j := range lanes {
						lanes[j] = cl[bg].tr
					}
					lu, hu := c12Planes(&lanes)
					var zero [243]int8
					for j := range lanes {
						lanes[j] = zero
					}
					lq, hq := c12Planes(&lanes)
					vbct.Script = func(_ int, src []trinary.Trits, l, h *[consts.HashTrinarySize]uint) {
						var mA, mQ uint
						for j := range src {
							n, ok := powDecodeNonce(src[j])
							switch {
							case !ok:
							case n == uint64(64*B0+lane):
								mA |= 1 << uint(j)
							case n/64 > uint64(B0+1):
								mQ |= 1 << uint(j)
							}
						}
						mU := ^(mA | mQ)
						for i := range l {
							l[i] = la[i]&mA | lq[i]&mQ | lu[i]&mU
							h[i] = ha[i]&mA | hq[i]&mQ | hu[i]&mU
						}
					}
					var nonce uint64
					var err error
					p := core.Catch(func() { nonce, err = powv2.New(1).Mine(sweepCtx, data, cfg.t) })
					if sweepCtx.Err() != nil {
						c.CapHit()
						vbct.Script = nil
						return false
					}
					vsched.PassThroughWait()
					gp := vsched.PassThroughPanics()
					c.Eval(1)
					nontriv.Add(1)
					cas := map[string]interface{}{"msg_len": cfg.msgLen, "target": cfg.t, "batch": B0, "lane": lane, "lane_hash": cl[a].h.String(), "other_lanes_hash": cl[bg].h.String()}
					if p != nil || len(gp) > 0 || err != nil {
						c.Violate("C12/mine-scripted/error", fmt.Sprintf("len %d target %d: Mine failed: %v %v %v", cfg.msgLen, cfg.t, p, err, gp), cas, "", nil)
						continue
					}
					block, ln := int(nonce/64), int(nonce%64)
					switch {
					case block == B0 && ln == lane:
						if !cl[a].qual {
							c.Violate("C12/mine-scripted/unsound", fmt.Sprintf("len %d target %d: Mine returned nonce %d (batch %d lane %d) whose difficulty %v is below length*target %v", cfg.msgLen, cfg.t, nonce, block, ln, refDifficulty(cl[a].h), cfg.lx), cas, "", nil)
						}
					case block == B0:
						c.Violate("C12/mine-scripted/wrong-lane", fmt.Sprintf("len %d target %d: Mine returned lane %d of batch %d, which holds an unqualified hash", cfg.msgLen, cfg.t, ln, block), cas, "", nil)
					case block < B0 || block == B0+1:
						c.Violate("C12/mine-scripted/unsound", fmt.Sprintf("len %d target %d: Mine returned nonce %d from batch %d, which holds only unqualified hashes", cfg.msgLen, cfg.t, nonce, block), cas, "", nil)
					default: // ran past batch B0
						if cl[a].strict {
							c.Violate("C12/mine-scripted/passed-over", fmt.Sprintf("len %d target %d: lane %d of batch %d has difficulty %v > length*target %v but Mine went on to batch %d", cfg.msgLen, cfg.t, lane, B0, refDifficulty(cl[a].h), cfg.lx, block), cas, "", nil)
						}
					}
					// block accounting: the nonce must encode batch*64+lane from start nonce 0
					_ = binary.LittleEndian
				}
			}
		}
	}
	vbct.Script = nil
	powNonceSweeps(c, "C12", 2)
	c.Set("scripted_mine_configurations", int64(len(jobs)))
	c.Sample(map[string]interface{}{"scripted_mine": "batch 3 lane 63 holds targetHash, all other lanes and batches the smallest unqualified hash", "expect": "nonce 3*64+63"})
	_ = math.Pi
	return true
}
