package checks

// background starts f on its own goroutine and returns the function that waits for it. The build-variant passes are child
// processes: they run next to the main enumeration of a check instead of after it.
func background(f func()) (wait func()) {
	done := make(chan struct{})
	go func() { defer close(done); f() }()
	return func() { <-done }
}
