package checks

import (
	"bytes"
	"fmt"
	"sort"
	"strings"
	"sync"
	"sync/atomic"

	"github.com/wollac/iota-crypto-demo/pkg/bech32"

	"verifharness/core"
	rb "verifharness/ref/bech32"
)

func init() {
	core.Register(core.Check{ID: "C16", Level: "model_checking", Run: func(c *core.Ctx) {
		waitArch := background(func() { arch386Pass(c, "C16") })
		runC16(c)
		historyPass(c, "C16")
		reentrancyPass(c, "C16")
		waitArch()
	}})
}

const c16Window = 89 // h + d <= 89 for strings of <= 90 characters; must not be widened (see DESIGN.md)

type c16err struct {
	Pos int  `json:"pos_from_end"`
	Val byte `json:"xor"`
}

func c16Polymod(v []byte) uint32 { return uint32(bech32.VerifPolymod(v)) }

func runC16(c *core.Ctx) {
	th := c.Thorough()
	c.Rule = "syndrome model: states = syndromes of all single (89x31) and pair (C(89,2)x31^2) errors inside the 89-symbol window, taken from the real polymod; decision = no zero single, all singles distinct, no pair equal to a single, all pairs distinct (=> every error of weight <=4 has non-zero syndrome); acceptance constants: all 32^5 (thorough 32^6 = every 30-bit polymod value) checksum tails through the real Decode, any extra accepted constant is turned into weight<=4 patterns via the tables; model bound to the code by replaying every weight-2 (thorough: weight-3) pattern on the real polymod and every weight-1/2 (short words: 3, thorough 4) substitution through the real Decode"
	var transitions, validated int64

	// ---- conformance first: the real polymod against the BIP-173 transcription on every (length <= 100, one non-zero
	// symbol at any position with any value) and on all-equal sequences. A polymod that is not THE polymod is reported as
	// such (the model below would otherwise merely fail to describe it). ----
	for n := 0; n <= 100; n++ {
		for p := -1; p < n; p++ {
			for a := 1; a < 32; a++ {
				v := make([]byte, n)
				if p >= 0 {
					v[p] = byte(a)
				} else {
					for i := range v {
						v[i] = byte(a)
					}
				}
				validated++
				if got, want := c16Polymod(v), rb.Polymod(v); got != want {
					c.Violate("C16/polymod/differs-from-BIP173", fmt.Sprintf("polymod of %d symbols (%x) = %#x, BIP-173: %#x; the checksum is not the Bech32 BCH code", n, v, got, want), map[string]interface{}{"values": fmt.Sprintf("%x", v)}, "", nil)
					return
				}
			}
		}
	}

	// ---- the model: syndromes from the real polymod ----
	zero := make([]byte, c16Window)
	base0 := c16Polymod(zero)
	sigma := make([][32]uint32, c16Window) // sigma[p][a]
	for p := 0; p < c16Window; p++ {
		for a := 1; a < 32; a++ {
			v := make([]byte, c16Window)
			v[c16Window-1-p] = byte(a)
			sigma[p][a] = c16Polymod(v) ^ base0
			transitions++
		}
	}
	// length independence of the syndrome (positions counted from the end): every shorter window
	for n := 1; n < c16Window; n++ {
		z := make([]byte, n)
		b := c16Polymod(z)
		for _, p := range []int{0, n / 2, n - 1} {
			for _, a := range []int{1, 17, 31} {
				v := make([]byte, n)
				v[n-1-p] = byte(a)
				validated++
				if c16Polymod(v)^b != sigma[p][a] {
					c.Abort("syndrome of (pos %d, xor %d) depends on the length (%d vs %d): the linear model does not describe this polymod", p, a, n, c16Window)
					return
				}
			}
		}
	}

	type pat []c16err
	var collisions []pat
	// w1
	singles := map[uint32]c16err{}
	for p := 0; p < c16Window; p++ {
		for a := 1; a < 32; a++ {
			s := sigma[p][a]
			if s == 0 {
				collisions = append(collisions, pat{{p, byte(a)}})
				continue
			}
			if o, dup := singles[s]; dup { // w2 (different positions; same position would imply a zero single)
				collisions = append(collisions, pat{o, {p, byte(a)}})
			}
			singles[s] = c16err{p, byte(a)}
		}
	}
	// pairs
	type pr struct {
		syn        uint32
		p, q, a, b uint8
	}
	pairs := make([]pr, 0, 3763276)
	for p := 0; p < c16Window; p++ {
		for q := p + 1; q < c16Window; q++ {
			for a := 1; a < 32; a++ {
				for b := 1; b < 32; b++ {
					pairs = append(pairs, pr{sigma[p][a] ^ sigma[q][b], uint8(p), uint8(q), uint8(a), uint8(b)})
				}
			}
		}
	}
	transitions += int64(len(pairs))
	for _, x := range pairs { // w2 (zero pair) and w3 (pair == single elsewhere)
		if x.syn == 0 {
			collisions = append(collisions, pat{{int(x.p), x.a}, {int(x.q), x.b}})
		}
		if o, ok := singles[x.syn]; ok && o.Pos != int(x.p) && o.Pos != int(x.q) {
			collisions = append(collisions, pat{{int(x.p), x.a}, {int(x.q), x.b}, o})
		}
	}
	sort.Slice(pairs, func(i, j int) bool { return pairs[i].syn < pairs[j].syn })
	distinctPairs := int64(0)
	for i := range pairs { // w4 (and w3 with a shared position)
		if i == 0 || pairs[i].syn != pairs[i-1].syn {
			distinctPairs++
			continue
		}
		x, y := pairs[i-1], pairs[i]
		m := map[int]byte{}
		m[int(x.p)] ^= x.a
		m[int(x.q)] ^= x.b
		m[int(y.p)] ^= y.a
		m[int(y.q)] ^= y.b
		var pt pat
		for pos, v := range m {
			if v != 0 {
				pt = append(pt, c16err{pos, v})
			}
		}
		sort.Slice(pt, func(i, j int) bool { return pt[i].Pos < pt[j].Pos })
		if len(pt) > 0 && len(collisions) < 5000 {
			collisions = append(collisions, pt)
		}
	}
	states := int64(len(singles)) + distinctPairs
	c.Set("single_syndromes", int64(c16Window*31))
	c.Set("pair_syndromes", int64(len(pairs)))
	c.Set("distinct_pair_syndromes", distinctPairs)
	c.Set("model_collisions", int64(len(collisions)))

	// a model collision is an undetected error pattern of weight <= 4; confirm it on the real Decode
	if len(collisions) > 0 {
		confirmed := 0
		for _, pt := range collisions {
			if s, bad, ok := c16Realise(pt); ok {
				_, _, err := bech32.Decode(bad)
				validated++
				if err == nil {
					confirmed++
					c.Violate(fmt.Sprintf("C16/undetected/weight-%d", len(pt)), fmt.Sprintf("valid %q -> %q (%d substitutions) is accepted by Decode", s, bad, len(pt)),
						map[string]interface{}{"valid": s, "corrupted": bad, "pattern": pt},
						fmt.Sprintf("func TestC16(t *testing.T) { _, _, err := bech32.Decode(%q); if err == nil { t.Fatal(\"corrupted string accepted\") } }", bad), nil)
				}
			}
			if confirmed >= 50 {
				break
			}
		}
		if confirmed == 0 {
			c.Set("model_collisions_not_realisable", true) // masked by padding/length rules or not constructible: not a violation of the property
		}
	}

	// ---- acceptance set: which final polymod values does the real Decode accept? ----
	// For a fixed prefix, the 6 checksum symbols reach every 30-bit polymod value exactly once, so enumerating all 32^6
	// tails of "a1......" through the real Decode yields the exact set of accepted constants (BIP-173: only 1). A second
	// accepted constant c means every error pattern with syndrome 1^c is accepted; the syndrome tables then give the
	// patterns of weight <= 4, which are realised as strings and confirmed on Decode.
	tailSyms := 5 // quick: the first checksum symbol is kept, 2^25 tails
	if th {
		tailSyms = 6
	}
	{
		validTail := rb.CreateChecksum("a", nil)
		var accepted [][]byte
		var accMu sync.Mutex
		var tails atomic.Int64
		shards := 32 * 32
		core.Par(shards, func(sh int) {
			buf := []byte("a1qqqqqq")
			sym := make([]byte, 6)
			sym[5], sym[4] = byte(sh%32), byte(sh/32)
			n := 1
			for i := 0; i < tailSyms-2; i++ {
				n *= 32
			}
			for v := 0; v < n; v++ {
				x := v
				for i := 3; i >= 0; i-- {
					if i >= 6-tailSyms {
						sym[i] = byte(x % 32)
						x /= 32
					} else {
						sym[i] = validTail[i]
					}
				}
				for i := 0; i < 6; i++ {
					buf[2+i] = rb.Charset[sym[i]]
				}
				if _, _, err := bech32.Decode(string(buf)); err == nil {
					accMu.Lock()
					accepted = append(accepted, append([]byte{}, sym...))
					accMu.Unlock()
				}
			}
			tails.Add(int64(n))
		})
		if tailSyms < 6 {
			// quick tier: besides the 2^25 slice, probe a dictionary of plausible final constants (Bech32m's, 0, all ones,
			// every single bit, every single bit next to 1); the complete 2^30 enumeration is the thorough tier
			base := c16Polymod(append(append([]byte{}, bech32.VerifHrpExpand("a")...), 0, 0, 0, 0, 0, 0))
			consts := []uint32{0x2bc830a3, 0, 0x3fffffff, 2, 3}
			for k := uint(0); k < 30; k++ {
				consts = append(consts, 1<<k, 1^(1<<k))
			}
			for _, cst := range consts {
				if cst == 1 {
					continue
				}
				v := base ^ cst // the tail symbols that make the polymod equal cst
				sym := make([]byte, 6)
				for i := 0; i < 6; i++ {
					sym[i] = byte(v >> uint(5*(5-i)) & 31)
				}
				str := "a1"
				for _, d := range sym {
					str += string(rb.Charset[d])
				}
				tails.Add(1)
				if c16Polymod(append(append([]byte{}, bech32.VerifHrpExpand("a")...), sym...)) != cst {
					c.Abort("cannot steer the polymod to %#x: the linear model does not describe this polymod", cst)
					return
				}
				if _, _, err := bech32.Decode(str); err == nil {
					accepted = append(accepted, sym)
				}
			}
		}
		validated += tails.Load()
		c.Set("checksum_tails_enumerated_through_Decode", tails.Load())
		c.Set("accepted_tails", int64(len(accepted)))
		prefix := append([]byte{}, bech32.VerifHrpExpand("a")...)
		for _, tl := range accepted {
			diff := 0
			for i := range tl {
				if tl[i] != validTail[i] {
					diff++
				}
			}
			if diff == 0 {
				continue
			}
			str := "a1"
			for _, d := range tl {
				str += string(rb.Charset[d])
			}
			if diff <= 4 {
				c.Violate(fmt.Sprintf("C16/decode/tail/weight-%d", diff), fmt.Sprintf("valid \"a12uel5l\" -> %q (%d substitutions) is accepted by Decode", str, diff), str, "", nil)
				continue
			}
			delta := c16Polymod(append(append([]byte{}, prefix...), tl...)) ^ 1
			c.Set("extra_accepted_polymod_constant", fmt.Sprintf("%#x (string %q)", delta^1, str))
			// patterns of weight <= 4 with syndrome delta
			find := func(x uint32) (pr, bool) {
				i := sort.Search(len(pairs), func(i int) bool { return pairs[i].syn >= x })
				if i < len(pairs) && pairs[i].syn == x {
					return pairs[i], true
				}
				return pr{}, false
			}
			var pats []pat
			if o, ok := singles[delta]; ok {
				pats = append(pats, pat{o})
			}
			if x, ok := find(delta); ok {
				pats = append(pats, pat{{int(x.p), x.a}, {int(x.q), x.b}})
			}
			for sp := 0; sp < c16Window && len(pats) < 400; sp++ {
				for a := 1; a < 32; a++ {
					if x, ok := find(delta ^ sigma[sp][a]); ok && int(x.p) != sp && int(x.q) != sp {
						pats = append(pats, pat{{sp, byte(a)}, {int(x.p), x.a}, {int(x.q), x.b}})
					}
				}
			}
			for i := 0; i < len(pairs) && len(pats) < 2000; i++ {
				y := pairs[i]
				if x, ok := find(delta ^ y.syn); ok && x.p != y.p && x.p != y.q && x.q != y.p && x.q != y.q && x.p > y.p {
					pats = append(pats, pat{{int(y.p), y.a}, {int(y.q), y.b}, {int(x.p), x.a}, {int(x.q), x.b}})
				}
			}
			c.Set("coset_patterns_of_weight_le_4", int64(len(pats)))
			confirmed := 0
			for _, pt := range pats {
				if vs, bad, ok := c16Realise(pt); ok {
					validated++
					if _, _, err := bech32.Decode(bad); err == nil {
						confirmed++
						c.Violate(fmt.Sprintf("C16/coset/weight-%d", len(pt)), fmt.Sprintf("Decode also accepts checksum constant %#x; valid %q -> %q (%d substitutions) is accepted", delta^1, vs, bad, len(pt)),
							map[string]interface{}{"valid": vs, "corrupted": bad, "pattern": pt},
							fmt.Sprintf("func TestC16(t *testing.T) { _, _, err := bech32.Decode(%q); if err == nil { t.Fatal(\"corrupted string accepted\") } }", bad), nil)
						if confirmed >= 20 {
							break
						}
					}
				}
			}
		}
	}

	// ---- boundary values of the checksum's intermediate state ----
	// The running polymod after the prefix expansion (and after k data symbols) is steered to special values - 0, 1, 2, all
	// ones, single bits - by solving for the last six prefix characters (appending six symbols XORs them into the state).
	// For such prefixes: the valid string must decode, and every single same-kind substitution in the prefix and every
	// single data substitution must be rejected.
	{
		targets := []uint32{0, 1, 2, 3, 0x3fffffff, 1 << 29, 1 << 25, 1 << 24, 0x3b6a57b2, 0x2bc830a3}
		built := 0
		ramp := func(n int) []byte {
			b := make([]byte, n)
			for i := range b {
				b[i] = byte(i*53 + 7)
			}
			return b
		}
		for _, tgt := range targets {
			for _, stem := range []string{"a", "net", "tiotaprefix"} {
				// expansion = highs(stem+tail) 0 lows(stem) lows(tail); highs of `..~ are all 3
				tail := []byte("``````")
				full := stem + string(tail)
				vals := bech32.VerifHrpExpand(full)
				// zero the six last low symbols, then the needed symbols are the state itself
				for i := 0; i < 6; i++ {
					vals[len(vals)-6+i] = 0
				}
				need := c16Polymod(vals) ^ tgt
				ok := true
				for i := 0; i < 6; i++ {
					sym := byte(need >> uint(5*(5-i)) & 31)
					if sym == 31 { // 0x7f is not allowed in a prefix
						ok = false
					}
					tail[i] = 0x60 | sym
				}
				if !ok {
					continue
				}
				hrp := stem + string(tail)
				if c16Polymod(bech32.VerifHrpExpand(hrp)) != tgt {
					c.Abort("cannot steer the prefix state to %#x", tgt)
					return
				}
				built++
				for _, data := range [][]byte{nil, ramp(3), ramp(20)} {
					valid, ok := rb.Encode(hrp, data)
					if !ok {
						continue
					}
					validated++
					if h, d, err := bech32.Decode(valid); err != nil || h != hrp || !bytes.Equal(d, data) && len(data) > 0 {
						c.Violate("C16/state-boundary/valid-rejected", fmt.Sprintf("prefix %q puts the running checksum at %#x before the data part: Decode(%q) = %q,%x,%v", hrp, tgt, valid, h, d, err), valid, "", nil)
						continue
					}
					if enc, err := bech32.Encode(hrp, data); err != nil || enc != valid {
						c.Violate("C16/state-boundary/encode-differs", fmt.Sprintf("Encode(%q) = %q, reference %q", hrp, enc, valid), valid, "", nil)
					}
					b := []byte(valid)
					for i := range b {
						if i == len(hrp) {
							continue
						}
						orig := b[i]
						alts := rb.Charset
						if i < len(hrp) {
							alts = "`abcdefghijklmnopqrstuvwxyz{|}~" // same kind: the high bits stay 3
						}
						for k := 0; k < len(alts); k++ {
							if alts[k] == orig {
								continue
							}
							b[i] = alts[k]
							validated++
							if _, _, err := bech32.Decode(string(b)); err == nil {
								c.Violate("C16/state-boundary/undetected", fmt.Sprintf("valid %q -> %q (1 substitution, running checksum %#x after the prefix) is accepted by Decode", valid, string(b), tgt), map[string]string{"valid": valid, "corrupted": string(b)}, "", nil)
							}
						}
						b[i] = orig
					}
				}
			}
		}
		c.Set("state_boundary_prefixes", int64(built))
	}

	// ---- binding (i): additivity on the real polymod, every weight-2 pattern, three base vectors ----
	bases := [][]byte{zero, make([]byte, c16Window), make([]byte, c16Window)}
	for i := range bases[1] {
		bases[1][i] = 31
		bases[2][i] = byte((i*11 + 5) % 32)
	}
	var mism atomic.Int64
	var repl atomic.Int64
	for _, bv := range bases {
		bpm := c16Polymod(bv)
		core.Par(c16Window, func(p int) {
			v := append([]byte{}, bv...)
			for q := p + 1; q < c16Window; q++ {
				for a := 1; a < 32; a++ {
					v[c16Window-1-p] = bv[c16Window-1-p] ^ byte(a)
					for b := 1; b < 32; b++ {
						v[c16Window-1-q] = bv[c16Window-1-q] ^ byte(b)
						if c16Polymod(v)^bpm != sigma[p][a]^sigma[q][b] {
							mism.Add(1)
						}
					}
				}
				v[c16Window-1-q] = bv[c16Window-1-q]
			}
			repl.Add(int64((c16Window - 1 - p) * 961))
		})
	}
	if th {
		// every weight-3 pattern on one base vector
		bv := bases[2]
		bpm := c16Polymod(bv)
		type pq struct{ p, q int }
		var pqs []pq
		for p := 0; p < c16Window; p++ {
			for q := p + 1; q < c16Window; q++ {
				pqs = append(pqs, pq{p, q})
			}
		}
		var capped atomic.Bool
		core.Par(len(pqs), func(i int) {
			if capped.Load() || (i%64 == 0 && c.OverBudget()) {
				capped.Store(true)
				return
			}
			p, q := pqs[i].p, pqs[i].q
			v := append([]byte{}, bv...)
			n := int64(0)
			for r := q + 1; r < c16Window; r++ {
				for a := 1; a < 32; a++ {
					v[c16Window-1-p] = bv[c16Window-1-p] ^ byte(a)
					for b := 1; b < 32; b++ {
						v[c16Window-1-q] = bv[c16Window-1-q] ^ byte(b)
						sab := sigma[p][a] ^ sigma[q][b]
						for d := 1; d < 32; d++ {
							v[c16Window-1-r] = bv[c16Window-1-r] ^ byte(d)
							if c16Polymod(v)^bpm != sab^sigma[r][d] {
								mism.Add(1)
							}
						}
					}
				}
				v[c16Window-1-r] = bv[c16Window-1-r]
				n += 29791
			}
			repl.Add(n)
		})
		c.Set("weight3_additivity_complete", !capped.Load())
	}
	validated += repl.Load()
	c.Set("additivity_patterns_replayed_on_real_polymod", repl.Load())
	if mism.Load() > 0 {
		c.Abort("real polymod is not additive on %d replayed patterns: the linear syndrome model does not describe it", mism.Load())
		return
	}

	// ---- binding (ii): through the real Decode ----
	ramp := func(n int) []byte {
		b := make([]byte, n)
		for i := range b {
			b[i] = byte(i*53 + 7)
		}
		return b
	}
	type word struct {
		hrp  string
		data []byte
		maxW int
	}
	words := []word{
		{"a", nil, 3}, {"a7", ramp(1), 3},
		{"iota", ramp(5), 2}, {"SMR2", ramp(21), 2}, {strings.Repeat("k", 83), nil, 2}, {"x", ramp(51), 2},
	}
	if th {
		words[0].maxW, words[1].maxW = 4, 4
	}
	var decodeCalls atomic.Int64
	for _, w := range words {
		valid, err := bech32.Encode(w.hrp, w.data)
		if err != nil {
			c.Abort("cannot build code word: %v", err)
			return
		}
		if _, _, err := bech32.Decode(valid); err != nil {
			c.Violate("C16/setup/valid-rejected", fmt.Sprintf("Decode(Encode(%q,...)) fails: %v", w.hrp, err), valid, "", nil)
			continue
		}
		upper := valid != strings.ToLower(valid)
		cs := rb.Charset
		letters, digits := "abcdefghijklmnopqrstuvwxyz", "0123456789"
		if upper {
			cs, letters = strings.ToUpper(cs), strings.ToUpper(letters)
		}
		hl := len(w.hrp)
		// substitution sites: index in string, alternatives
		type site struct {
			idx  int
			alts string
		}
		var dataSites, hrpSites []site
		for i := hl + 1; i < len(valid); i++ {
			dataSites = append(dataSites, site{i, strings.ReplaceAll(cs, string(valid[i]), "")})
		}
		for i := 0; i < hl; i++ {
			ch := valid[i]
			switch {
			case strings.IndexByte(letters, ch) >= 0:
				hrpSites = append(hrpSites, site{i, strings.ReplaceAll(letters, string(ch), "")})
			case strings.IndexByte(digits, ch) >= 0:
				hrpSites = append(hrpSites, site{i, strings.ReplaceAll(digits, string(ch), "")})
			}
		}
		check := func(buf []byte, weight int, kind string) {
			decodeCalls.Add(1)
			if _, _, err := bech32.Decode(string(buf)); err == nil {
				bad := string(buf)
				c.Violate(fmt.Sprintf("C16/decode/%s/weight-%d", kind, weight), fmt.Sprintf("valid %q -> %q (%d substitutions) is accepted by Decode", valid, bad, weight),
					map[string]interface{}{"valid": valid, "corrupted": bad},
					fmt.Sprintf("func TestC16(t *testing.T) { _, _, err := bech32.Decode(%q); if err == nil { t.Fatal(\"corrupted string accepted\") } }", bad), nil)
			}
		}
		// data-part patterns of weight 1..maxW
		var rec func(buf []byte, from, depth, maxW int)
		rec = func(buf []byte, from, depth, maxW int) {
			if depth > 0 {
				check(buf, depth, "data")
			}
			if depth == maxW {
				return
			}
			for si := from; si < len(dataSites); si++ {
				s := dataSites[si]
				orig := buf[s.idx]
				for k := 0; k < len(s.alts); k++ {
					buf[s.idx] = s.alts[k]
					rec(buf, si+1, depth+1, maxW)
				}
				buf[s.idx] = orig
			}
		}
		core.Par(len(dataSites), func(si int) {
			buf := []byte(valid)
			s := dataSites[si]
			for k := 0; k < len(s.alts); k++ {
				buf[s.idx] = s.alts[k]
				rec(buf, si+1, 1, w.maxW)
			}
		})
		// hrp same-kind substitutions (1 or 2 of them) combined with <= 1 (short words <= 2) data substitution
		extra := 1
		if w.maxW >= 3 {
			extra = 2
		}
		core.Par(len(hrpSites), func(hi int) {
			hs := hrpSites[hi]
			for k := 0; k < len(hs.alts); k++ {
				buf := []byte(valid)
				buf[hs.idx] = hs.alts[k]
				check(buf, 1, "hrp")
				rec(buf, 0, 0, extra) // depth counts data substitutions here; weight label is approximate
				for hj := hi + 1; hj < len(hrpSites) && hj < hi+3; hj++ {
					h2 := hrpSites[hj]
					for k2 := k % 7; k2 < len(h2.alts); k2 += 7 {
						buf[h2.idx] = h2.alts[k2]
						check(buf, 2, "hrp")
						for _, s := range dataSites {
							o := buf[s.idx]
							for d := 0; d < len(s.alts); d++ {
								buf[s.idx] = s.alts[d]
								check(buf, 3, "hrp+data")
							}
							buf[s.idx] = o
						}
					}
					buf[h2.idx] = valid[h2.idx]
				}
			}
		})
		c.Sample(map[string]interface{}{"code_word": valid, "max_weight_through_Decode": w.maxW})
	}
	validated += decodeCalls.Load()
	c.Set("decode_calls", decodeCalls.Load())
	c.Set("states", states)
	c.Set("transitions", transitions)
	c.Set("traces_validated_against_impl", validated)
	c.Eval(validated + transitions)
	c.NonTrivial(states)
	c.SetExhaustive(true)
	c.Assume = []string{"GF(2)-linearity of the polymod beyond the weights replayed (weight 2 quick, weight 3 thorough) for long strings", "a same-kind hrp substitution changes only the low five bits of that character (true for ASCII letters of one case and for digits)"}
}

// c16Realise builds a valid string with the repository's own Encode and applies the error pattern (positions from
// the end of the checksummed sequence: data symbols first, then the low symbols of the hrp). ok=false if the pattern
// cannot be expressed as same-kind substitutions.
func c16Realise(pt []c16err) (valid, bad string, ok bool) {
	maxPos := 0
	for _, e := range pt {
		if e.Pos > maxPos {
			maxPos = e.Pos
		}
	}
	// choose data length so that all positions fall into the data part if possible
	for _, nbytes := range []int{0, 5, 10, 20, 30, 40, 51} {
		d := (nbytes*8+4)/5 + 6
		h := 1
		if maxPos >= d {
			h = maxPos - d + 1
		}
		if h+1+d > 90 {
			continue
		}
		if maxPos >= d && nbytes != 51 && maxPos < 88 {
			continue // prefer a longer data part over hrp errors
		}
		hrp := []byte(strings.Repeat("e", h))
		data := make([]byte, nbytes)
		for i := range data {
			data[i] = byte(i*91 + 3)
		}
		// pick hrp letters so that letter^xor stays a letter
		feasible := true
		for _, e := range pt {
			if e.Pos >= d {
				hi := h - 1 - (e.Pos - d)
				found := false
				for x := byte(1); x <= 26 && !found; x++ {
					if y := x ^ e.Val; y >= 1 && y <= 26 {
						hrp[hi] = 0x60 | x
						found = true
					}
				}
				feasible = feasible && found
			}
		}
		if !feasible {
			continue
		}
		s, err := bech32.Encode(string(hrp), data)
		if err != nil {
			continue
		}
		b := []byte(s)
		for _, e := range pt {
			if e.Pos < d {
				i := len(b) - 1 - e.Pos
				sym := strings.IndexByte(rb.Charset, b[i])
				b[i] = rb.Charset[byte(sym)^e.Val]
			} else {
				hi := h - 1 - (e.Pos - d)
				b[hi] = 0x60 | ((b[hi] & 31) ^ e.Val)
			}
		}
		return s, string(b), true
	}
	return "", "", false
}
