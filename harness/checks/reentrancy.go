package checks

// Re-entrancy pass: the properties are stated per call ("for every input ..."), so a call must give its specified
// result no matter what other goroutines are doing with the same package. Package-level scratch state (a hoisted
// buffer, a shared big.Int, a memo table without a lock) breaks that without changing any sequential behaviour.
// The deciding engines enumerate inputs, histories and schedules of instrumented code; unsynchronised plain accesses
// are invisible to them, so - as for C13 - a separate free-running pass under the race detector covers them:
// build/vcheck-race runs every ordered pair of a property's representative operations concurrently, checks every
// result, and the race detector reports unsynchronised sharing even when no result happens to be corrupted.
// This pass is sampling over schedules (reported as such in the evidence), exhaustive over operation pairs.

import (
	"bytes"
	"context"
	"fmt"
	"os"
	"os/exec"
	"path/filepath"
	"regexp"
	"strings"
	"sync"
	"time"

	"verifharness/core"
)

type reOp struct {
	name string
	run  func() string // fingerprint of the observable result; must be deterministic
}

var reentrancyOps = map[string]func() []reOp{}

func init() { core.Register(core.Check{ID: "REENTRANCY", Level: "other", Run: runReentrancyChild}) }

// runReentrancyChild runs inside build/vcheck-race (VERIF_RE_ID names the property).
func runReentrancyChild(c *core.Ctx) {
	id := os.Getenv("VERIF_RE_ID")
	mk, ok := reentrancyOps[id]
	c.Set("explanation", "re-entrancy pass of "+id+" under the race detector; not a check")
	c.NonTrivial(2)
	c.Eval(1)
	if !ok {
		fmt.Printf("REENTRANCY id=%s pairs=0 mismatches=0\n", id)
		return
	}
	ops := mk()
	// cold mode: the very first use of the package in this process is a pair of operations running concurrently (lazily
	// built tables, sync.Once-free "init on first use", first-use-wins caches); the sequential values are taken afterwards
	if cold := os.Getenv("VERIF_RE_COLD"); cold != "" {
		var i, j int
		fmt.Sscanf(cold, "%d,%d", &i, &j)
		i, j = i%len(ops), j%len(ops)
		res := make([]string, 4)
		var wg sync.WaitGroup
		start := make(chan struct{})
		for k, oi := range []int{i, j, i, j} {
			wg.Add(1)
			go func(k, oi int) {
				defer wg.Done()
				<-start
				res[k] = ops[oi].run()
			}(k, oi)
		}
		close(start)
		wg.Wait()
		mism, first := 0, ""
		for k, oi := range []int{i, j, i, j} {
			if w := ops[oi].run(); w != res[k] {
				mism++
				if first == "" {
					first = fmt.Sprintf("%s, run as the first use of the package next to %s, returned %.80q; afterwards it returns %.80q", ops[oi].name, ops[[]int{j, i, j, i}[k]].name, res[k], w)
				}
			}
		}
		fmt.Printf("REENTRANCY id=%s pairs=1 mismatches=%d %s\n", id, mism, first)
		return
	}
	want := make([]string, len(ops))
	for i, o := range ops {
		want[i] = o.run()
		if again := o.run(); again != want[i] {
			fmt.Printf("REENTRANCY id=%s pairs=0 mismatches=0 unstable=%s\n", id, o.name)
			return
		}
	}
	rounds, budget := 6, 6*time.Second
	if c.Thorough() {
		rounds, budget = 40, 60*time.Second
	}
	// time slice of one pair in one round: the budget spread over all pairs and rounds, at most 25 ms
	slice := budget / time.Duration(rounds*len(ops)*len(ops)+1)
	if slice > 25*time.Millisecond {
		slice = 25 * time.Millisecond
	}
	pairs, mism := 0, 0
	var first string
	t0 := time.Now()
	for r := 0; r < rounds; r++ {
		if r > 0 && time.Since(t0) > budget {
			break // every ordered pair has run at least once
		}
		for i := range ops {
			for j := range ops {
				var wg sync.WaitGroup
				res := make([]string, 3)
				start := make(chan struct{})
				for k, oi := range []int{i, j, i} {
					wg.Add(1)
					go func(k, oi int) {
						defer wg.Done()
						<-start
						// at least 3 repetitions; cheap operations keep going for the pair's time slice (narrow windows
						// between two non-atomic steps need many overlapping attempts)
						t0 := time.Now()
						for n := 0; n < 3 || (n < 4000 && time.Since(t0) < slice); n++ {
							if got := ops[oi].run(); got != want[oi] {
								res[k] = got
								break
							}
						}
					}(k, oi)
				}
				close(start)
				wg.Wait()
				pairs++
				for k, oi := range []int{i, j, i} {
					if res[k] != "" {
						mism++
						if first == "" {
							first = fmt.Sprintf("%s running next to %s returned %.80q, sequentially it returns %.80q", ops[oi].name, ops[[]int{j, i, j}[k]].name, res[k], want[oi])
						}
					}
				}
			}
		}
	}
	fmt.Printf("REENTRANCY id=%s pairs=%d mismatches=%d %s\n", id, pairs, mism, first)
}

var reRe = regexp.MustCompile(`(?m)^REENTRANCY id=(\S+) pairs=(\d+) mismatches=(\d+) ?(.*)$`)

// reentrancyPass is called by a property's check (plain or sched binary): runs the child and reports.
func reentrancyPass(c *core.Ctx, id string) {
	bin := filepath.Join(core.VerifDir, "build", "vcheck-race")
	if _, err := os.Stat(bin); err != nil {
		c.Set("reentrancy_pass", "build/vcheck-race not found: skipped")
		return
	}
	reentrancyRun(c, id, bin, "", "")
	// the portable (purego) variant of the code has its own statics: same pass in build/vcheck-purego-race where it exists
	if pbin := filepath.Join(core.VerifDir, "build", "vcheck-purego-race"); id == "C06" || id == "C20" {
		if _, err := os.Stat(pbin); err == nil {
			reentrancyRun(c, id, pbin, "", "purego")
			reentrancyRun(c, id, pbin, "0,1", "purego")
		}
	}
	// cold starts: fresh processes whose first use of the package is a concurrent pair (i, j)
	if mk, ok := reentrancyOps[id]; ok {
		n := len(mk())
		if n > 0 {
			var pairs [][2]int
			for i := 0; i < n && len(pairs) < 6; i++ {
				pairs = append(pairs, [2]int{i, i}, [2]int{i, (i + 1) % n})
			}
			if c.Thorough() {
				pairs = pairs[:0]
				for i := 0; i < n; i++ {
					for j := 0; j < n; j++ {
						pairs = append(pairs, [2]int{i, j})
					}
				}
			}
			core.Par(len(pairs), func(k int) {
				reentrancyRun(c, id, bin, fmt.Sprintf("%d,%d", pairs[k][0], pairs[k][1]), "")
			})
			c.Set("reentrancy_cold_starts", int64(len(pairs)))
		}
	}
}

// reentrancyRun runs one child of the re-entrancy pass (cold: "i,j" for a cold-start pair) and reports.
func reentrancyRun(c *core.Ctx, id, bin, cold, variant string) {
	tag := "reentrancy"
	if cold != "" {
		tag = "reentrancy-cold-start"
	}
	if variant != "" {
		tag = variant + "/" + tag
	}
	tmp, _ := os.MkdirTemp("", "reentrancy")
	defer os.RemoveAll(tmp)
	ctx, cancel := context.WithTimeout(context.Background(), 10*time.Minute)
	defer cancel()
	cmd := exec.CommandContext(ctx, bin, "REENTRANCY", c.Tier)
	cmd.Env = append(os.Environ(), "VERIF_DIR="+tmp, "VERIF_RE_ID="+id, "VERIF_RE_COLD="+cold, "GORACE=halt_on_error=1 exitcode=66", "VERIF_CHILD=1")
	var out, errb bytes.Buffer
	cmd.Stdout, cmd.Stderr = &out, &errb
	err := cmd.Run()
	m := reRe.FindStringSubmatch(out.String())
	switch {
	case strings.Contains(errb.String(), "WARNING: DATA RACE"):
		log := errb.String()
		if len(log) > 6000 {
			log = log[:6000]
		}
		if strings.Contains(log, "iota-crypto-demo/pkg/") {
			c.Violate(id+"/"+tag+"/data-race", "two concurrent calls share unsynchronised state (race detector report in the replay file); results of one call can be corrupted by another", map[string]interface{}{"report": log}, "", nil)
		} else {
			c.Abort("race detector fired outside the repository: %s", log)
		}
	case m == nil:
		if strings.Contains(errb.String(), "iota-crypto-demo/pkg/") {
			c.Violate(id+"/"+tag+"/crash", "the concurrent pass died inside repository code: "+tail(errb.String(), 1500), nil, "", nil)
		} else {
			c.Set("reentrancy_pass", fmt.Sprintf("no result (%v): %s", err, tail(errb.String(), 300)))
		}
	case strings.Contains(m[4], "unstable="):
		c.Set("reentrancy_pass", "skipped: "+m[4])
	default:
		if cold == "" && variant == "" {
			c.Set("reentrancy_pairs_run", m[2])
		}
		if m[3] != "0" {
			c.Violate(id+"/"+tag+"/wrong-result", "a call returned a different result while another call was running: "+m[4], nil, "", nil)
		}
	}
}
