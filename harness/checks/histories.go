package checks

// History pass (E2 on stateless APIs): every property here is stated per call, so the result of a call is a function
// of its arguments alone. Hidden state breaks that without being visible to any single-call enumeration: a cache keyed
// by the wrong thing, a memo that keeps a caller's slice, a result that aliases an internal table, a pooled object
// returned dirty by an early exit. This pass explores ALL call histories of bounded length over a small alphabet of
// operations per property, the way a caller that recycles memory would make them:
//
//   - every slice / *big.Int argument is taken from an arena of re-used buffers (the same backing array carries the
//     argument of one call and, overwritten in place, of the next one);
//   - every mutable result (returned slices, big.Ints, string slices) is scribbled over by the "caller" right after its
//     fingerprint has been taken;
//   - the whole history runs on one locked OS thread, so that per-P pools hand back what was just put;
//   - each call's fingerprint is compared with the value an independent reference gives for its arguments.
//
// histories of length <= depth are enumerated completely (no sampling); evidence reports the count.

import (
	"fmt"
	"math/big"
	"runtime"

	"verifharness/core"
)

type arena struct {
	bufs map[int][]byte
	ints map[int]*big.Int
	want map[int][]byte // content each input buffer was handed out with (arguments must not be written by the callee)
	wnum map[int]*big.Int
	outs map[int]bool  // slots handed out as output buffers
	hold func() string // set by an op: re-reads a result the caller keeps (it must stay what it was)
}

// wipe overwrites every buffer and number the caller handed out (content only; the backing arrays stay).
func (a *arena) wipe() {
	for _, b := range a.bufs {
		for i := range b {
			b[i] = 0x5A
		}
	}
	for _, x := range a.ints {
		x.SetInt64(0x5A5A5A)
	}
}

func newArena() *arena {
	return &arena{bufs: map[int][]byte{}, ints: map[int]*big.Int{}, want: map[int][]byte{}, wnum: map[int]*big.Int{}, outs: map[int]bool{}}
}

// buf returns the slot's buffer holding content: same backing array on every use (grown once to 1 KiB + need), so
// consecutive calls see "the same caller buffer, overwritten in place". Capacity beyond len is poisoned.
func (a *arena) buf(slot int, content []byte) []byte {
	b := a.bufs[slot]
	if cap(b) < len(content)+64 {
		b = make([]byte, 0, len(content)+4096)
	}
	b = b[:cap(b)]
	for i := range b {
		b[i] = 0xEE
	}
	b = b[:len(content)]
	copy(b, content)
	a.bufs[slot] = b
	a.want[slot] = append([]byte{}, content...)
	delete(a.outs, slot)
	return b
}

// out returns the slot's buffer as an output buffer of n bytes (the callee may write it).
func (a *arena) out(slot, n int) []byte {
	b := a.buf(slot, make([]byte, n))
	a.outs[slot] = true
	return b
}

// modified names an input argument the callee wrote to (or wrote behind), "" if none.
func (a *arena) modified() string {
	for slot, w := range a.want {
		b := a.bufs[slot]
		if a.outs[slot] {
			if tailWritten(b) {
				return fmt.Sprintf("memory behind output buffer %d", slot)
			}
			continue
		}
		if len(b) != len(w) || string(b) != string(w) {
			return fmt.Sprintf("argument buffer %d", slot)
		}
		if tailWritten(b) {
			return fmt.Sprintf("memory behind argument buffer %d", slot)
		}
	}
	for slot, w := range a.wnum {
		if a.ints[slot].Cmp(w) != 0 {
			return fmt.Sprintf("big.Int argument %d", slot)
		}
	}
	return ""
}

// num returns the slot's big.Int set (in place) to v.
func (a *arena) num(slot int, v *big.Int) *big.Int {
	x := a.ints[slot]
	if x == nil {
		x = new(big.Int)
		a.ints[slot] = x
	}
	a.wnum[slot] = new(big.Int).Set(v)
	return x.Set(v)
}

// tail reports whether anything was written into the poisoned capacity behind a buffer obtained from buf.
func tailWritten(b []byte) bool {
	full := b[:cap(b)]
	for _, v := range full[len(b):] {
		if v != 0xEE {
			return true
		}
	}
	return false
}

type hOp struct {
	name string
	want string // fingerprint from the reference model; "*" = the call only pollutes, its result is not judged
	// run performs the call with arguments taken from the arena; it returns the fingerprint of the observable result
	// and scribbles over every mutable result before returning (the caller owns them).
	run func(a *arena) string
}

func scribble(bs ...[]byte) {
	for _, b := range bs {
		for i := range b {
			b[i] = 0xA5
		}
	}
}

func scribbleInts(xs ...*big.Int) {
	for _, x := range xs {
		if x != nil {
			x.SetInt64(-0x5A5A5A5A)
		}
	}
}

// historyOps builds the operations of a property. salt selects the identities (keys, seeds, sizes) the operations use:
// salt 0 is the canonical set; every other salt gives identities this process has never used before, so that
// "first use wins" caches are cold when the history starts.
// historyCheapOps: properties whose operations are cheap enough for depth 3 with more than 12 operations.
var historyCheapOps = map[string]bool{"C17": true, "C14": true, "C04": true, "C05": true, "C01": true, "C07": true, "C10": true, "C19": true, "C16": true}

// historyCostlyOps: properties whose operations (or whose construction of fresh identities) are expensive; the capacity
// pass stops at 65 other identities for them.
var historyCostlyOps = map[string]bool{"C02": true, "C08": true, "C03": true, "C09": true, "C11": true, "C12": true, "C13": true, "C06": true, "C20": true, "C18": true, "C17": true}

var historyOps = map[string]func(c *core.Ctx, salt int) []hOp{}

// historyPass enumerates all histories of length <= depth over the property's operations.
func historyPass(c *core.Ctx, id string) {
	mk, ok := historyOps[id]
	if !ok {
		return
	}
	mk0 := mk
	mk = func(c *core.Ctx, salt int) []hOp {
		ops := mk0(c, salt)
		if sw, ok := historySweeps[id]; ok && len(ops) > 0 {
			ops = append(ops, sw(salt))
		}
		return ops
	}
	ops := mk(c, 0)
	if len(ops) == 0 {
		return
	}
	base := len(ops) // the depth rule counts the property's own operations, not the method sweep appended above
	if _, ok := historySweeps[id]; ok {
		base--
	}
	depth := 3
	if base > 12 && !historyCheapOps[id] {
		depth = 2
	}
	if c.Thorough() && base <= 10 {
		depth = 4
	}
	done := make(chan struct{})
	var seqs int64
	evalOnly := false
	go func() {
		defer close(done)
		runtime.LockOSThread()
		defer runtime.UnlockOSThread()
		var rec func(hist []int)
		var rec2 func(o []hOp, hist []int)
		rec2 = func(o []hOp, hist []int) {
			saved := ops
			ops = o
			depthSaved := depth
			depth = len(hist) // evaluate exactly this history, no extension
			evalOnly = true
			rec(hist)
			evalOnly = false
			depth = depthSaved
			ops = saved
		}
		rec = func(hist []int) {
			if len(hist) > 0 {
				seqs++
				a := newArena()
				var got string
				var p interface{}
				var held []func() string
				var heldFp, heldBy []string
				for i, o := range hist {
					var g string
					a.hold = nil
					a.want, a.wnum = map[int][]byte{}, map[int]*big.Int{}
					q := core.Catch(func() { g = ops[o].run(a) })
					if m := a.modified(); m != "" && q == nil {
						c.Violate(id+"/history/argument-modified", fmt.Sprintf("%s wrote to %s of its caller", ops[o].name, m), ops[o].name, "", nil)
					}
					var h0 string
					if a.hold != nil && q == nil {
						h0 = a.hold()
					}
					a.wipe() // the caller wipes / recycles every buffer it passed in
					if a.hold != nil && q == nil {
						if h1 := a.hold(); h1 != h0 {
							c.Violate(id+"/history/result-aliases-argument", fmt.Sprintf("the result of %s changed from %.80q to %.80q when the caller overwrote the buffers it had passed in", ops[o].name, h0, h1), ops[o].name, "", nil)
						}
					}
					if i == len(hist)-1 {
						got, p = g, q
					}
					// results the caller still holds (strings, values) must not change when later calls are made
					for k, h := range held {
						if now := h(); now != heldFp[k] {
							c.Violate(id+"/history/result-changed-later", fmt.Sprintf("the result of %s changed from %.80q to %.80q when %s was called afterwards", heldBy[k], heldFp[k], now, ops[o].name), []string{heldBy[k], ops[o].name}, "", nil)
							heldFp[k] = now
						}
					}
					if a.hold != nil && q == nil {
						held, heldFp, heldBy = append(held, a.hold), append(heldFp, a.hold()), append(heldBy, ops[o].name)
					}
				}
				last := ops[hist[len(hist)-1]]
				if last.want != "*" && (p != nil || got != last.want) {
					names := []string{}
					for _, o := range hist {
						names = append(names, ops[o].name)
					}
					what := fmt.Sprintf("after the calls %v (arguments in re-used buffers, earlier results overwritten by the caller), %s gives %.120q (panic %v); the specification gives %.120q for these arguments regardless of history", names[:len(names)-1], last.name, got, p, last.want)
					if len(hist) == 1 {
						what = fmt.Sprintf("%s gives %.120q (panic %v); the specification gives %.120q", last.name, got, p, last.want)
					}
					c.Violate(id+"/history/"+last.name, what, names, "", nil)
				}
			}
			if len(hist) >= depth || evalOnly {
				return
			}
			for o := range ops {
				rec(append(append([]int{}, hist...), o))
			}
		}
		rec(nil)
		// salted pass: every history of length <= 2 once more with identities never used before in this process
		canonical := ops
		salt := 0
		for i := range canonical {
			for j := -1; j < len(canonical); j++ {
				salt++
				ops = mk(c, salt)
				if len(ops) != len(canonical) {
					return
				}
				if j < 0 {
					rec2(ops, []int{i})
				} else {
					rec2(ops, []int{i, j})
				}
			}
		}
		// capacity pass: a bounded cache is right until it starts to evict. For the first operations of the alphabet: the
		// call with identities of salt 1, then the same call with 1..K other identities (K past the usual capacities: 1, 2,
		// 8, 32, 64, 128, 256), then salt 1 again - every call compared with the reference value for its own identities.
		ks := []int{1, 2, 8, 33, 65, 129, 260}
		if historyCostlyOps[id] {
			ks = []int{1, 2, 8, 33, 65}
		}
		nOps := len(canonical)
		if nOps > 5 {
			nOps = 5
		}
		if historyCostlyOps[id] && nOps > 3 {
			nOps = 3
		}
		base := 100000 // salts of this pass do not collide with the salted pass
		for i := 0; i < nOps; i++ {
			if canonical[i].want == "*" {
				continue
			}
			next := base + i*1000
			for _, k := range ks {
				first := mk(c, next)
				if len(first) != len(canonical) {
					return
				}
				rec2(first, []int{i})
				for j := 1; j <= k; j++ {
					other := mk(c, next+j)
					if len(other) != len(canonical) {
						return
					}
					rec2(other, []int{i})
				}
				rec2(mk(c, next), []int{i}) // the first identities again, after k others
				next += k + 1
			}
		}
	}()
	<-done
	c.Eval(seqs)
	c.Set("call_histories_explored", seqs)
	c.Set("call_history_depth", int64(depth))
	c.Set("call_history_operations", int64(len(ops)))
}
