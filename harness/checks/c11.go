package checks

import (
	"bytes"
	"context"
	"crypto"
	_ "crypto/sha256"
	_ "crypto/sha512"
	"encoding/binary"
	"fmt"
	"math"
	"math/bits"
	"sync/atomic"

	"github.com/iotaledger/iota.go/consts"
	"github.com/wollac/iota-crypto-demo/pkg/pow"
	"golang.org/x/crypto/blake2b"

	"verifharness/bitexec/refcurl"
	"verifharness/core"
)

// set by c11_sched.go in the sched build variant
var c11Sched func(c *core.Ctx, nontriv *atomic.Int64) bool

func init() {
	core.Register(core.Check{ID: "C11", Level: "exploration", Run: func(c *core.Ctx) {
		waitArch := background(func() { arch386Pass(c, "C11") })
		runC11(c)
		standalonePass(c, "C11", "standalone-powv1")
		historyPass(c, "C11")
		reentrancyPass(c, "C11")
		waitArch()
	}})
}

// refPowZeros: trailing zero trits of Curl-P-81(b1t6(BLAKE2b-256(data)) || b1t6(nonce LE) || 000), own chain.
func refPowZeros(data []byte, nonce uint64) int {
	d := blake2b.Sum256(data)
	var nb [8]byte
	binary.LittleEndian.PutUint64(nb[:], nonce)
	in := make([]int8, 0, 243)
	for _, b := range append(d[:], nb[:]...) {
		g := refB1T6Enc(b)
		in = append(in, g[:]...)
	}
	in = append(in, 0, 0, 0)
	out, err := refcurl.Sum(in, 243)
	if err != nil {
		panic(err)
	}
	z := 0
	for i := 242; i >= 0 && out[i] == 0; i-- {
		z++
	}
	return z
}

func refScoreV1(msg []byte) float64 {
	n := len(msg) - 8
	z := refPowZeros(msg[:n], binary.LittleEndian.Uint64(msg[n:]))
	return math.Pow(3, float64(z)) / float64(len(msg))
}

// laneState builds bit planes in which lane j has exactly zeros[j] trailing zero trits.
// powW is the number of lanes of a batch: one per bit of a uint (64, or 32 on 32-bit targets). Lane arrays of the harness
// always have 64 entries; entries >= powW do not exist for the code under test.
const powW = bits.UintSize

func c11LaneState(zeros *[64]int) (l, h [consts.HashTrinarySize]uint) {
	for j := 0; j < 64; j++ {
		z := zeros[j]
		for i := 0; i < consts.HashTrinarySize; i++ {
			var t int8
			switch {
			case i >= consts.HashTrinarySize-z:
				t = 0
			case i == consts.HashTrinarySize-z-1:
				t = 1 - 2*int8(j&1) // +1 / -1
			default:
				t = int8((i+j)%3) - 1
			}
			// trit 0 = (1,1), 1 = (0,1), -1 = (1,0)
			if t <= 0 {
				l[i] |= 1 << uint(j)
			}
			if t >= 0 {
				h[i] |= 1 << uint(j)
			}
		}
	}
	return
}

func runC11(c *core.Ctx) {
	th := c.Thorough()
	c.Rule = "lane test (hook): all n in 0..243 x every lane index / lane pair x zero-count classes {n-1,n,n+1,243} on a background of n-1 zeros; Score vs an own BLAKE2b/b1t6/Curl-P-81 chain on ~2000 messages; Mine end to end with the real hash (required zeros <= 7, worker counts 1,2,3,16); scripted hash (sched variant): message lengths 8..1000 (thorough 40000) x k=0..60 x targets fl(3^k/len) -2..+2 ulp and trivially low targets through a single-worker Mine that then returns exactly the zero count it demanded; oracle: 3^z/len >= target in Score's own formula, no goroutine panic; non-trivial = distinct (length, target) pairs mined + distinct lane states tested + messages scored"
	var nontriv atomic.Int64

	// ---- (a) lane test ----
	lanes := []int{0, 1, powW/2 - 1, powW / 2, powW - 2, powW - 1}
	if th {
		lanes = nil
		for j := 0; j < powW; j++ {
			lanes = append(lanes, j)
		}
	}
	core.Par(244, func(n int) {
		classes := []int{n - 1, n, n + 1, 243}
		base := n - 1
		if base < 0 {
			base = 0
		}
		check := func(zeros *[64]int, what string) {
			l, h := c11LaneState(zeros)
			want := powW
			for j := 0; j < powW; j++ {
				if zeros[j] >= n {
					want = j
					break
				}
			}
			var got int
			p := core.Catch(func() { got = pow.VerifCheckStateTrits(&l, &h, uint(n)) })
			c.Eval(1)
			nontriv.Add(1)
			if p != nil || got != want {
				c.Violate("C11/lane-test/"+what, fmt.Sprintf("n=%d zeros per lane %v: checkStateTrits = %d (panic %v), first lane with >= n trailing zeros is %d", n, zeros[:], got, p, want), map[string]interface{}{"n": n, "zeros": zeros[:]}, "", nil)
			}
		}
		var z [64]int
		for j := range z {
			z[j] = base
		}
		check(&z, "background")
		for j := 0; j < powW; j++ {
			for _, cl := range classes {
				if cl < 0 || cl > 243 {
					continue
				}
				zz := z
				zz[j] = cl
				check(&zz, "one-lane")
			}
		}
		for ai, a := range lanes {
			for _, b := range lanes[ai+1:] {
				for _, ca := range classes {
					for _, cb := range classes {
						if ca < 0 || cb < 0 || ca > 243 || cb > 243 {
							continue
						}
						zz := z
						zz[a], zz[b] = ca, cb
						check(&zz, "two-lanes")
					}
				}
			}
		}
	})
	c.Sample(map[string]interface{}{"lane_test": "n=5, all lanes 4 zeros except lane 31 (5) and lane 62 (243)", "expect": 31})

	// ---- (b) Score vs own chain ----
	nMsg := 600
	if th {
		nMsg = 2400
	}
	core.Par(nMsg, func(i int) {
		l := 8 + i%293
		msg := make([]byte, l)
		for k := range msg {
			msg[k] = byte(k*31 + i)
		}
		binary.LittleEndian.PutUint64(msg[l-8:], uint64(i%64)+uint64(i/64)<<40)
		var got float64
		p := core.Catch(func() { got = pow.Score(msg) })
		want := refScoreV1(msg)
		c.Eval(1)
		nontriv.Add(1)
		if p != nil || got != want {
			c.Violate("C11/score", fmt.Sprintf("Score(%d-byte message #%d) = %v (panic %v), own chain gives %v", l, i, got, p, want), fmt.Sprintf("%x", msg), "", nil)
		}
		if z := pow.VerifTrailingZeros(func() []byte { d := blake2b.Sum256(msg[:l-8]); return d[:] }(), binary.LittleEndian.Uint64(msg[l-8:])); z != refPowZeros(msg[:l-8], binary.LittleEndian.Uint64(msg[l-8:])) {
			c.Violate("C11/trailing-zeros", fmt.Sprintf("trailingZeros = %d, own chain differs", z), fmt.Sprintf("%x", msg), "", nil)
		}
	})

	// ---- (c) end to end with the real hash ----
	type e2e struct {
		data    []byte
		target  float64
		workers int
	}
	var es []e2e
	for i := 0; i < 10; i++ {
		data := make([]byte, 1+i*7)
		for k := range data {
			data[k] = byte(i + k)
		}
		ln := float64(len(data) + 8)
		for _, z := range []int{1, 3, 5, 7} {
			if !th && z == 7 && i > 2 {
				continue
			}
			for _, w := range []int{1, 2, 3, 16} {
				es = append(es, e2e{data, math.Pow(3, float64(z))/ln - 1e-9, w})
			}
		}
	}
	// large data: sizes at and around multiples of 1 MiB and 64 KiB (a digest computed in chunks must cover every byte)
	for _, sz := range []int{1 << 16, 1<<16 + 1, 3 << 16, 1 << 20, 1<<20 + 1, 2 << 20, 2<<20 - 1, 3 << 20, 1<<24 + 5} {
		data := make([]byte, sz)
		for i := 0; i < len(data); i += 4093 {
			data[i] = byte(i>>12) + 1
		}
		data[len(data)-1] = 0x77
		es = append(es, e2e{data, 9.0 / float64(sz+8), 2}) // two trailing zeros
	}
	// a Worker made while the exported pow.Hash was another function (a caller that switches the digest and back): the
	// Worker is used with the default again and must mine for the block Score evaluates
	{
		pow.Hash = crypto.SHA224
		w224 := pow.New(1)
		pow.Hash = crypto.SHA512_256
		w512 := pow.New(2)
		pow.Hash = crypto.BLAKE2b_256
		for name, w := range map[string]*pow.Worker{"SHA-224": w224, "SHA-512/256": w512} {
			data := []byte("made under " + name)
			target := 81.0/float64(len(data)+8) - 1e-9
			var nonce uint64
			var err error
			p := core.Catch(func() { nonce, err = w.Mine(context.Background(), data, target) })
			c.Eval(1)
			msg := append(append([]byte{}, data...), make([]byte, 8)...)
			binary.LittleEndian.PutUint64(msg[len(data):], nonce)
			if p != nil || err != nil || refScoreV1(msg) < target {
				c.Violate("C11/environment/worker-made-under-other-hash", fmt.Sprintf("a Worker created while pow.Hash was %s, used after pow.Hash is BLAKE2b-256 again: Mine = %d, %v (panic %v), score %v, target %v", name, nonce, err, p, refScoreV1(msg), target), name, "", nil)
			}
		}
	}
	core.Par(len(es), func(i int) {
		e := es[i]
		var nonce uint64
		var err error
		p := core.Catch(func() { nonce, err = pow.New(e.workers).Mine(context.Background(), e.data, e.target) })
		c.Eval(1)
		nontriv.Add(1)
		cas := map[string]interface{}{"data": fmt.Sprintf("%.64x", e.data), "data_len": len(e.data), "target": e.target, "workers": e.workers}
		if p != nil || err != nil {
			c.Violate("C11/e2e/error", fmt.Sprintf("Mine: %v %v", p, err), cas, "", nil)
			return
		}
		msg := append(append([]byte{}, e.data...), make([]byte, 8)...)
		binary.LittleEndian.PutUint64(msg[len(e.data):], nonce)
		if s := refScoreV1(msg); s < e.target || pow.Score(msg) < e.target {
			c.Violate("C11/e2e/score-below-target", fmt.Sprintf("Mine returned nonce %d with score %v < target %v", nonce, s, e.target), cas, "", nil)
		}
	})
	// every way a context can end x (unattainable | easy) target x worker counts: whatever comes back without an error
	// must meet the target; with the unattainable target that means an error must come back
	for _, k := range powCtxKinds() {
		for _, workers := range []int{1, 4} {
			for _, z := range []int{60, 2} {
				data := []byte("ctx:" + k.Name)
				target := math.Pow(3, float64(z))/float64(len(data)+8) - 1e-9
				ctx, cancel := k.Make()
				var nonce uint64
				var err error
				p := core.Catch(func() { nonce, err = pow.New(workers).Mine(ctx, data, target) })
				cancel()
				c.Eval(1)
				nontriv.Add(1)
				cas := map[string]interface{}{"context": k.Name, "workers": workers, "target": target}
				if p != nil {
					c.Violate("C11/context/panic", fmt.Sprintf("context %s: Mine panics: %v", k.Name, p), cas, "", nil)
					continue
				}
				if err != nil {
					continue
				}
				msg := append(append([]byte{}, data...), make([]byte, 8)...)
				binary.LittleEndian.PutUint64(msg[len(data):], nonce)
				if s := refScoreV1(msg); s < target {
					c.Violate("C11/context/score-below-target", fmt.Sprintf("context %s, %d workers: Mine returned nonce %d without error; its score %v is below the target %v", k.Name, workers, nonce, s, target), cas, "", nil)
				}
			}
		}
	}
	// worker counts: none given, zero, negative, more goroutines than lanes and than cores; GOMAXPROCS 1
	{
		data := []byte("worker counts")
		target := math.Pow(3, 4)/float64(len(data)+8) - 1e-9
		ws := map[string]*pow.Worker{"New()": pow.New(), "New(0)": pow.New(0), "New(-3)": pow.New(-3), "New(1,5)": pow.New(1, 5), "New(65)": pow.New(65), "New(1000)": pow.New(1000)}
		for name, w := range ws {
			var nonce uint64
			var err error
			p := core.Catch(func() { nonce, err = w.Mine(context.Background(), data, target) })
			c.Eval(1)
			msg := append(append([]byte{}, data...), make([]byte, 8)...)
			binary.LittleEndian.PutUint64(msg[len(data):], nonce)
			if p != nil || err != nil || refScoreV1(msg) < target {
				c.Violate("C11/environment/worker-count", fmt.Sprintf("pow.%s: Mine = %d, %v (panic %v), score %v, target %v", name, nonce, err, p, refScoreV1(msg), target), name, "", nil)
			}
		}
	}
	// one Worker object used for a whole sequence of calls (alternating a trivially low target, which lets several of
	// its goroutines succeed at once, and a real one, always with new data): every returned nonce must meet the target of
	// ITS call. Nothing may survive from one call to the next.
	for _, workers := range []int{1, 2, 4, 16} {
		w := pow.New(workers)
		for round := 0; round < 24; round++ {
			data := []byte{byte(round), byte(workers), 'r', 'e', 'u', 's', 'e'}
			target := 1e-6
			if round%2 == 1 {
				target = math.Pow(3, 4)/float64(len(data)+8) - 1e-9
			}
			ctx, cancel := context.WithCancel(context.Background())
			if round%6 == 5 {
				cancel() // an already cancelled context: a nonce may only be returned if it is valid for this data
			}
			var nonce uint64
			var err error
			p := core.Catch(func() { nonce, err = w.Mine(ctx, data, target) })
			cancel()
			c.Eval(1)
			nontriv.Add(1)
			cas := map[string]interface{}{"workers": workers, "call": round, "target": target}
			if p != nil {
				c.Violate("C11/reuse/panic", fmt.Sprint(p), cas, "", nil)
				break
			}
			if err != nil {
				if round%6 != 5 {
					c.Violate("C11/reuse/error", fmt.Sprintf("call %d on the same Worker: %v", round, err), cas, "", nil)
				}
				continue
			}
			msg := append(append([]byte{}, data...), make([]byte, 8)...)
			binary.LittleEndian.PutUint64(msg[len(data):], nonce)
			if refScoreV1(msg) < target {
				c.Violate("C11/reuse/score-below-target", fmt.Sprintf("call %d on a Worker with %d goroutines returned nonce %d, whose score %v is below this call's target %v (earlier calls on the same Worker used other data and lower targets)", round, workers, nonce, refScoreV1(msg), target), cas, "", nil)
				break
			}
		}
	}
	// the caller builds every message in the SAME buffer (same backing array and length, other content), on one Worker and
	// on a new Worker per call
	for _, mode := range []string{"one Worker", "a new Worker per call"} {
		for _, workers := range []int{1, 3} {
			w := pow.New(workers)
			store := bytes.Repeat([]byte{0xEE}, 64)
			buf := store[5:16]
			target := math.Pow(3, 6)/float64(len(buf)+8) - 1e-9
			for round, fill := range []byte{1, 2, 1, 3, 3, 0, 1} {
				for i := range buf {
					buf[i] = fill*17 + byte(i)*fill
				}
				want := append([]byte{}, store...)
				if mode != "one Worker" {
					w = pow.New(workers)
				}
				var nonce uint64
				var err error
				p := core.Catch(func() { nonce, err = w.Mine(context.Background(), buf, target) })
				c.Eval(1)
				nontriv.Add(1)
				cas := map[string]interface{}{"mode": mode, "workers": workers, "call": round, "data": fmt.Sprintf("%x", buf), "target": target}
				if p != nil || err != nil {
					c.Violate("C11/same-buffer/error", fmt.Sprintf("call %d: %v %v", round, p, err), cas, "", nil)
					break
				}
				if !bytes.Equal(store, want) {
					c.Violate("C11/same-buffer/data-modified", fmt.Sprintf("call %d: Mine wrote to the caller's buffer", round), cas, "", nil)
					break
				}
				msg := append(append([]byte{}, buf...), make([]byte, 8)...)
				binary.LittleEndian.PutUint64(msg[len(buf):], nonce)
				if refScoreV1(msg) < target {
					c.Violate("C11/same-buffer/score-below-target", fmt.Sprintf("%s, %d goroutines, call %d: the message was built in the buffer of the previous call (content %x); Mine returned nonce %d with score %v < target %v", mode, workers, round, buf, nonce, refScoreV1(msg), target), cas, "", nil)
					break
				}
			}
		}
	}
	c.Sample(map[string]interface{}{"e2e": "22-byte data, target 3^5/30 - 1e-9, 3 workers"})

	// ---- (d) scripted hash through Mine ----
	exhaustive := false
	if c11Sched != nil {
		exhaustive = c11Sched(c, &nontriv)
	} else {
		c.Set("scripted_part", "this binary was built without the sched variant: the float boundary of Mine's zero count was not explored")
	}
	c.NonTrivial(nontriv.Load())
	c.SetExhaustive(exhaustive)
	c.Assume = []string{"own Curl-P-81 / b1t6 reference, BLAKE2b from x/crypto", "scripted hash: batch b, lane j reports exactly 64b+j trailing zeros, so a single-worker Mine returns the zero count it required", "targets needing more than 243 zeros panic by design and are outside the space", "schedules for 1..3 workers are explored by C13 with the same validity oracle"}
}
