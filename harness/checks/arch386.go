package checks

// 32-bit pass: the properties are stated for the library, not for one GOARCH. Code that is correct with 64-bit int/uint
// can silently truncate where int is 32 bits (shifts of a "uint" accumulator, lengths multiplied before widening). The
// enumerations of a property do not depend on the word size, so the same check is run once more in a binary built for
// GOARCH=386 (build/vcheck-386, quick tier) and its violations are reported under <id>/386/...
// Checks whose harness itself assumes 64 lanes per word (C06, C11, C12, C13, C20) are not run this way.

import (
	"bytes"
	"context"
	"fmt"
	"os"
	"os/exec"
	"path/filepath"
	"regexp"
	"runtime"
	"strings"
	"time"

	"verifharness/core"
)

var arch386Quick = map[string]bool{"C04": true, "C05": true, "C10": true, "C14": true, "C15": true, "C16": true, "C19": true}

var arch386KeyRe = regexp.MustCompile(`(?m)^  key=(\S+) cases=(\d+): (.*)$`)

func arch386Pass(c *core.Ctx, id string) {
	if os.Getenv("VERIF_386") != "" || runtime.GOARCH != "amd64" {
		return
	}
	if !c.Thorough() && !arch386Quick[id] {
		c.Set("arch386_pass", "thorough tier only for this property")
		return
	}
	bin := filepath.Join(core.VerifDir, "build", "vcheck-386")
	if _, err := os.Stat(bin); err != nil {
		c.Set("arch386_pass", "build/vcheck-386 not found: skipped")
		return
	}
	tmp, _ := os.MkdirTemp("", "arch386")
	defer os.RemoveAll(tmp)
	ctx, cancel := context.WithTimeout(context.Background(), 20*time.Minute)
	defer cancel()
	cmd := exec.CommandContext(ctx, bin, id, "quick")
	cmd.Env = append(os.Environ(), "VERIF_DIR="+tmp, "VERIF_CHILD=1", "VERIF_386=1")
	var out, errb bytes.Buffer
	cmd.Stdout, cmd.Stderr = &out, &errb
	err := cmd.Run()
	sum := regexp.MustCompile(`(?m)^` + id + ` quick: evaluations=(\d+) nontrivial=(\d+) violations=(\d+)`).FindStringSubmatch(out.String())
	for _, m := range arch386KeyRe.FindAllStringSubmatch(out.String(), -1) {
		key := id + "/386" + strings.TrimPrefix(m[1], id)
		var cas interface{}
		safe := regexp.MustCompile(`[^A-Za-z0-9_.=-]+`).ReplaceAllString(m[1], "_")
		if len(safe) > 100 {
			safe = safe[:100]
		}
		if b, e := os.ReadFile(filepath.Join(tmp, "replays", safe+".json")); e == nil {
			cas = map[string]interface{}{"GOARCH": "386", "replay_of_32bit_run": string(b)}
		}
		c.Violate(key, "in a build for GOARCH=386 (32-bit int and uint): "+m[3], cas, "", nil)
	}
	switch {
	case sum != nil:
		c.Set("arch386_evaluations", sum[1])
		var n int64
		fmt.Sscan(sum[1], &n)
		c.Eval(n)
	case strings.Contains(out.String(), "ABORT property="):
		c.Set("arch386_pass", "the 32-bit run aborted (machinery): "+tail(out.String(), 300))
	case strings.Contains(errb.String(), "iota-crypto-demo/pkg/"):
		c.Violate(id+"/386/crash", "in a build for GOARCH=386 the check died inside repository code: "+tail(errb.String(), 1500), nil, "", nil)
	default:
		c.Set("arch386_pass", fmt.Sprintf("no result (%v): %s", err, tail(errb.String(), 300)))
	}
}
