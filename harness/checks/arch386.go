package checks

// 32-bit pass: the properties are stated for the library, not for one GOARCH. Code that is correct with 64-bit int/uint
// can silently truncate where int is 32 bits (shifts of a "uint" accumulator, lengths multiplied before widening). The
// enumerations of a property do not depend on the word size, so the same check is run once more in a binary built for
// GOARCH=386 (build/vcheck-386, quick tier) and its violations are reported under <id>/386/...
// The PoW lane tests (C11, C12) count lanes with bits.UintSize and run the same way (their scheduler parts do not); C06 and
// C20, whose harnesses are written for 64 lanes, run the word-size generic comparison C20w (curlw.go) instead, also in a
// GOAMD64=v3 build (build/vcheck-v3), where build constraints may select other assembly.

import (
	"bytes"
	"context"
	"fmt"
	"os"
	"os/exec"
	"path/filepath"
	"regexp"
	"runtime"
	"strings"
	"time"

	"verifharness/core"
)

var arch386Quick = map[string]bool{"C04": true, "C05": true, "C10": true, "C11": true, "C12": true, "C14": true, "C15": true, "C16": true, "C19": true}

var arch386KeyRe = regexp.MustCompile(`(?m)^  key=(\S+) cases=(\d+): (.*)$`)

// arch386Pass re-runs the check itself in the GOARCH=386 build.
func arch386Pass(c *core.Ctx, id string) {
	// (until round 6 of the seeded changes the quick tier ran this pass for some properties only; word-size assumptions
	// turned out to be the most common environment-dependent change, so every property runs it in both tiers now)
	archPass(c, id, id, "vcheck-386", "386", "in a build for GOARCH=386 (32-bit int and uint): ")
}

// curlVariantPasses runs the word-size generic curl comparison (C20w) in the 386 build (portable code, 32 lanes) and in
// the GOAMD64=v3 build (where a build constraint may select other assembly); used by C06 and C20.
func curlVariantPasses(c *core.Ctx, id string) {
	archPass(c, id, "C20w", "vcheck-386", "386", "in a build for GOARCH=386 (portable permutation, 32 lanes): ")
	archPass(c, id, "C20w", "vcheck-v3", "amd64v3", "in a build with GOAMD64=v3: ")
}

// archPass runs check childID (quick tier) in build/<binName> and reports its violations as <id>/<label>/...
func archPass(c *core.Ctx, id, childID, binName, label, what string) {
	if os.Getenv("VERIF_386") != "" || runtime.GOARCH != "amd64" {
		return
	}
	note := "arch_" + label + "_pass"
	bin := filepath.Join(core.VerifDir, "build", binName)
	if _, err := os.Stat(bin); err != nil {
		c.Set(note, "build/"+binName+" not found: skipped")
		return
	}
	tmp, _ := os.MkdirTemp("", "archpass")
	defer os.RemoveAll(tmp)
	ctx, cancel := context.WithTimeout(context.Background(), 30*time.Minute)
	defer cancel()
	cmd := exec.CommandContext(ctx, bin, childID, "quick")
	cmd.Env = append(os.Environ(), "VERIF_DIR="+tmp, "VERIF_CHILD=1", "VERIF_386=1")
	var out, errb bytes.Buffer
	cmd.Stdout, cmd.Stderr = &out, &errb
	err := cmd.Run()
	sum := regexp.MustCompile(`(?m)^` + childID + ` quick: evaluations=(\d+) nontrivial=(\d+) violations=(\d+)`).FindStringSubmatch(out.String())
	for _, m := range arch386KeyRe.FindAllStringSubmatch(out.String(), -1) {
		key := id + "/" + label + strings.TrimPrefix(m[1], childID)
		var cas interface{}
		safe := regexp.MustCompile(`[^A-Za-z0-9_.=-]+`).ReplaceAllString(m[1], "_")
		if len(safe) > 100 {
			safe = safe[:100]
		}
		if b, e := os.ReadFile(filepath.Join(tmp, "replays", safe+".json")); e == nil {
			cas = map[string]interface{}{"build": label, "replay_of_that_run": string(b)}
		}
		c.Violate(key, what+m[3], cas, "", nil)
	}
	switch {
	case sum != nil:
		c.Set("arch_"+label+"_evaluations", sum[1])
		var n int64
		fmt.Sscan(sum[1], &n)
		c.Eval(n)
	case strings.Contains(out.String(), "ABORT property="):
		c.Set(note, "the run in that build aborted (machinery): "+tail(out.String(), 300))
	case strings.Contains(errb.String(), "iota-crypto-demo/pkg/"):
		c.Violate(id+"/"+label+"/crash", what+"the check died inside repository code: "+tail(errb.String(), 1500), nil, "", nil)
	default:
		c.Set(note, fmt.Sprintf("no result (%v): %s", err, tail(errb.String(), 300)))
	}
}
