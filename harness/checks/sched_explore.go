//go:build sched

package checks

import (
	"context"
	"encoding/binary"
	"fmt"
	"reflect"
	"sort"
	"strings"
	"time"

	"github.com/wollac/iota-crypto-demo/pkg/pow"
	powv2 "github.com/wollac/iota-crypto-demo/pkg/pow/v2"
	vatomic "github.com/wollac/iota-crypto-demo/pkg/verifshim/vatomic"
	vbct "github.com/wollac/iota-crypto-demo/pkg/verifshim/vbct"
	"github.com/wollac/iota-crypto-demo/pkg/verifshim/vchan"
	"github.com/wollac/iota-crypto-demo/pkg/verifshim/vsched"
)

// mineScenario is one closed system: Mine (v1 or v2) with N workers on fixed data/target, plus a canceller.
type mineScenario struct {
	Name    string `json:"name"`
	Version int    `json:"version"`
	Workers int    `json:"workers"`
	Data    []byte `json:"data"`
	// target: v1 float score, v2 integer score
	TargetV1 float64 `json:"target_v1,omitempty"`
	TargetV2 uint64  `json:"target_v2,omitempty"`
	Cancel   string  `json:"cancel"`  // never | before | concurrent | reuse (two calls on one Worker, first context cancelled in between)
	Pattern  []int   `json:"pattern"` // per worker: first batch (0,1,2) holding a qualifying nonce, -1 = none in batches 0..2
	// Ctx: "" = context.WithCancel(Background); "far-deadline" = a context that also reports a deadline (a day away, so it
	// never fires during an execution) and is cancelled by its CancelFunc like the others
	Ctx string `json:"ctx,omitempty"`
}

func (s *mineScenario) qualifies(nonce uint64) bool {
	msg := make([]byte, len(s.Data)+8)
	copy(msg, s.Data)
	binary.LittleEndian.PutUint64(msg[len(s.Data):], nonce)
	if s.Version == 1 {
		return pow.Score(msg) >= s.TargetV1
	}
	return powv2.Score(msg) >= s.TargetV2
}

// obs is what one execution let us observe.
type mineObs struct {
	Returned     bool
	Nonce        uint64
	Err          string
	Cancelled    bool // cancel() had completed before the caller returned
	CancelledAny bool
	BatchesAfter map[int]int // per thread: largest number of hash batches started in a row without polling, while the done flag was set
	sincePoll    map[int]int
	DoneSet      bool
}

type mineRun struct {
	Exec *vsched.Exec
	Obs  mineObs
}

// runMine performs one controlled execution of the scenario following the choice prefix.
func runMine(s *mineScenario, prefix []int, maxPoll int) *mineRun {
	vsched.ResetNames()
	vatomic.ResetRegistry()
	vchan.ResetForeign()
	vchan.Unsupported = ""
	ctx, cancel := context.WithCancel(context.Background())
	if s.Ctx == "far-deadline" {
		ctx, cancel = context.WithDeadline(context.Background(), time.Now().Add(24*time.Hour))
	}
	defer cancel()
	ready := false
	vchan.RegisterForeign(ctx.Done(), &ready)
	obs := mineObs{BatchesAfter: map[int]int{}, sincePoll: map[int]int{}}
	vbct.Memo = true
	vbct.Script = nil
	vatomic.StoreHook = func(obj string) { obs.DoneSet = true }
	vatomic.LoadHook = func(obj string) { obs.sincePoll[vsched.Cur()] = 0 }
	vbct.BatchHook = func() {
		if vsched.Controlled() && !vsched.Killed() {
			t := vsched.Cur()
			obs.sincePoll[t]++
			if obs.DoneSet && obs.sincePoll[t] > obs.BatchesAfter[t] {
				obs.BatchesAfter[t] = obs.sincePoll[t]
			}
		}
	}
	defer func() { vatomic.StoreHook, vatomic.LoadHook, vbct.BatchHook = nil, nil, nil }()
	if s.Cancel == "before" {
		ready = true
		cancel()
		obs.CancelledAny = true
	}
	caller := func() {
		var nonce uint64
		var err error
		if s.Cancel == "reuse" {
			// two calls on ONE Worker: the first with its own context, which the caller cancels as soon as the call has
			// returned (its watcher may not have run yet); the second with a context that is never cancelled
			ctx1, cancel1 := context.WithCancel(context.Background())
			defer cancel1()
			ready1 := false
			vchan.RegisterForeign(ctx1.Done(), &ready1)
			if s.Version == 1 {
				w := pow.New(s.Workers)
				_, _ = w.Mine(ctx1, s.Data, s.TargetV1)
				if vsched.Killed() {
					return
				}
				vsched.Point(&vsched.Op{Kind: "cancel", Obj: "ctx1", Write: true})
				ready1 = true
				cancel1()
				nonce, err = w.Mine(ctx, s.Data, s.TargetV1)
			} else {
				w := powv2.New(s.Workers)
				_, _ = w.Mine(ctx1, s.Data, s.TargetV2)
				if vsched.Killed() {
					return
				}
				vsched.Point(&vsched.Op{Kind: "cancel", Obj: "ctx1", Write: true})
				ready1 = true
				cancel1()
				nonce, err = w.Mine(ctx, s.Data, s.TargetV2)
			}
		} else if s.Version == 1 {
			nonce, err = pow.New(s.Workers).Mine(ctx, s.Data, s.TargetV1)
		} else {
			nonce, err = powv2.New(s.Workers).Mine(ctx, s.Data, s.TargetV2)
		}
		if vsched.Killed() {
			return
		}
		obs.Returned, obs.Nonce = true, nonce
		obs.Cancelled = obs.CancelledAny
		if err != nil {
			obs.Err = err.Error()
			if err == pow.ErrCancelled || err == powv2.ErrCancelled {
				obs.Err = "ErrCancelled"
			}
		}
		vsched.Log("caller returned nonce=%d err=%q", nonce, obs.Err)
	}
	fns := []func(){caller}
	names := []string{"caller"}
	if s.Cancel == "concurrent" {
		fns = append(fns, func() {
			vsched.Point(&vsched.Op{Kind: "cancel", Obj: "ctx", Write: true})
			ready = true
			cancel()
			obs.CancelledAny = true
			vsched.Log("cancelled")
		})
		names = append(names, "canceller")
	}
	extra := func() string {
		ks := make([]int, 0, len(obs.BatchesAfter))
		for k := range obs.BatchesAfter {
			ks = append(ks, k)
		}
		sort.Ints(ks)
		s := fmt.Sprintf("doneSet=%v cancelled=%v returned=%v;", obs.DoneSet, obs.CancelledAny, obs.Returned)
		for _, k := range ks {
			s += fmt.Sprintf("%d:%d,", k, obs.BatchesAfter[k])
		}
		ks = ks[:0]
		for k := range obs.sincePoll {
			ks = append(ks, k)
		}
		sort.Ints(ks)
		for _, k := range ks {
			s += fmt.Sprintf("p%d:%d,", k, obs.sincePoll[k])
		}
		return s
	}
	ex := vsched.Run(vsched.Config{Prefix: prefix, Horizon: 600, MaxPoll: maxPoll, Keys: true, Extra: extra}, names, fns...)
	return &mineRun{Exec: ex, Obs: obs}
}

// judgeMine applies the oracle of C13 (and the soundness clause of C11/C12) to one execution.
// It returns a list of (class, description).
func judgeMine(s *mineScenario, r *mineRun) [][2]string {
	var out [][2]string
	add := func(class, what string) { out = append(out, [2]string{class, what}) }
	ex := r.Exec
	if ex.Divergent != "" {
		add("MACHINERY/divergent", ex.Divergent)
		return out
	}
	if ex.Stuck != "" {
		add("hang", "a goroutine of Mine spins without any synchronisation operation: "+ex.Stuck)
		return out
	}
	for _, p := range ex.Panics {
		add("goroutine-panic", p)
	}
	if ex.Horizon {
		add("CAP/horizon", fmt.Sprintf("execution did not finish within %d scheduling points", len(ex.Points)))
	}
	if !r.Obs.Returned {
		if ex.Deadlock && len(ex.Panics) == 0 {
			add("hang", "Mine never returns: "+strings.Join(ex.Blocked, "; "))
		}
	} else {
		switch r.Obs.Err {
		case "":
			if !s.qualifies(r.Obs.Nonce) {
				add("invalid-nonce", fmt.Sprintf("Mine returned nonce %d without error but Score(data||nonce) is below the target", r.Obs.Nonce))
			}
		case "ErrCancelled":
			if !r.Obs.Cancelled {
				add("spurious-cancel", "Mine returned the cancellation error although the context was not cancelled")
			}
		default:
			add("other-error", "Mine returned "+r.Obs.Err)
		}
		if ex.Deadlock {
			add("goroutine-leak", "after Mine returned: "+strings.Join(ex.Blocked, "; "))
		}
	}
	// promptness as a count: the property asks for "a short bounded time"; the mechanism polls once per batch. A worker
	// that starts 4 or more batches in a row without looking at the flag while it is set is reported; fewer is tolerated.
	for th, n := range r.Obs.BatchesAfter {
		if n >= 4 {
			add("not-prompt", fmt.Sprintf("thread %d started %d hash batches in a row without polling the done flag after it had been set", th, n))
		}
	}
	return out
}

type exploreStats struct {
	Executions  int64            `json:"executions"`
	Points      int64            `json:"points"`
	MaxPoints   int              `json:"max_points"`
	Outcomes    map[string]int64 `json:"outcomes"`
	Bound       int              `json:"bound"`
	Capped      bool             `json:"capped"`
	Unsupported string           `json:"unsupported,omitempty"`
	Replayed    int64            `json:"replayed_twice"`
	States      int64            `json:"states"`
	Pruned      int64            `json:"pruned"`
	Violations  []exploreViol    `json:"violations,omitempty"`
}

type exploreViol struct {
	Class   string   `json:"class"`
	What    string   `json:"what"`
	Choices []int    `json:"choices"`
	Trace   []string `json:"trace"`
}

func traceOf(ex *vsched.Exec) []string {
	var t []string
	for _, p := range ex.Points {
		t = append(t, fmt.Sprintf("t%d %s %s", p.Thread, p.Kind, p.Obj))
	}
	return t
}

// exploreMine is the stateless, preemption-bounded depth-first exploration (bound < 0: unbounded).
func exploreMine(s *mineScenario, bound int, maxPoll int, budget func() bool) *exploreStats {
	st := &exploreStats{Outcomes: map[string]int64{}, Bound: bound}
	seenViol := map[string]bool{}
	visited := map[[2]uint64]int{} // state key -> largest remaining preemption budget it was expanded with
	var rec func(prefix []int)
	rec = func(prefix []int) {
		if st.Capped || budget() {
			st.Capped = true
			return
		}
		r := runMine(s, prefix, maxPoll)
		st.Executions++
		st.Points += int64(len(r.Exec.Points))
		if len(r.Exec.Points) > st.MaxPoints {
			st.MaxPoints = len(r.Exec.Points)
		}
		if vchan.Unsupported != "" {
			st.Unsupported = vchan.Unsupported
			st.Capped = true
			return
		}
		out := fmt.Sprintf("returned=%v err=%q cancelled=%v", r.Obs.Returned, r.Obs.Err, r.Obs.CancelledAny)
		if r.Obs.Returned && r.Obs.Err == "" {
			out += fmt.Sprintf(" nonce=%d", r.Obs.Nonce)
		}
		st.Outcomes[out]++
		viols := judgeMine(s, r)
		if r.Exec.Stuck != "" {
			st.Capped = true // the stuck goroutine cannot be removed: stop exploring in this process
		}
		// determinism: replay every violating schedule and every 64th schedule twice
		if r.Exec.Stuck == "" && (len(viols) > 0 || st.Executions%64 == 1) {
			r2 := runMine(s, r.Exec.Choices, maxPoll)
			st.Replayed++
			if !reflect.DeepEqual(r2.Exec.Events, r.Exec.Events) || !reflect.DeepEqual(traceOf(r2.Exec), traceOf(r.Exec)) || r2.Obs.Nonce != r.Obs.Nonce || r2.Obs.Err != r.Obs.Err {
				viols = [][2]string{{"MACHINERY/nondeterministic", "the same schedule produced different observations on replay"}}
			}
		}
		for _, v := range viols {
			if !seenViol[v[0]] && len(st.Violations) < 20 {
				seenViol[v[0]] = true
				st.Violations = append(st.Violations, exploreViol{v[0], v[1], append([]int{}, r.Exec.Choices...), traceOf(r.Exec)})
			}
		}
		// branch
		pos := 0
		preempt := 0
		for _, p := range r.Exec.Points {
			threadPos := pos
			pos++
			altPos := -1
			if p.Alts > 1 {
				altPos = pos
				pos++
			}
			if threadPos >= len(prefix) {
				// state-key pruning: this state has already been expanded with at least this much budget left;
				// its default continuation and all its alternatives (here and later) are covered
				remaining := 1 << 30
				if bound >= 0 {
					remaining = bound - preempt
				}
				if old, ok := visited[p.Key]; ok && old >= remaining {
					st.Pruned++
					break
				}
				if _, ok := visited[p.Key]; !ok {
					st.States++
				}
				visited[p.Key] = remaining
				for alt := 1; alt < len(p.Enabled); alt++ {
					cost := preempt
					if p.Running {
						cost++
					}
					if bound >= 0 && cost > bound {
						continue
					}
					rec(append(append([]int{}, r.Exec.Choices[:threadPos]...), alt))
				}
			}
			if altPos >= len(prefix) && altPos >= 0 {
				for a := 1; a < p.Alts; a++ {
					rec(append(append([]int{}, r.Exec.Choices[:altPos]...), a))
				}
			}
			if p.Running && p.Chosen != 0 {
				preempt++
			}
		}
	}
	rec(nil)
	return st
}
