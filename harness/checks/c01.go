package checks

import (
	"bytes"
	stded "crypto/ed25519"
	"crypto/sha512"
	"fmt"
	"math/big"
	"runtime"
	"sync/atomic"

	"github.com/wollac/iota-crypto-demo/pkg/ed25519"

	"verifharness/core"
	"verifharness/ref/ed"
)

func init() {
	core.Register(core.Check{ID: "C01", Level: "exploration", Run: func(c *core.Ctx) {
		again := edFirstUse(c, "C01")
		waitArch := background(func() { arch386Pass(c, "C01") })
		runC01(c)
		historyPass(c, "C01")
		reentrancyPass(c, "C01")
		waitArch()
		again()
	}})
}

type c01triple struct {
	pub, msg, sig []byte
	tag           string
}

func runC01(c *core.Ctx) {
	th := c.Thorough()
	c.Rule = "all call histories of length <=3 over 9 kinds of Verify calls (every early-exit path and every accepting family) on one OS thread: each verdict must equal the ZIP-215 predicate regardless of the calls before it; structural product: honest signatures (seeds x message lengths around both SHA-512 block boundaries); all 8x8 torsion shifts of A and R in every encoding with the matching S (must verify) and S+1 (must not); S + j*L for every j that fits 256 bits; every pair of the small-order / non-canonical encodings as (A,R) x boundary S values; all single-bit flips of signature and key, all lengths 0..66, bit pairs in the top byte of S; off-curve A and R; every triple judged by a math/big ZIP-215 predicate (two-sided) and by crypto/ed25519 (accepts => must accept); non-trivial = distinct triples the reference accepts"
	var triples []c01triple
	add := func(pub, msg, sig []byte, tag string) {
		triples = append(triples, c01triple{append([]byte{}, pub...), msg, append([]byte{}, sig...), tag})
	}
	// seeds and messages
	var seeds [][]byte
	seeds = append(seeds, make([]byte, 32), bytes.Repeat([]byte{0xFF}, 32))
	nOneHot, nFixed := 8, 4
	msgLens := []int{0, 1, 111, 112, 176}
	if th {
		nOneHot, nFixed = 32, 8
		msgLens = []int{0, 1, 47, 48, 111, 112, 175, 176, 300}
	}
	for i := 0; i < nOneHot; i++ {
		s := make([]byte, 32)
		s[(i*8+i)%32] = 1 << uint(i%8)
		seeds = append(seeds, s)
	}
	for i := 0; i < nFixed; i++ {
		h := sha512.Sum512([]byte{byte(i), 0xC1})
		seeds = append(seeds, h[:32])
	}
	mkMsg := func(l, salt int) []byte {
		m := make([]byte, l)
		for i := range m {
			m[i] = byte(i*13 + salt)
		}
		return m
	}
	tors := ed.Torsion()
	type honest struct {
		seed, msg []byte
		a, r      *big.Int
		pub       [32]byte
		sig       [64]byte
	}
	var hs []honest
	for si, seed := range seeds {
		for _, l := range msgLens {
			msg := mkMsg(l, si)
			a, prefix := ed.ExpandSeed(seed)
			h := sha512.New()
			h.Write(prefix[:])
			h.Write(msg)
			r := ed.ReduceL(ed.ScalarFromBytesLE(h.Sum(nil)))
			pub := ed.PublicFromSeed(seed)
			sig := ed.Sign(seed, msg)
			hs = append(hs, honest{seed, msg, a, r, pub, sig})
			add(pub[:], msg, sig[:], "honest")
		}
	}
	// (2) torsion product on a subset of honest triples
	nTor := 8
	if th {
		nTor = 16
	}
	for hi := 0; hi < len(hs) && hi < nTor; hi++ {
		h := hs[(hi*7)%len(hs)]
		aB := ed.Base().ScalarMult(h.a)
		rB := ed.Base().ScalarMult(h.r)
		for i := 0; i < 8; i++ {
			for _, aenc := range ed.AllEncodings(aB.Add(tors[i])) {
				for j := 0; j < 8; j++ {
					for _, renc := range ed.AllEncodings(rB.Add(tors[j])) {
						sig := ed.SignRaw(renc, aenc, h.a, h.r, h.msg)
						add(aenc[:], h.msg, sig[:], "torsion")
						s1 := new(big.Int).Add(ed.ScalarFromBytesLE(sig[32:]), big.NewInt(1))
						if s1.Cmp(ed.L) < 0 {
							b := ed.ScalarToBytesLE32(s1)
							bad := append(append([]byte{}, sig[:32]...), b[:]...)
							add(aenc[:], h.msg, bad, "torsion+1")
						}
					}
				}
			}
		}
	}
	// (2b) R related to A: R = A (byte-equal halves: the nonce is the secret scalar), R = -A, R = 2A, and each of them with
	// the S that belongs to the OTHER sign of R - decoding, negating or caching one of two equal points must not touch the other
	for hi := 0; hi < len(hs) && hi < nTor; hi++ {
		h := hs[(hi*5)%len(hs)]
		aB := ed.Base().ScalarMult(h.a)
		aenc := aB.Encode()
		for _, mult := range []int64{1, -1, 2, -2, 8} {
			r := ed.ReduceL(new(big.Int).Mul(big.NewInt(mult), h.a))
			rneg := ed.ReduceL(new(big.Int).Neg(r))
			renc := ed.Base().ScalarMult(r).Encode()
			good := ed.SignRaw(renc, aenc, h.a, r, h.msg)
			add(aenc[:], h.msg, good[:], "R-related-to-A")
			bad := ed.SignRaw(renc, aenc, h.a, rneg, h.msg) // S computed for -R, sent with R
			add(aenc[:], h.msg, bad[:], "R-related-to-A/S-of-the-other-sign")
		}
	}
	// (3) malleability
	two256 := new(big.Int).Lsh(big.NewInt(1), 256)
	for hi, h := range hs {
		if !th && hi%3 != 0 {
			continue
		}
		s := ed.ScalarFromBytesLE(h.sig[32:])
		for j := int64(0); ; j++ {
			v := new(big.Int).Add(s, new(big.Int).Mul(big.NewInt(j), ed.L))
			if v.Cmp(two256) >= 0 {
				break
			}
			b := ed.ScalarToBytesLE32(v)
			add(h.pub[:], h.msg, append(append([]byte{}, h.sig[:32]...), b[:]...), "S+jL")
		}
	}
	// (4) small-order and non-canonical encodings as A and R
	small := ed.SmallOrderEncodings()
	var lowY [][32]byte
	for y := int64(0); y < 19; y++ {
		var enc [32]byte
		enc[0] = byte(y)
		if p, ok := ed.DecodePermissive(enc[:]); ok {
			for _, q := range []ed.Point{p, p.Neg()} {
				for _, e := range ed.AllEncodings(q) {
					dup := false
					for _, s := range append(small, lowY...) {
						if s == e {
							dup = true
						}
					}
					if !dup {
						lowY = append(lowY, e)
					}
				}
			}
		}
	}
	c.Set("small_order_encodings", int64(len(small)))
	c.Set("low_y_encodings", int64(len(lowY)))
	sAll := []*big.Int{big.NewInt(0), big.NewInt(1), new(big.Int).Sub(ed.L, big.NewInt(1)), new(big.Int).Set(ed.L),
		new(big.Int).Sub(new(big.Int).Lsh(big.NewInt(1), 253), big.NewInt(1)), new(big.Int).Lsh(big.NewInt(1), 253), new(big.Int).Sub(two256, big.NewInt(1)), big.NewInt(8)}
	msgs4 := [][]byte{{}, []byte("zip215"), mkMsg(200, 9)}
	if !th {
		msgs4 = msgs4[:1]
	}
	for _, A := range small {
		for _, R := range small {
			for _, s := range sAll {
				sb := ed.ScalarToBytesLE32(s)
				for _, m := range msgs4 {
					add(A[:], m, append(append([]byte{}, R[:]...), sb[:]...), "small-order")
				}
			}
		}
	}
	wide := append(append([][32]byte{}, small...), lowY...)
	for ai, A := range wide {
		for ri, R := range wide {
			if ai < len(small) && ri < len(small) {
				continue
			}
			if !th && (ai+ri)%3 != 0 {
				continue
			}
			for _, s := range sAll[:3] {
				sb := ed.ScalarToBytesLE32(s)
				add(A[:], msgs4[0], append(append([]byte{}, R[:]...), sb[:]...), "low-y")
			}
		}
	}
	// honest key with small-order R and vice versa, S chosen to satisfy the cofactored equation: R small order => [8]SB = [8]kA => S = k*a
	for hi := 0; hi < len(hs) && hi < 4; hi++ {
		h := hs[hi]
		for _, R := range small {
			k := ed.ReduceL(ed.ScalarFromBytesLE(func() []byte { x := sha512.New(); x.Write(R[:]); x.Write(h.pub[:]); x.Write(h.msg); return x.Sum(nil) }()))
			s := ed.ReduceL(new(big.Int).Mul(k, h.a))
			sb := ed.ScalarToBytesLE32(s)
			add(h.pub[:], h.msg, append(append([]byte{}, R[:]...), sb[:]...), "small-R")
		}
		for _, A := range small { // small-order key: any R=rB with S=r verifies
			rB := ed.Base().ScalarMult(h.r).Encode()
			sb := ed.ScalarToBytesLE32(h.r)
			add(A[:], h.msg, append(append([]byte{}, rB[:]...), sb[:]...), "small-A")
		}
	}
	// S in [2^252, L): bit 252 set but canonical. With a small-order key any R = [r]B, S = r satisfies the cofactored equation.
	for _, r := range []*big.Int{new(big.Int).Lsh(big.NewInt(1), 252), new(big.Int).Add(new(big.Int).Lsh(big.NewInt(1), 252), big.NewInt(12345)), new(big.Int).Sub(ed.L, big.NewInt(1)), new(big.Int).Sub(ed.L, big.NewInt(2))} {
		rB := ed.Base().ScalarMult(r).Encode()
		sb := ed.ScalarToBytesLE32(r)
		for _, A := range small {
			add(A[:], []byte("high S"), append(append([]byte{}, rB[:]...), sb[:]...), "high-S")
		}
	}
	// (5) deviations
	nDev := 8
	if th {
		nDev = 12
	}
	for hi := 0; hi < len(hs) && hi < nDev; hi++ {
		h := hs[(hi*5+1)%len(hs)]
		for bit := 0; bit < 512; bit++ {
			s := append([]byte{}, h.sig[:]...)
			s[bit/8] ^= 1 << uint(bit%8)
			add(h.pub[:], h.msg, s, "sig-bitflip")
		}
		for bit := 0; bit < 256; bit++ {
			p := append([]byte{}, h.pub[:]...)
			p[bit/8] ^= 1 << uint(bit%8)
			add(p, h.msg, h.sig[:], "key-bitflip")
		}
		for l := 0; l <= 66; l++ {
			s := make([]byte, l)
			copy(s, h.sig[:])
			add(h.pub[:], h.msg, s, "sig-length")
		}
		for b1 := 0; b1 < 8; b1++ {
			for b2 := b1 + 1; b2 < 8; b2++ {
				s := append([]byte{}, h.sig[:]...)
				s[63] ^= 1<<uint(b1) | 1<<uint(b2)
				add(h.pub[:], h.msg, s, "S-top-bits")
			}
		}
		if len(h.msg) > 0 {
			m := append([]byte{}, h.msg...)
			m[0] ^= 1
			add(h.pub[:], m, h.sig[:], "msg-bitflip")
		}
		add(h.pub[:], append(append([]byte{}, h.msg...), 0), h.sig[:], "msg-extended")
	}
	// (6) off-curve y
	var off [][32]byte
	for y := int64(0); len(off) < 64; y++ {
		var enc [32]byte
		enc[0], enc[1] = byte(y), byte(y>>8)
		if _, ok := ed.DecodePermissive(enc[:]); !ok {
			off = append(off, enc)
		}
	}
	for i, o := range off {
		if !th && i%4 != 0 {
			continue
		}
		h := hs[i%len(hs)]
		add(o[:], h.msg, h.sig[:], "off-curve-A")
		add(h.pub[:], h.msg, append(append([]byte{}, o[:]...), h.sig[32:]...), "off-curve-R")
	}
	// pseudo-random bytes (structure-free filler, fixed seed)
	for i := 0; i < 200; i++ {
		h := sha512.Sum512([]byte{byte(i), byte(i >> 8), 0x5A})
		g := sha512.Sum512(h[:])
		add(h[:32], h[32:40], g[:], "random")
	}

	c.Set("triples", int64(len(triples)))
	var accepted, byStd atomic.Int64
	tagAcc := map[string]*atomic.Int64{}
	for _, t := range triples {
		if tagAcc[t.tag] == nil {
			tagAcc[t.tag] = new(atomic.Int64)
		}
	}
	core.Par(len(triples), func(i int) {
		t := triples[i]
		want := ed.VerifyZIP215(t.pub, t.msg, t.sig)
		var got bool
		p := core.Catch(func() { got = ed25519.Verify(ed25519.PublicKey(t.pub), t.msg, t.sig) })
		c.Eval(1)
		cas := map[string]interface{}{"kind": t.tag, "pub": fmt.Sprintf("%x", t.pub), "msg": fmt.Sprintf("%x", t.msg), "sig": fmt.Sprintf("%x", t.sig)}
		gt := fmt.Sprintf("func TestC01(t *testing.T) { pub, _ := hex.DecodeString(\"%x\"); msg, _ := hex.DecodeString(\"%x\"); sig, _ := hex.DecodeString(\"%x\"); if ed25519.Verify(pub, msg, sig) != %v { t.Fatal(\"ZIP-215 verdict is %v\") } }", t.pub, t.msg, t.sig, want, want)
		if p != nil {
			c.Violate("C01/"+t.tag+"/panic", fmt.Sprint(p), cas, gt, nil)
			return
		}
		if want {
			accepted.Add(1)
			tagAcc[t.tag].Add(1)
		}
		if got != want {
			cls := "accepts-invalid"
			if want {
				cls = "rejects-valid"
			}
			c.Violate("C01/"+t.tag+"/"+cls, fmt.Sprintf("Verify = %v, ZIP-215 predicate = %v (%s)", got, want, t.tag), cas, gt, func() bool {
				return ed25519.Verify(ed25519.PublicKey(t.pub), t.msg, t.sig) == got
			})
		}
		if len(t.pub) == 32 && stded.Verify(stded.PublicKey(t.pub), t.msg, t.sig) {
			byStd.Add(1)
			if !got {
				c.Violate("C01/"+t.tag+"/stricter-than-std", "crypto/ed25519 accepts, Verify rejects", cas, gt, nil)
			}
		}
	})
	acc := map[string]int64{}
	for k, v := range tagAcc {
		acc[k] = v.Load()
	}
	c.Set("accepted_by_kind", acc)
	c.Set("accepted_by_crypto_ed25519", byStd.Load())
	// the torsion family must be accepted in full by construction (guards the reference itself)
	nTorsion := 0
	for _, t := range triples {
		if t.tag == "torsion" {
			nTorsion++
		}
	}
	if int(acc["torsion"]) != nTorsion {
		c.Abort("reference rejects %d of its own torsion-shifted signatures", nTorsion-int(acc["torsion"]))
	}
	// every message length up to and beyond the usual stack-buffer sizes: honest signatures (made by crypto/ed25519) must
	// verify, and must not verify for the message extended or shortened by one byte ("everything crypto/ed25519 accepts")
	{
		maxSweep := 4300
		if th {
			maxSweep = 8400
		}
		var lens []int
		for l := 0; l <= maxSweep; l++ {
			lens = append(lens, l)
		}
		for k := 13; k <= 17; k++ {
			for _, d := range []int{-65, -64, -33, -32, -1, 0, 1, 31, 32, 33, 64} {
				lens = append(lens, 1<<uint(k)+d)
			}
		}
		std := stded.NewKeyFromSeed(bytes.Repeat([]byte{0xA1}, 32))
		pub := []byte(std[32:])
		core.Par(len(lens), func(i int) {
			l := lens[i]
			msg := make([]byte, l+1)
			for k := range msg {
				msg[k] = byte(k*59 + l)
			}
			sig := stded.Sign(std, msg[:l])
			c.Eval(3)
			if !ed25519.Verify(pub, msg[:l], sig) {
				c.Violate("C01/length-sweep/rejects-valid", fmt.Sprintf("honest signature of a %d-byte message rejected (crypto/ed25519 accepts it)", l), l, "", nil)
			}
			if ed25519.Verify(pub, msg[:l+1], sig) && !ed.VerifyZIP215(pub, msg[:l+1], sig) {
				c.Violate("C01/length-sweep/accepts-extended-message", fmt.Sprintf("signature of a %d-byte message accepted for the message plus one byte", l), l, "", nil)
			}
			if l > 0 && ed25519.Verify(pub, msg[:l-1], sig) && !ed.VerifyZIP215(pub, msg[:l-1], sig) {
				c.Violate("C01/length-sweep/accepts-truncated-message", fmt.Sprintf("signature of a %d-byte message accepted for the message minus its last byte", l), l, "", nil)
			}
		})
	}
	c01Histories(c, hs[0].pub[:], hs[0].msg, hs[0].sig[:], small, off)
	c.Sample(map[string]interface{}{"kind": "torsion", "pub": fmt.Sprintf("%x", triples[len(hs)].pub), "sig": fmt.Sprintf("%x", triples[len(hs)].sig)})
	c.Sample(map[string]interface{}{"kind": "small-order", "A": fmt.Sprintf("%x", small[3]), "R": fmt.Sprintf("%x", small[9]), "S": 0})
	c.NonTrivial(accepted.Load())
	c.SetExhaustive(true)
	c.Assume = []string{"ref/ed (math/big edwards25519) is the ZIP-215 oracle; validated against RFC 8032 vectors, crypto/ed25519 and filippo.io/edwards25519 decoding in its unit tests", "\"random bytes\" are covered structurally (bit flips, off-curve values), not by hash pre-images"}
}

// c01Histories: Verify is a function of its arguments; its verdict must not depend on earlier calls. All histories of
// length <= 3 over calls that take every early exit (length, S range, undecodable A, undecodable R) and every accepting
// family, on one locked OS thread (so that pooled or cached scratch state, if any, is re-used).
func c01Histories(c *core.Ctx, pub, msg, sig []byte, small [][32]byte, off [][32]byte) {
	type op struct {
		name          string
		pub, msg, sig []byte
		want          bool
	}
	cat := func(a, b []byte) []byte { return append(append([]byte{}, a...), b...) }
	zero := make([]byte, 32)
	ops := []op{
		{"honest", pub, msg, sig, false},
		{"undecodable R", pub, msg, cat(off[0][:], sig[32:]), false},
		{"undecodable A", off[1][:], msg, sig, false},
		{"S >= L", pub, msg, cat(sig[:32], bytes.Repeat([]byte{0xFF}, 32)), false},
		{"63-byte signature", pub, msg, sig[:63], false},
		{"other message", pub, append([]byte("x"), msg...), sig, false},
		{"small-order A and R, S=0", small[2][:], []byte("m"), cat(small[5][:], zero), false},
		{"small-order A and R, S=1", small[2][:], []byte("m"), cat(small[5][:], append([]byte{1}, zero[1:]...)), false},
		{"undecodable R, long message", pub, bytes.Repeat([]byte{7}, 300), cat(off[2][:], sig[32:]), false},
	}
	for i := range ops {
		ops[i].want = ed.VerifyZIP215(ops[i].pub, ops[i].msg, ops[i].sig)
	}
	done := make(chan struct{})
	var seqs int64
	go func() {
		defer close(done)
		runtime.LockOSThread()
		defer runtime.UnlockOSThread()
		var rec func(hist []int)
		rec = func(hist []int) {
			if len(hist) > 0 {
				seqs++
				var got bool
				var p interface{}
				for i, o := range hist {
					x := ops[o]
					q := core.Catch(func() { got = ed25519.Verify(ed25519.PublicKey(x.pub), x.msg, x.sig) })
					if i == len(hist)-1 {
						p = q
					}
				}
				last := ops[hist[len(hist)-1]]
				if p != nil || got != last.want {
					names := []string{}
					for _, o := range hist {
						names = append(names, ops[o].name)
					}
					c.Violate("C01/history/"+last.name, fmt.Sprintf("after Verify calls %v, Verify(%s) = %v (panic %v); the ZIP-215 verdict is %v regardless of history", names[:len(names)-1], last.name, got, p, last.want), names, "", nil)
				}
			}
			if len(hist) == 3 {
				return
			}
			for o := range ops {
				rec(append(append([]int{}, hist...), o))
			}
		}
		rec(nil)
	}()
	<-done
	c.Eval(seqs)
	c.Set("call_histories", seqs)
}
