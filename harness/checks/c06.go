package checks

import (
	"bytes"
	"context"
	"crypto/sha256"
	"encoding/binary"
	"encoding/hex"
	"fmt"
	"os"
	"os/exec"
	"path/filepath"
	"reflect"
	"regexp"
	"sort"
	"strings"
	"sync"
	"sync/atomic"
	"time"

	"github.com/iotaledger/iota.go/trinary"
	"github.com/wollac/iota-crypto-demo/pkg/curl"

	"verifharness/bitexec"
	"verifharness/bitexec/refcurl"
	"verifharness/core"
)

func init() {
	core.Register(core.Check{ID: "C06", Level: "model_checking", Run: func(c *core.Ctx) {
		waitArch := background(func() { curlVariantPasses(c, "C06") })
		runC06(c, false)
		historyPass(c, "C06")
		reentrancyPass(c, "C06")
		waitArch()
	}})
	core.Register(core.Check{ID: "C06purego", Level: "other", Run: func(c *core.Ctx) { runC06(c, true) }})
}

// ---------------- reference model: 64 independent one-lane sponges, states interned ----------------

type c06lane = [729]int8

type c06ref struct {
	mu     sync.Mutex
	states []c06lane
	index  map[[32]byte]int
	trans  map[[2]int]int // (state, block pattern or -1 = transform only) -> state
}

var c06Blocks [5][243]int8 // block patterns 0..3, pattern 4 = all zero ("lane outside the batch")

func init() {
	x := uint32(0x9E3779B9)
	for p := 0; p < 4; p++ {
		for i := 0; i < 243; i++ {
			x = x*1664525 + 1013904223
			c06Blocks[p][i] = int8((x>>16)%3) - 1
		}
	}
	// pattern 1 differs from pattern 0 in few places as well (one-hot family wants near-identical inputs)
	c06Blocks[1] = c06Blocks[0]
	c06Blocks[1][0] = -c06Blocks[0][0] + int8(1-absInt8(c06Blocks[0][0]))
	c06Blocks[1][242] = (c06Blocks[0][242]+2)%3 - 1
}

func absInt8(v int8) int8 {
	if v < 0 {
		return -v
	}
	return v
}

func newC06Ref() *c06ref {
	r := &c06ref{index: map[[32]byte]int{}, trans: map[[2]int]int{}}
	r.intern(&c06lane{})
	return r
}

func (r *c06ref) intern(s *c06lane) int {
	b := make([]byte, 729)
	for i, v := range s {
		b[i] = byte(v)
	}
	k := sha256.Sum256(b)
	if id, ok := r.index[k]; ok {
		return id
	}
	r.states = append(r.states, *s)
	r.index[k] = len(r.states) - 1
	return len(r.states) - 1
}

// step: optionally overwrite the rate with a block pattern, then apply the permutation.
func (r *c06ref) step(state, block int) int {
	r.mu.Lock()
	if id, ok := r.trans[[2]int{state, block}]; ok {
		r.mu.Unlock()
		return id
	}
	s := r.states[state]
	r.mu.Unlock()
	if block >= 0 {
		copy(s[:243], c06Blocks[block][:])
	}
	refcurl.Transform(&s)
	r.mu.Lock()
	defer r.mu.Unlock()
	id := r.intern(&s)
	r.trans[[2]int{state, block}] = id
	return id
}

// lane returns a copy of an interned lane state.
func (r *c06ref) lane(id int) c06lane {
	r.mu.Lock()
	defer r.mu.Unlock()
	return r.states[id]
}

type c06model struct {
	lanes     [64]int
	squeezing bool
	absorbed  int // blocks absorbed since the last reset (the position in every lane's input stream)
}

// ---------------- operations ----------------

type c06op struct {
	Kind  string `json:"op"` // absorb, squeeze, clone, reset, bad
	Batch int    `json:"batch,omitempty"`
	N     int    `json:"blocks,omitempty"`
	Bad   string `json:"bad,omitempty"`
}

func (o c06op) String() string {
	switch o.Kind {
	case "absorb", "squeeze":
		return fmt.Sprintf("%s(batch=%d,blocks=%d)", o.Kind, o.Batch, o.N)
	case "bad":
		return "rejected:" + o.Bad
	}
	return o.Kind
}

func c06Alphabet() []c06op {
	var ops []c06op
	for _, b := range []int{1, 2, 63, 64} {
		for _, n := range []int{1, 2, 0} {
			ops = append(ops, c06op{Kind: "absorb", Batch: b, N: n})
		}
	}
	for _, b := range []int{1, 2, 63, 64} {
		for _, n := range []int{1, 2, 0} {
			ops = append(ops, c06op{Kind: "squeeze", Batch: b, N: n})
		}
	}
	ops = append(ops, c06op{Kind: "clone"}, c06op{Kind: "swap"}, c06op{Kind: "reset"})
	for _, bad := range []string{"absorb-batch-0", "absorb-batch-65", "absorb-len-242", "absorb-len-244", "squeeze-batch-0", "squeeze-batch-65", "squeeze-len-242", "squeeze-len-244"} {
		ops = append(ops, c06op{Kind: "bad", Bad: bad})
	}
	return ops
}

// block pattern of lane j for stream block t
func c06Pattern(j, t int) int { return (j + t) % 4 }

type c06inst struct {
	real  *curl.Curl
	model c06model
}

type c06run struct {
	c        *core.Ctx
	ref      *c06ref
	cur      c06inst
	shadows  []c06inst // clones left behind: must stay untouched and keep working
	hist     []c06op
	digest   *bytes.Buffer // outputs, for the cross-build comparison
	failed   bool
	dstArena trinary.Trits
	kept     []c06kept
}

type c06kept struct{ now, was trinary.Trits }

func (r *c06run) violate(class, what string) {
	r.failed = true
	names := make([]string, len(r.hist))
	for i, o := range r.hist {
		names[i] = o.String()
	}
	r.c.Violate("C06/"+class, fmt.Sprintf("after %v: %s", names, what), map[string]interface{}{"history": r.hist}, "", nil)
}

func c06RealKey(cu *curl.Curl) [32]byte {
	var l, h [729]uint
	cu.CopyState(l[:], h[:])
	b := make([]byte, 0, 729*16)
	var tmp [8]byte
	for i := 0; i < 729; i++ {
		binary.LittleEndian.PutUint64(tmp[:], uint64(l[i]))
		b = append(b, tmp[:]...)
		binary.LittleEndian.PutUint64(tmp[:], uint64(h[i]))
		b = append(b, tmp[:]...)
	}
	return sha256.Sum256(b)
}

// compare the full bit-sliced state with the model, lane by lane
func (r *c06run) checkState(in *c06inst, who string) {
	var l, h [729]uint
	in.real.CopyState(l[:], h[:])
	for j := 0; j < 64; j++ {
		wl := r.ref.lane(in.model.lanes[j])
		want := &wl
		for i := 0; i < 729; i++ {
			lb, hb := (l[i]>>uint(j))&1, (h[i]>>uint(j))&1
			t := int8(hb) - int8(lb)
			if lb == 0 && hb == 0 {
				r.violate("state/invalid-encoding", fmt.Sprintf("%s: lane %d trit %d has the invalid (0,0) encoding", who, j, i))
				return
			}
			if t != want[i] {
				r.violate("state/lane-differs", fmt.Sprintf("%s: lane %d trit %d is %d, independent sponge has %d", who, j, i, t, want[i]))
				return
			}
		}
	}
}

func (r *c06run) apply(op c06op) {
	r.hist = append(r.hist, op)
	in := &r.cur
	switch op.Kind {
	case "reset":
		in.real.Reset()
		in.model = c06model{}
	case "swap":
		// continue on the instance most recently left behind by a clone; the current one is left behind instead
		if n := len(r.shadows); n > 0 {
			r.shadows[n-1], r.cur = r.cur, r.shadows[n-1]
		}
	case "clone":
		cl := in.real.Clone()
		if cl == in.real {
			r.violate("clone/same-object", "Clone returned the receiver")
			return
		}
		r.shadows = append(r.shadows, c06inst{in.real, in.model}) // leave the original behind, continue on the clone
		in.real = cl
	case "absorb":
		src := make([]trinary.Trits, op.Batch)
		for j := range src {
			src[j] = make(trinary.Trits, 243*op.N)
			for t := 0; t < op.N; t++ {
				copy(src[j][243*t:], c06Blocks[c06Pattern(j, in.model.absorbed+t)][:])
			}
		}
		keep := make([]trinary.Trits, len(src))
		for j := range src {
			keep[j] = append(trinary.Trits{}, src[j]...)
		}
		before := c06RealKey(in.real)
		var err error
		p := core.Catch(func() { err = in.real.Absorb(src, 243*op.N) })
		if in.model.squeezing {
			// absorbing after squeezing is a usage error: it must be refused (panic or error) and change nothing
			if p == nil && err == nil {
				r.violate("absorb-after-squeeze/accepted", "Absorb on a squeezing sponge was accepted")
			} else if c06RealKey(in.real) != before {
				r.violate("absorb-after-squeeze/state-changed", "refused Absorb changed the state")
			}
			return
		}
		if p != nil || err != nil {
			r.violate("absorb/refused", fmt.Sprintf("valid Absorb refused: %v %v", p, err))
			return
		}
		for j := range src {
			if !bytes.Equal(int8bytes(src[j]), int8bytes(keep[j])) {
				r.violate("absorb/input-modified", "Absorb modified its input")
			}
		}
		for t := 0; t < op.N; t++ {
			for j := 0; j < 64; j++ {
				blk := 4
				if j < op.Batch {
					blk = c06Pattern(j, in.model.absorbed)
				}
				in.model.lanes[j] = r.ref.step(in.model.lanes[j], blk)
			}
			in.model.absorbed++
		}
	case "squeeze":
		// the caller's destination: entries are left-overs of earlier calls - consecutive windows of one arena (each
		// with capacity reaching over its neighbours), as a caller that recycles its output slices would pass them
		if r.dstArena == nil {
			r.dstArena = make(trinary.Trits, 64*243)
		}
		dst := make([]trinary.Trits, op.Batch)
		if len(r.hist)%2 == 0 {
			for j := range dst {
				dst[j] = r.dstArena[j*243 : (j+1)*243]
			}
		}
		kept := r.kept
		var err error
		p := core.Catch(func() { err = in.real.Squeeze(dst, 243*op.N) })
		for _, k := range kept { // results of earlier squeezes that the caller still holds must not have changed
			if !bytes.Equal(int8bytes(k.now), int8bytes(k.was)) {
				r.violate("squeeze/overwrites-earlier-result", "a later Squeeze changed the trits returned by an earlier one")
				return
			}
		}
		r.kept = nil
		for j := range dst {
			if len(dst[j]) > 0 {
				r.kept = append(r.kept, c06kept{dst[j], append(trinary.Trits{}, dst[j]...)})
			}
		}
		if p != nil || err != nil {
			r.violate("squeeze/refused", fmt.Sprintf("valid Squeeze refused: %v %v", p, err))
			return
		}
		for t := 0; t < op.N; t++ {
			if in.model.squeezing {
				for j := 0; j < 64; j++ {
					in.model.lanes[j] = r.ref.step(in.model.lanes[j], -1)
				}
			}
			in.model.squeezing = true
			for j := 0; j < op.Batch; j++ {
				wl := r.ref.lane(in.model.lanes[j])
				want := wl[:243]
				if len(dst[j]) != 243*op.N {
					r.violate("squeeze/length", fmt.Sprintf("lane %d: %d trits returned, want %d", j, len(dst[j]), 243*op.N))
					return
				}
				got := dst[j][243*t : 243*t+243]
				if !bytes.Equal(int8bytes(got), int8bytes(want)) {
					r.violate("squeeze/lane-output", fmt.Sprintf("lane %d block %d of the output differs from the independent Curl-P-81 sponge of that lane", j, t))
					return
				}
			}
		}
		for j := range dst {
			r.digest.Write(int8bytes(dst[j]))
		}
	case "bad":
		before := c06RealKey(in.real)
		var err error
		mk := func(n, l int) []trinary.Trits {
			s := make([]trinary.Trits, n)
			for j := range s {
				s[j] = make(trinary.Trits, l)
				for i := range s[j] {
					s[j][i] = 1
				}
			}
			return s
		}
		p := core.Catch(func() {
			switch op.Bad {
			case "absorb-batch-0":
				err = in.real.Absorb(nil, 243)
			case "absorb-batch-65":
				err = in.real.Absorb(mk(65, 243), 243)
			case "absorb-len-242":
				err = in.real.Absorb(mk(2, 242), 242)
			case "absorb-len-244":
				err = in.real.Absorb(mk(2, 244), 244)
			case "squeeze-batch-0":
				err = in.real.Squeeze(nil, 243)
			case "squeeze-batch-65":
				err = in.real.Squeeze(make([]trinary.Trits, 65), 243)
			case "squeeze-len-242":
				err = in.real.Squeeze(make([]trinary.Trits, 2), 242)
			case "squeeze-len-244":
				err = in.real.Squeeze(make([]trinary.Trits, 2), 244)
			}
		})
		if p != nil {
			r.violate("rejected-call/panic", fmt.Sprintf("%s panicked: %v", op.Bad, p))
			return
		}
		if err == nil {
			r.violate("rejected-call/accepted", fmt.Sprintf("%s returned no error", op.Bad))
			return
		}
		if c06RealKey(in.real) != before {
			r.violate("rejected-call/state-changed", fmt.Sprintf("%s returned %v but changed the state", op.Bad, err))
		}
	}
}

// run executes a history on a fresh instance and checks everything after every step.
func c06Exec(c *core.Ctx, ref *c06ref, hist []c06op, checkFrom int) *c06run {
	r := &c06run{c: c, ref: ref, digest: &bytes.Buffer{}}
	r.cur = c06inst{real: curl.NewCurlP81()}
	for i, op := range hist {
		r.apply(op)
		if r.failed {
			return r
		}
		if i >= checkFrom {
			r.checkState(&r.cur, "current instance")
			for si := range r.shadows {
				r.checkState(&r.shadows[si], fmt.Sprintf("instance left behind by clone #%d", si))
			}
			if r.failed {
				return r
			}
		}
	}
	return r
}

var c06ChildRe = regexp.MustCompile(`(?m)^C06PUREGO purego=(true|false) digest=([0-9a-f]{64}) states=(\d+) violations=(\d+)$`)

func runC06(c *core.Ctx, child bool) {
	if err := refcurl.SelfCheck(); err != nil {
		c.Abort("reference Curl-P-81 self check failed: %v", err)
		return
	}
	depth := 4
	if c.Thorough() {
		depth = 5
	}
	if d := os.Getenv("VERIF_C06_DEPTH"); d != "" {
		fmt.Sscan(d, &depth)
	}
	ops := c06Alphabet()
	c.Rule = fmt.Sprintf("breadth-first search over all histories of depth <= %d over %d operations (Absorb batch {1,2,63,64} x {0,1,2} blocks, Squeeze batch {1,2,63,64} x {0,1,2} blocks, Clone, Swap (continue on the instance left behind), Reset, 8 rejected calls) plus a deeper search (depth 6, thorough 7) over a reduced alphabet in which original and clones continue in every order, plus sparse blocks (one non-zero trit at every position) on the real object, de-duplicated on the hash of all live instances' states; after every step every lane of every live instance is compared with 64 independent one-lane reference sponges; plus the one-hot family (lane v differs, every v) and the same search in the purego build", depth, len(ops))
	ref := newC06Ref()
	seen := map[string]bool{}
	var states, transitions, traces int64
	total := sha256.New()
	keyOf := func(r *c06run) string {
		var ks []string
		k := c06RealKey(r.cur.real)
		dir := "a"
		if r.cur.model.squeezing {
			dir = "s"
		}
		ks = append(ks, hex.EncodeToString(k[:8])+dir+fmt.Sprint(r.cur.model.absorbed%4))
		var sh []string
		for _, s := range r.shadows {
			k := c06RealKey(s.real)
			d := "a"
			if s.model.squeezing {
				d = "s"
			}
			sh = append(sh, hex.EncodeToString(k[:8])+d)
		}
		sort.Strings(sh)
		return strings.Join(append(ks, sh...), "|")
	}
	frontier := [][]c06op{{}}
	seen[keyOf(c06Exec(c, ref, nil, 0))] = true
	states = 1
	outcomes := map[string]bool{}
	for d := 1; d <= depth && len(frontier) > 0; d++ {
		type cand struct {
			hist   []c06op
			key    string
			digest []byte
			failed bool
			done   bool
		}
		cands := make([]cand, 0, len(frontier)*len(ops))
		for _, hist := range frontier {
			for _, op := range ops {
				cands = append(cands, cand{hist: append(append([]c06op{}, hist...), op)})
			}
		}
		var capped atomic.Bool
		core.Par(len(cands), func(i int) {
			if capped.Load() || (i%32 == 0 && c.OverBudget()) {
				capped.Store(true)
				return
			}
			h2 := cands[i].hist
			r := c06Exec(c, ref, h2, len(h2)-1)
			cands[i].done = true
			if r.failed {
				cands[i].failed = true
				return
			}
			// at the end of a history every instance left behind by a clone must continue like its model
			for si := range r.shadows {
				sh := r.shadows[si]
				tmp := &c06run{c: c, ref: ref, digest: &bytes.Buffer{}, hist: append(append([]c06op{}, h2...), c06op{Kind: "then, on the instance left behind by a clone"})}
				tmp.cur = c06inst{sh.real.Clone(), sh.model}
				tmp.apply(c06op{Kind: "squeeze", Batch: 64, N: 1})
			}
			// ... and so must the current instance: the state key below is built from the observable state words and
			// the model, so anything else the object carries (the sponge direction, counters) would be merged away; a
			// probe on a clone - one squeezed block of all lanes against the model - keeps the merge honest
			{
				tmp := &c06run{c: c, ref: ref, digest: &bytes.Buffer{}, hist: append(append([]c06op{}, h2...), c06op{Kind: "then, on a clone of the current instance"})}
				tmp.cur = c06inst{r.cur.real.Clone(), r.cur.model}
				tmp.apply(c06op{Kind: "squeeze", Batch: 64, N: 1})
				if tmp.failed {
					cands[i].failed = true
					return
				}
			}
			cands[i].digest = r.digest.Bytes()
			cands[i].key = keyOf(r)
		})
		var next [][]c06op
		for i := range cands {
			if !cands[i].done {
				continue
			}
			transitions++
			traces++
			c.Eval(1)
			if cands[i].failed {
				continue
			}
			total.Write(cands[i].digest)
			od := sha256.Sum256(cands[i].digest)
			outcomes[string(od[:4])] = true
			if !seen[cands[i].key] {
				seen[cands[i].key] = true
				states++
				next = append(next, cands[i].hist)
			}
		}
		c.Set(fmt.Sprintf("new_states_at_depth_%d", d), int64(len(next)))
		if capped.Load() {
			c.Set("cap", fmt.Sprintf("time budget hit at depth %d", d))
			break
		}
		frontier = next
	}
	// second search: clone interplay. A reduced alphabet (two batch sizes, one block, clone, swap, reset) explored deeper:
	// original and clone both continue, in every order, and every instance is compared with its own model after every step.
	{
		small := []c06op{{Kind: "absorb", Batch: 1, N: 1}, {Kind: "absorb", Batch: 2, N: 1}, {Kind: "squeeze", Batch: 2, N: 1}, {Kind: "clone"}, {Kind: "swap"}, {Kind: "reset"}}
		deep := 6
		if c.Thorough() {
			deep = 7
		}
		seen2 := map[string]bool{}
		front := [][]c06op{{}}
		for d := 1; d <= deep && len(front) > 0; d++ {
			type cand struct {
				hist   []c06op
				key    string
				failed bool
			}
			var cands []cand
			for _, h := range front {
				nClones := 0
				for _, o := range h {
					if o.Kind == "clone" {
						nClones++
					}
				}
				for _, o := range small {
					if o.Kind == "clone" && nClones >= 2 {
						continue // at most three live instances
					}
					if o.Kind == "swap" && nClones == 0 {
						continue
					}
					cands = append(cands, cand{hist: append(append([]c06op{}, h...), o)})
				}
			}
			core.Par(len(cands), func(i int) {
				r := c06Exec(c, ref, cands[i].hist, len(cands[i].hist)-1)
				cands[i].failed = r.failed
				if !r.failed {
					cands[i].key = keyOf(r)
				}
			})
			var next [][]c06op
			for i := range cands {
				transitions++
				traces++
				c.Eval(1)
				if cands[i].failed {
					continue
				}
				if !seen2[cands[i].key] {
					seen2[cands[i].key] = true
					states++
					next = append(next, cands[i].hist)
				}
			}
			front = next
			if c.OverBudget() {
				c.Set("cap_clone_interplay", fmt.Sprintf("time budget hit at depth %d", d))
				break
			}
		}
		c.Set("clone_interplay_depth", int64(deep))
		c.Set("clone_interplay_states", int64(len(seen2)))
	}
	c.Sample(map[string]interface{}{"history": []string{"absorb(batch=2,blocks=1)", "clone", "squeeze(batch=63,blocks=2)", "absorb(batch=1,blocks=1) [must be refused]"}})

	// ---- one-hot family: lane v carries pattern 1, all others pattern 0 ----
	for v := 0; v < 64; v++ {
		for _, batch := range []int{64, v + 1} {
			cu := curl.NewCurlP81()
			src := make([]trinary.Trits, batch)
			for j := range src {
				src[j] = make(trinary.Trits, 486)
				p := 0
				if j == v {
					p = 1
				}
				copy(src[j], c06Blocks[p][:])
				copy(src[j][243:], c06Blocks[p][:])
			}
			if err := cu.Absorb(src, 486); err != nil {
				c.Violate("C06/one-hot/absorb", err.Error(), v, "", nil)
				continue
			}
			dst := make([]trinary.Trits, 64)
			if err := cu.Squeeze(dst, 486); err != nil {
				c.Violate("C06/one-hot/squeeze", err.Error(), v, "", nil)
				continue
			}
			transitions += 2
			traces++
			c.Eval(1)
			for j := 0; j < 64; j++ {
				blk := 4
				if j < batch {
					blk = 0
					if j == v {
						blk = 1
					}
				}
				s := ref.step(ref.step(0, blk), blk)
				l1, l2 := ref.lane(s), ref.lane(ref.step(s, -1))
				out1, out2 := l1[:243], l2[:243]
				if !bytes.Equal(int8bytes(dst[j][:243]), int8bytes(out1)) || !bytes.Equal(int8bytes(dst[j][243:]), int8bytes(out2)) {
					c.Violate("C06/one-hot/lane-output", fmt.Sprintf("distinguished lane %d, batch %d: output of lane %d differs from its independent sponge", v, batch, j), map[string]int{"v": v, "batch": batch, "lane": j}, "", nil)
					break
				}
			}
			total.Write(int8bytes(dst[v]))
		}
	}
	// ---- block-count sweep: ONE Absorb call with n blocks and ONE Squeeze call with m blocks, every n up to 130 (chunked
	// or unrolled processing, powers of three and of two, 27 = 6561/243) and every m up to 40; batches of 1, 3 and 64 lanes
	// with distinct lanes; the one-lane reference sponge (bitexec/refcurl) judges every lane. A second instance absorbs the
	// same input in another split (n = a + b) and must agree.
	{
		laneTrit := func(j, i int) int8 {
			x := uint32(j*7919+i*104729+17) * 2654435761
			x ^= x >> 15
			return int8(x%3) - 1
		}
		type bc struct{ n, m, batch int }
		var cases []bc
		for n := 1; n <= 130; n++ {
			b := 1
			if n%9 == 0 || n == 64 || n == 128 {
				b = 64
			} else if n%2 == 0 {
				b = 3
			}
			cases = append(cases, bc{n, 1 + n%3, b})
		}
		for m := 1; m <= 40; m++ {
			cases = append(cases, bc{2, m, 1 + 2*(m%2)})
		}
		var bad atomic.Int64
		core.Par(len(cases), func(ci int) {
			k := cases[ci]
			src := make([]trinary.Trits, k.batch)
			for j := range src {
				src[j] = make(trinary.Trits, 243*k.n)
				for i := range src[j] {
					src[j][i] = laneTrit(j, i)
				}
			}
			run := func(split int) ([]trinary.Trits, interface{}, error) {
				cu := curl.NewCurlP81()
				dst := make([]trinary.Trits, k.batch)
				var err error
				p := core.Catch(func() {
					if split == 0 {
						err = cu.Absorb(src, 243*k.n)
					} else {
						head, tail := make([]trinary.Trits, k.batch), make([]trinary.Trits, k.batch)
						for j := range src {
							head[j], tail[j] = src[j][:243*split], src[j][243*split:]
						}
						if err = cu.Absorb(head, 243*split); err == nil {
							err = cu.Absorb(tail, 243*(k.n-split))
						}
					}
					if err == nil {
						err = cu.Squeeze(dst, 243*k.m)
					}
				})
				return dst, p, err
			}
			c.Eval(1)
			cas := map[string]int{"absorbed_blocks": k.n, "squeezed_blocks": k.m, "batch": k.batch}
			dst, p, err := run(0)
			if p != nil || err != nil {
				c.Violate("C06/block-count/error", fmt.Sprintf("Absorb of %d blocks / Squeeze of %d blocks, batch %d: %v %v", k.n, k.m, k.batch, p, err), cas, "", nil)
				bad.Add(1)
				return
			}
			for j := range src {
				in := make([]int8, len(src[j]))
				for i, t := range src[j] {
					in[i] = t
				}
				want, _ := refcurl.Sum(in, 243*k.m)
				if !bytes.Equal(int8bytes(dst[j]), int8bytes(want)) {
					c.Violate("C06/block-count/lane-output", fmt.Sprintf("one Absorb call with %d blocks, one Squeeze call with %d blocks, batch %d: lane %d differs from the one-lane Curl-P-81 sponge", k.n, k.m, k.batch, j), cas, "", nil)
					bad.Add(1)
					return
				}
			}
			if k.n >= 2 {
				d2, p2, e2 := run(k.n/3 + 1)
				if p2 != nil || e2 != nil || !reflect.DeepEqual(d2, dst) {
					c.Violate("C06/block-count/split-differs", fmt.Sprintf("%d blocks absorbed as %d+%d give another output than absorbed in one call (%v %v)", k.n, k.n/3+1, k.n-k.n/3-1, p2, e2), cas, "", nil)
					bad.Add(1)
				}
			}
		})
		c.Set("block_count_cases", int64(len(cases)))
	}

	// ---- sparse blocks: all zero except one trit (every position, both signs) or except the last k trits ----
	{
		var blocks [][243]int8
		for p := 0; p < 243; p++ {
			for _, v := range []int8{1, -1} {
				var b [243]int8
				b[p] = v
				blocks = append(blocks, b)
			}
		}
		for k := 1; k <= 9; k++ {
			var b [243]int8
			for i := 243 - k; i < 243; i++ {
				b[i] = int8(1 - 2*(i%2))
			}
			blocks = append(blocks, b)
		}
		blocks = append(blocks, [243]int8{})
		bad := make([]int, len(blocks))
		core.Par(len(blocks), func(i int) {
			b := blocks[i]
			cu := curl.NewCurlP81()
			src := []trinary.Trits{make(trinary.Trits, 486), make(trinary.Trits, 486), make(trinary.Trits, 486)}
			copy(src[1][243:], b[:]) // lane 1, second block; lanes 0 and 2 carry the pattern of block 0 twice
			copy(src[0], c06Blocks[0][:])
			copy(src[2], c06Blocks[0][:])
			copy(src[1], c06Blocks[2][:])
			if err := cu.Absorb(src, 486); err != nil {
				bad[i] = 1
				return
			}
			dst := make([]trinary.Trits, 3)
			if err := cu.Squeeze(dst, 243); err != nil {
				bad[i] = 1
				return
			}
			var st c06lane
			copy(st[:243], c06Blocks[2][:])
			refcurl.Transform(&st)
			copy(st[:243], b[:])
			refcurl.Transform(&st)
			if !bytes.Equal(int8bytes(dst[1]), int8bytes(st[:243])) {
				bad[i] = 2
			}
		})
		for i, v := range bad {
			transitions += 2
			traces++
			c.Eval(1)
			if v != 0 {
				c.Violate("C06/sparse-block/lane-output", fmt.Sprintf("lane 1 absorbs a second block that is zero except %v: its output differs from the independent Curl-P-81 sponge", nonZero(blocks[i])), nonZero(blocks[i]), "", nil)
			}
		}
	}
	c.Sample(map[string]interface{}{"one_hot": "lane 37 absorbs pattern 1, lanes 0..36,38..63 pattern 0; 2 blocks in, 2 blocks out; all 64 lanes compared"})

	sum := hex.EncodeToString(total.Sum(nil))
	if child {
		fmt.Printf("C06PUREGO purego=%v digest=%s states=%d violations=%d\n", bitexec.PureGo, sum, states, c.NumViolations())
		c.Set("explanation", "helper process of check C06 (same search in the purego build); not a check")
		c.NonTrivial(states)
		return
	}
	c.Set("states", states)
	c.Set("transitions", transitions)
	c.Set("traces_validated_against_impl", traces)
	c.Set("distinct_outcomes", int64(len(outcomes)))
	c.Set("reference_lane_states", int64(len(ref.states)))
	c.Set("depth_completed", int64(depth))
	c.NonTrivial(states)
	exhaustive := true

	// ---- same search in the purego build ----
	bin := filepath.Join(core.VerifDir, "build", "vcheck-purego")
	if _, err := os.Stat(bin); err != nil {
		c.Set("purego", "build/vcheck-purego not found: purego run skipped")
		exhaustive = false
	} else {
		tmp, _ := os.MkdirTemp("", "c06purego")
		defer os.RemoveAll(tmp)
		ctx, cancel := context.WithTimeout(context.Background(), 15*time.Minute)
		defer cancel()
		cmd := exec.CommandContext(ctx, bin, "C06purego", c.Tier)
		cmd.Env = append(os.Environ(), "VERIF_DIR="+tmp, fmt.Sprintf("VERIF_C06_DEPTH=%d", depth))
		var out, errb bytes.Buffer
		cmd.Stdout, cmd.Stderr = &out, &errb
		runErr := cmd.Run()
		m := c06ChildRe.FindStringSubmatch(out.String())
		switch {
		case m == nil:
			c.Set("purego", fmt.Sprintf("helper produced no digest (%v): %s", runErr, strings.TrimSpace(errb.String()+out.String())))
			exhaustive = false
		case m[1] != "true":
			c.Set("purego", "helper was built without the purego tag: skipped")
			exhaustive = false
		default:
			c.Set("purego_states", m[3])
			if m[4] != "0" {
				c.Violate("C06/purego/violations", "the same search in the purego build found violations (run build/vcheck-purego C06purego to see them): "+m[0], nil, "", nil)
			} else if m[2] != sum || m[3] != fmt.Sprint(states) {
				c.Violate("C06/purego/differs", fmt.Sprintf("outputs of the search differ between the default build (%s, %d states) and the purego build (%s, %s states)", sum[:16], states, m[2][:16], m[3]), nil, "", nil)
			}
		}
	}
	c.SetExhaustive(exhaustive)
	c.Assume = []string{"one-lane Curl-P-81 reference (bitexec/refcurl), validated against testdata/curlp81.json and iota.go's curl at start-up", "state key = hash of the bit-sliced states of all live instances + direction: the object has no other state"}
}

func nonZero(b [243]int8) map[int]int8 {
	m := map[int]int8{}
	for i, v := range b {
		if v != 0 {
			m[i] = v
		}
	}
	return m
}
