//go:build sched

package checks

import (
	"bytes"
	"context"
	"encoding/json"
	"fmt"
	"math"
	"os"
	"os/exec"
	"regexp"
	"sort"
	"strconv"
	"strings"
	"sync"
	"time"

	"verifharness/core"
)

func init() {
	c13Sched = runC13Sched
	core.Register(core.Check{ID: "C13shard", Level: "other", Run: runC13Shard})
}

// c13FindData searches data whose workers first find in the batches given by pattern.
func c13FindData(version, workers int, pattern []int, salt int) (*mineScenario, bool) {
	s := &mineScenario{Version: version, Workers: workers, Pattern: pattern}
	if version == 1 {
		s.TargetV1 = math.Pow(3, 4)/16 - 0.5 // 16-byte message: 4 trailing zeros needed, 3 are not enough
	} else {
		s.TargetV2 = 4 // 16-byte message: l*x = 64, sufficient zeros 4, required 3 + hash comparison
	}
	width := uint64(math.MaxUint64) / uint64(workers)
	for try := 0; try < 4000; try++ {
		s.Data = []byte{'c', '1', '3', byte(version), byte(workers), byte(salt), byte(try), byte(try >> 8)}
		ok := true
		for w := 0; w < workers && ok; w++ {
			first := -1
			for b := 0; b < 3 && first < 0; b++ {
				for j := uint64(0); j < 64; j++ {
					if s.qualifies(uint64(w)*width + uint64(b)*64 + j) {
						first = b
						break
					}
				}
			}
			if first != pattern[w] {
				ok = false
			}
		}
		if ok {
			return s, true
		}
	}
	return nil, false
}

type c13job struct {
	S       *mineScenario `json:"scenario"`
	Bound   int           `json:"bound"`
	MaxPoll int           `json:"max_poll"`
	Budget  int           `json:"budget_s"`
}

func c13Jobs(thorough bool) []c13job {
	var jobs []c13job
	add := func(version, n int, pattern []int, cancel string, bound int) {
		never := true
		for _, p := range pattern {
			if p >= 0 {
				never = false
			}
		}
		if never && cancel == "never" {
			return // mining an unattainable target without cancellation does not terminate by specification
		}
		s, ok := c13FindData(version, n, pattern, len(jobs))
		if !ok {
			return
		}
		s.Cancel = cancel
		s.Name = fmt.Sprintf("v%d/N=%d/find=%v/cancel=%s", version, n, pattern, cancel)
		budget := 100
		if thorough {
			budget = 420
		}
		jobs = append(jobs, c13job{s, bound, 3, budget})
	}
	for _, v := range []int{1, 2} {
		// -1 = unbounded (all interleavings; terminates thanks to state-key pruning)
		b1, b2, b3 := -1, -1, 2
		if thorough {
			b1, b2, b3 = -1, -1, -1
		}
		for _, cancel := range []string{"never", "before", "concurrent"} {
			for _, p := range [][]int{{0}, {1}, {-1}} {
				add(v, 1, p, cancel, b1)
			}
			for _, p := range [][]int{{0, 0}, {0, 1}, {1, 0}, {1, 1}, {0, -1}, {-1, 0}, {-1, -1}} {
				add(v, 2, p, cancel, b2)
			}
			pats3 := [][]int{{0, 0, 0}, {-1, -1, -1}, {0, 1, -1}}
			if thorough {
				pats3 = append(pats3, []int{1, 1, 1}, []int{-1, 0, 1}, []int{1, -1, 0})
			}
			for _, p := range pats3 {
				add(v, 3, p, cancel, b3)
			}
		}
		// the same Worker used twice; the context of the first call is cancelled between the calls
		for _, p := range [][]int{{0}, {1}} {
			add(v, 1, p, "reuse", b1)
		}
		for _, p := range [][]int{{0, 0}, {0, 1}} {
			bb := 2
			if thorough {
				bb = -1
			}
			add(v, 2, p, "reuse", bb)
		}
		// larger worker counts at a small bound
		big := []int{4}
		if thorough {
			big = []int{4, 8, 16}
		}
		for _, n := range big {
			all0 := make([]int, n)
			none := make([]int, n)
			for i := range none {
				none[i] = -1
			}
			bb := 1
			if thorough && n == 4 {
				bb = 2
			}
			if n >= 16 {
				bb = 0
			}
			add(v, n, all0, "concurrent", bb)
			add(v, n, none, "concurrent", bb)
		}
	}
	// the 'every lane qualifies' end of the target range (v1: no trailing zero required; v2: score 0 and score 1), where
	// early exits live; and contexts that carry a (far) deadline but are cancelled by their CancelFunc
	budget := 100
	if thorough {
		budget = 420
	}
	for _, v := range []int{1, 2} {
		for _, n := range []int{1, 2} {
			for _, cancel := range []string{"never", "before", "concurrent", "reuse"} {
				for li, low := range []float64{0, 1.0 / 16, 1.0 / 17} {
					s := &mineScenario{Version: v, Workers: n, Pattern: make([]int, n), Cancel: cancel, TargetV1: low, TargetV2: uint64(li), Data: []byte{'l', 'o', 'w', byte(v), byte(n), byte(li), 0, 0}}
					if v == 2 && li == 2 {
						continue
					}
					s.Name = fmt.Sprintf("v%d/N=%d/low-target-%d/cancel=%s", v, n, li, cancel)
					jobs = append(jobs, c13job{s, -1, 3, budget})
				}
			}
			pats := [][]int{{-1}, {0}}
			if n == 2 {
				pats = [][]int{{-1, -1}, {0, -1}, {1, 1}}
			}
			for _, p := range pats {
				for _, cancel := range []string{"before", "concurrent"} {
					s, ok := c13FindData(v, n, p, len(jobs))
					if !ok {
						continue
					}
					s.Cancel, s.Ctx = cancel, "far-deadline"
					s.Name = fmt.Sprintf("v%d/N=%d/find=%v/cancel=%s/ctx=far-deadline", v, n, p, cancel)
					jobs = append(jobs, c13job{s, -1, 3, budget})
				}
			}
		}
	}
	sort.SliceStable(jobs, func(i, j int) bool { return jobs[i].S.Workers > jobs[j].S.Workers })
	return jobs
}

var c13ShardRe = regexp.MustCompile(`(?m)^C13SHARD (\{.*\})$`)

func runC13Shard(c *core.Ctx) {
	var job c13job
	if err := json.Unmarshal([]byte(os.Getenv("VERIF_C13_JOB")), &job); err != nil {
		c.Abort("C13shard: bad job: %v", err)
		return
	}
	deadline := time.Now().Add(time.Duration(job.Budget) * time.Second)
	st := exploreMine(job.S, job.Bound, job.MaxPoll, func() bool { return time.Now().After(deadline) })
	b, _ := json.Marshal(st)
	fmt.Printf("C13SHARD %s\n", b)
	c.Set("explanation", "shard process of check C13; not a check")
	c.Eval(st.Executions)
	c.NonTrivial(int64(len(st.Outcomes)) + 1)
}

func runC13Sched(c *core.Ctx) {
	jobs := c13Jobs(c.Thorough())
	if only := os.Getenv("VERIF_C13_ONLY"); only != "" { // debugging aid: one scenario, optional bound override
		var sel []c13job
		for _, j := range jobs {
			if strings.Contains(j.S.Name, only) {
				if b := os.Getenv("VERIF_C13_BOUND"); b != "" {
					j.Bound, _ = strconv.Atoi(b)
				}
				sel = append(sel, j)
			}
		}
		jobs = sel
	}
	c.Set("scenarios", int64(len(jobs)))
	type res struct {
		job c13job
		st  *exploreStats
		err string
	}
	results := make([]res, len(jobs))
	sem := make(chan struct{}, 16)
	var wg sync.WaitGroup
	for i := range jobs {
		wg.Add(1)
		go func(i int) {
			defer wg.Done()
			sem <- struct{}{}
			defer func() { <-sem }()
			jb, _ := json.Marshal(jobs[i])
			tmp, _ := os.MkdirTemp("", "c13shard")
			defer os.RemoveAll(tmp)
			ctx, cancel := context.WithTimeout(context.Background(), time.Duration(jobs[i].Budget+120)*time.Second)
			defer cancel()
			cmd := exec.CommandContext(ctx, os.Args[0], "C13shard", c.Tier)
			cmd.Env = append(os.Environ(), "VERIF_C13_JOB="+string(jb), "VERIF_DIR="+tmp, "GOMAXPROCS=2")
			var out, errb bytes.Buffer
			cmd.Stdout, cmd.Stderr = &out, &errb
			err := cmd.Run()
			m := c13ShardRe.FindSubmatch(out.Bytes())
			if m == nil {
				results[i] = res{jobs[i], nil, fmt.Sprintf("shard produced no result (%v): %s %s", err, tail(out.String(), 600), tail(errb.String(), 1200))}
				return
			}
			st := &exploreStats{}
			if e := json.Unmarshal(m[1], st); e != nil {
				results[i] = res{jobs[i], nil, "bad shard output: " + e.Error()}
				return
			}
			results[i] = res{jobs[i], st, ""}
		}(i)
	}
	wg.Wait()
	var execs, points, replayed int64
	outcomes := map[string]bool{}
	perScenario := map[string]interface{}{}
	exhaustive := true
	for _, r := range results {
		if r.st == nil {
			// a shard that died: if it died inside repository code the supervisor of the shard has printed a VIOLATION line
			if regexp.MustCompile(`VIOLATION property=C13shard`).MatchString(r.err) {
				c.Violate("C13/"+r.job.S.Name+"/process-crash", "the exploration process died inside repository code: "+r.err, r.job.S, "", nil)
			} else {
				// died outside the controlled threads and outside repository code (a goroutine the overlay does not own, the
				// scheduler itself): no verdict from this scenario; reported as not explored, the free-running passes go on
				exhaustive = false
				c.Set("not_explored_"+r.job.S.Name, "exploration process failed: "+tail(r.err, 600))
			}
			continue
		}
		execs += r.st.Executions
		points += r.st.Points
		replayed += r.st.Replayed
		for o := range r.st.Outcomes {
			outcomes[fmt.Sprintf("v%d N=%d ", r.job.S.Version, r.job.S.Workers)+o] = true
		}
		perScenario[r.job.S.Name] = map[string]interface{}{"bound": r.st.Bound, "executions": r.st.Executions, "max_points": r.st.MaxPoints, "outcomes": len(r.st.Outcomes), "capped": r.st.Capped}
		if r.st.Capped {
			exhaustive = false
		}
		if r.st.Unsupported != "" {
			c.Set("unsupported", r.st.Unsupported)
		}
		for _, v := range r.st.Violations {
			if strings.HasPrefix(v.Class, "CAP/") {
				exhaustive = false
				c.Set("cap_"+r.job.S.Name, v.What)
				continue
			}
			if len(v.Class) > 9 && v.Class[:9] == "MACHINERY" {
				// the same choices did not reproduce the same execution: something the scheduler does not own changed between
				// two runs in one process (state at package level that survives a call, e.g. a lazily built table). No verdict
				// is taken from such executions; the exploration of this scenario is reported as incomplete and the
				// free-running passes (fresh processes, race detector) go on.
				exhaustive = false
				c.Set("not_reproducible_"+r.job.S.Name, v.Class+": "+v.What)
				continue
			}
			c.Violate(fmt.Sprintf("C13/v%d/%s", r.job.S.Version, v.Class), fmt.Sprintf("%s: %s", r.job.S.Name, v.What),
				map[string]interface{}{"scenario": r.job.S, "choices": v.Choices, "schedule": v.Trace, "preemption_bound": r.st.Bound},
				"// replay: VERIF_C13_JOB with these choices as prefix; see schedule for the interleaving", nil)
		}
	}
	c.Set("states", points)
	c.Set("transitions", points)
	c.Set("traces_validated_against_impl", execs)
	c.Set("schedules_explored", execs)
	c.Set("schedules_replayed_twice", replayed)
	c.Set("distinct_outcomes", int64(len(outcomes)))
	c.Set("per_scenario", perScenario)
	c.Eval(execs)
	c.NonTrivial(int64(len(outcomes)))
	names := make([]string, 0, len(perScenario))
	for n := range perScenario {
		names = append(names, n)
	}
	sort.Strings(names)
	for i, n := range names {
		if i%9 == 0 {
			c.Sample(map[string]interface{}{"scenario": n, "stats": perScenario[n]})
		}
	}
	// the nonce each lane really carries, followed batch by batch with a scripted hash (shared with C11/C12)
	powNonceSweeps(c, "C13", 1)
	powNonceSweeps(c, "C13", 2)
	c13SchedExhaustive = exhaustive
}

var _ = strconv.Itoa
