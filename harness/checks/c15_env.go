package checks

// Environment-answer exploration for the Merkle hasher (E2 with bounded deviations of the environment).
//
// Hash calls out to two things the caller owns: the leaves' MarshalBinary and the hash constructor behind the
// crypto.Hash number (crypto.RegisterHash; Hash.New panics while nothing is registered or when the constructor does).
// A caller that recovers from such a panic (or gets the marshaling error back) and goes on using the same Hasher must
// get the specified tree hash from every later call. So: a scripted constructor is registered under a free crypto.Hash
// number; it counts its calls and fails (panics, exactly like an unavailable hash does) on the calls the explorer
// chooses. Enumerated: all histories of length <= 3 over a small operation alphabet on one fresh Hasher x every single
// failing constructor call of that history (thorough: every pair), default answer = success. Every call that was not
// interrupted itself must return the reference value.

import (
	"bytes"
	"crypto"
	"crypto/sha512"
	"encoding"
	"errors"
	"fmt"
	"hash"
	"sync"

	"github.com/wollac/iota-crypto-demo/pkg/merkle"

	"verifharness/core"
)

var c15script struct {
	sync.Mutex
	calls int
	fail  map[int]bool
	down  bool // the constructor is "not linked in yet": every call panics
}

func c15scriptedNew() hash.Hash {
	c15script.Lock()
	n := c15script.calls
	c15script.calls++
	f := c15script.fail[n] || c15script.down
	c15script.Unlock()
	if f {
		panic("crypto: requested hash function is unavailable (scripted)")
	}
	return sha512.New512_256()
}

type c15envOp struct {
	name string
	n    int // leaves; -1 = EmptyRoot, -2 = Hash(empty non-nil slice)
	fail int // leaf whose MarshalBinary returns an error, -1 none
	boom int // leaf whose MarshalBinary panics, -1 none
}

func c15EnvironmentPass(c *core.Ctx) {
	// The scripted constructor takes the place of SHA-512/256 (it computes SHA-512/256, so a library that knows hash
	// numbers by name is not misled); the original registration is restored at the end.
	id := crypto.SHA512_256
	defer crypto.RegisterHash(id, sha512.New512_256)
	wants := map[int][]byte{}
	for _, n := range []int{0, 1, 2, 3, 5} {
		wants[n] = refMerkleRoot(id, c15Leaves(n, 3))
	}
	crypto.RegisterHash(id, c15scriptedNew)
	// before the hash is "linked in": every use of the constructor panics; afterwards the same Hasher must work
	var early *merkle.Hasher
	core.Catch(func() { early = merkle.NewHasher(id) }) // built while the hash is still available
	c15script.down = true
	if early == nil {
		c.Set("environment_pass", "NewHasher failed for the scripted hash: skipped")
		c15script.down = false
		return
	}
	for _, f := range []func(){func() { early.EmptyRoot() }, func() { early.Hash(nil) }, func() { early.Hash([]encoding.BinaryMarshaler{c15leafB("x")}) }, func() { early.Size() }} {
		func() { defer func() { recover() }(); f() }()
	}
	c15script.down = false
	ops := []c15envOp{{"EmptyRoot()", -1, -1, -1}, {"Hash(nil)", 0, -1, -1}, {"Hash(empty slice)", -2, -1, -1}, {"Hash(1 leaf)", 1, -1, -1}, {"Hash(2 leaves)", 2, -1, -1},
		{"Hash(3 leaves)", 3, -1, -1}, {"Hash(3 leaves, leaf 1 fails)", 3, 1, -1}, {"Hash(5 leaves, leaf 2 panics)", 5, -1, 2}}
	want := func(o c15envOp) []byte {
		n := o.n
		if n < 0 {
			n = 0
		}
		return wants[n]
	}
	// run executes one history on hasher hs with the given failing constructor calls; returns the number of constructor calls
	run := func(mk func() *merkle.Hasher, hist []int, fail map[int]bool, label string) int {
		// the Hasher is built while the constructor works (an implementation may use it already in NewHasher)
		c15script.Lock()
		c15script.calls, c15script.fail = 0, nil
		c15script.Unlock()
		var hs *merkle.Hasher
		if pn := core.Catch(func() { hs = mk() }); pn != nil || hs == nil {
			c.Violate("C15/environment/new-hasher-panics", fmt.Sprintf("NewHasher panicked although the hash is available: %v", pn), nil, "", nil)
			return 0
		}
		c15script.Lock()
		c15script.calls, c15script.fail = 0, fail
		c15script.Unlock()
		names := []string{}
		for _, oi := range hist {
			o := ops[oi]
			names = append(names, o.name)
			c15script.Lock()
			before := c15script.calls
			c15script.Unlock()
			var got []byte
			var err error
			panicked := func() (p bool) {
				defer func() {
					if r := recover(); r != nil {
						p = true
					}
				}()
				switch {
				case o.n == -1:
					got = hs.EmptyRoot()
				case o.n == -2:
					got, err = hs.Hash([]encoding.BinaryMarshaler{})
				case o.n == 0:
					got, err = hs.Hash(nil)
				default:
					raw := c15Leaves(o.n, 3)
					data := make([]encoding.BinaryMarshaler, o.n)
					for i := range data {
						i := i
						switch i {
						case o.fail:
							data[i] = c15fn(func() ([]byte, error) { return nil, errors.New("scripted marshaling error") })
						case o.boom:
							data[i] = c15fn(func() ([]byte, error) { panic("scripted marshaler panic") })
						default:
							data[i] = c15leafB(raw[i])
						}
					}
					got, err = hs.Hash(data)
				}
				return false
			}()
			c15script.Lock()
			after := c15script.calls
			c15script.Unlock()
			interrupted := o.boom >= 0
			for k := before; k < after; k++ {
				if fail[k] {
					interrupted = true
				}
			}
			c.Eval(1)
			if interrupted {
				continue // the environment failed inside this call: whatever it did is its own business
			}
			cas := map[string]interface{}{"history": names, "failing_constructor_calls": keysOf(fail), "hasher": label}
			switch {
			case panicked:
				c.Violate("C15/environment/panic-after-recovered-failure", fmt.Sprintf("%s panics although its own hash constructor and marshalers worked (history %v, constructor calls that failed earlier: %v, %s)", o.name, names, keysOf(fail), label), cas, "", nil)
			case o.fail >= 0:
				if err == nil || got != nil {
					c.Violate("C15/environment/error-lost", fmt.Sprintf("%s returned %x, %v (history %v, failed constructor calls %v, %s)", o.name, got, err, names, keysOf(fail), label), cas, "", nil)
				}
			case err != nil || !bytes.Equal(got, want(o)):
				c.Violate("C15/environment/root-differs-after-recovered-failure", fmt.Sprintf("%s = %x (err %v), the tree hash is %x; history %v on one Hasher whose hash constructor failed on calls %v (recovered by the caller), %s", o.name, got, err, want(o), names, keysOf(fail), label), cas, "", nil)
			}
		}
		c15script.Lock()
		defer c15script.Unlock()
		return c15script.calls
	}
	// the Hasher that was used before the registration
	for oi := range ops {
		run(func() *merkle.Hasher { return early }, []int{oi}, nil, "Hasher first used before crypto.RegisterHash")
	}
	var shared *merkle.Hasher
	fresh := func() *merkle.Hasher { return merkle.NewHasher(id) }
	theShared := func() *merkle.Hasher {
		if shared == nil {
			shared = merkle.NewHasher(id)
		}
		return shared
	}
	var hists, runs int64
	var rec func(hist []int)
	rec = func(hist []int) {
		if len(hist) > 0 {
			hists++
			total := run(fresh, hist, nil, "fresh Hasher")
			runs++
			for p := 0; p < total; p++ {
				run(fresh, hist, map[int]bool{p: true}, "fresh Hasher")
				run(theShared, hist, map[int]bool{p: true}, "one Hasher used by all histories")
				runs += 2
				if c.Thorough() && len(hist) <= 2 {
					for q := p + 1; q < total; q++ {
						run(fresh, hist, map[int]bool{p: true, q: true}, "fresh Hasher")
						runs++
					}
				}
			}
		}
		if len(hist) == 3 {
			return
		}
		for o := range ops {
			rec(append(append([]int{}, hist...), o))
		}
	}
	rec(nil)
	c.Set("environment_histories", hists)
	c.Set("environment_runs_with_scripted_constructor", runs)
	c.NonTrivial(hists)
}

func keysOf(m map[int]bool) []int {
	out := []int{}
	for k := 0; k < 1<<16 && len(out) < len(m); k++ {
		if m[k] {
			out = append(out, k)
		}
	}
	return out
}
