package checks

import (
	"fmt"
	"math/big"
	"reflect"
	"strings"

	"github.com/wollac/iota-crypto-demo/pkg/bip32path"

	"verifharness/core"
)

func init() {
	core.Register(core.Check{ID: "C10", Level: "exploration", Run: func(c *core.Ctx) {
		waitArch := background(func() { arch386Pass(c, "C10") })
		runC10(c)
		historyPass(c, "C10")
		reentrancyPass(c, "C10")
		waitArch()
	}})
}

// refParsePath follows C10's grammar literally. dontCare marks the single string the statement leaves open ("m/").
func refParsePath(s string) (path []uint32, ok bool, dontCare bool) {
	if s == "" || s == "m" {
		return []uint32{}, true, false
	}
	if s == "m/" {
		return nil, false, true
	}
	if strings.HasPrefix(s, "m/") {
		s = s[2:]
	}
	limit := big.NewInt(1 << 31)
	for _, comp := range strings.Split(s, "/") {
		hard := false
		if n := len(comp); n > 0 && (comp[n-1] == 'H' || comp[n-1] == '\'') {
			hard = true
			comp = comp[:n-1]
		}
		if comp == "" {
			return nil, false, false
		}
		v := new(big.Int)
		for i := 0; i < len(comp); i++ {
			ch := comp[i]
			if ch < '0' || ch > '9' {
				return nil, false, false
			}
			v.Mul(v, big.NewInt(10))
			v.Add(v, big.NewInt(int64(ch-'0')))
		}
		if v.Cmp(limit) >= 0 {
			return nil, false, false
		}
		x := uint32(v.Uint64())
		if hard {
			x += 1 << 31
		}
		path = append(path, x)
	}
	return path, true, false
}

func c10HasLeadingZero(s string) bool {
	s = strings.TrimPrefix(s, "m/")
	for _, comp := range strings.Split(s, "/") {
		if len(comp) > 1 && comp[0] == '0' && comp[1] >= '0' && comp[1] <= '9' {
			return true
		}
	}
	return false
}

func c10Judge(c *core.Ctx, s string, tag string) (accepted bool) {
	want, wok, dc := refParsePath(s)
	var got bip32path.Path
	var err error
	p := core.Catch(func() { got, err = bip32path.ParsePath(s) })
	c.Eval(1)
	class := ""
	if c10HasLeadingZero(s) {
		class = "/leading-zero"
	}
	gotest := fmt.Sprintf("func TestC10(t *testing.T) { p, err := bip32path.ParsePath(%q); t.Logf(\"%%v %%v\", p, err) /* reference: ok=%v path=%v */ }", s, wok, want)
	re := func() bool {
		var g2 bip32path.Path
		var e2 error
		p2 := core.Catch(func() { g2, e2 = bip32path.ParsePath(s) })
		return fmt.Sprint(p2, g2, e2) == fmt.Sprint(p, got, err)
	}
	if p != nil {
		c.Violate("C10/"+tag+"/panic", fmt.Sprintf("ParsePath(%q) panicked: %v", s, p), s, gotest, re)
		return false
	}
	if dc {
		return err == nil
	}
	if wok && err != nil {
		c.Violate("C10/"+tag+"/reject-valid"+class, fmt.Sprintf("ParsePath(%q) = error %q, the grammar accepts it as %v", s, err, want), s, gotest, re)
		return false
	}
	if !wok && err == nil {
		c.Violate("C10/"+tag+"/accept-invalid"+class, fmt.Sprintf("ParsePath(%q) = %v, the grammar rejects it", s, []uint32(got)), s, gotest, re)
		return true
	}
	if wok {
		if len(got) != len(want) || (len(want) > 0 && !reflect.DeepEqual([]uint32(got), want)) {
			c.Violate("C10/"+tag+"/wrong-value"+class, fmt.Sprintf("ParsePath(%q) = %v, decimal reading is %v", s, []uint32(got), want), s, gotest, re)
		}
		if err == nil && got == nil && len(want) == 0 && s != "" && s != "m" {
			// nothing: nil vs empty slice is not observable through the property
		}
		// UnmarshalText agrees
		var q bip32path.Path
		if e := q.UnmarshalText([]byte(s)); e != nil || !reflect.DeepEqual([]uint32(q), []uint32(got)) && len(got) > 0 {
			c.Violate("C10/"+tag+"/unmarshal-differs", fmt.Sprintf("UnmarshalText(%q) = %v,%v but ParsePath = %v", s, []uint32(q), e, []uint32(got)), s, gotest, nil)
		}
		return true
	}
	return false
}

func runC10(c *core.Ctx) {
	alpha := []byte{'0', '1', '7', '8', '9', 'm', '/', 'H', '\'', 'x'}
	maxLen := 6
	if c.Thorough() {
		maxLen = 7
	}
	c.Rule = fmt.Sprintf("all strings of length <= %d over {0,1,7,8,9,m,/,H,',x}; product of component values x leading zeros x suffixes x shapes; round trip of all paths of length <= 3 over 6 boundary indices; non-trivial = distinct strings the grammar accepts + distinct paths round-tripped", maxLen)
	var nontriv int64
	// all strings up to maxLen: shard by first two symbols
	type shard struct{ a, b int }
	var shards []shard
	for a := 0; a < len(alpha); a++ {
		for b := 0; b < len(alpha); b++ {
			shards = append(shards, shard{a, b})
		}
	}
	c10Judge(c, "", "str")
	for a := 0; a < len(alpha); a++ {
		if c10Judge(c, string(alpha[a]), "str") {
			nontriv++
		}
	}
	acc := make([]int64, len(shards))
	core.Par(len(shards), func(si int) {
		sh := shards[si]
		buf := make([]byte, 0, maxLen)
		buf = append(buf, alpha[sh.a], alpha[sh.b])
		var rec func()
		rec = func() {
			if c10Judge(c, string(buf), "str") {
				acc[si]++
			}
			if len(buf) == maxLen {
				return
			}
			for _, ch := range alpha {
				buf = append(buf, ch)
				rec()
				buf = buf[:len(buf)-1]
			}
		}
		rec()
	})
	for _, a := range acc {
		nontriv += a
	}
	c.Sample("m/08'")

	// component product
	values := []string{"0", "1", "7", "8", "9", "10", "2147483647", "2147483648", "2147483649", "4294967295", "4294967296",
		"9223372036854775808", "18446744073709551616", "10000000000000000000000000"}
	zeros := []int{0, 1, 2, 20}
	suffixes := []string{"", "H", "'", "HH", "'H", "h", "H'"}
	shapes := []string{"%s", "m/%s", "m/%s/1/2", "m/1/2/%s", "%s/5", "m//%s", "m/%s/", "/%s", "m/%s//3", "M/%s", " %s", "%s ", "+%s", "-%s", "0x%s", "0o%s", "0b%s", "%s_0", "m/%s.0", "m/١%s", "m/+%s", "m/-%s", "m/1/+0%s", "m/%se0", "m/%s\n", "m/\t%s", "m/1/ %s", "m/%s\x00"}
	for _, v := range values {
		for _, z := range zeros {
			for _, sf := range suffixes {
				for _, sh := range shapes {
					s := fmt.Sprintf(sh, strings.Repeat("0", z)+v+sf)
					if c10Judge(c, s, "comp") {
						nontriv++
					}
				}
			}
		}
	}
	c.Sample("m/0000000000000000000002147483647H/1/2")

	// digit-count sweep: a component of every length 1..1100 (zero padding in front of a small, a boundary and an overflowing
	// value; counters of 8 and 10 bits wrap inside), plain and hardened, alone and as second component
	for _, v := range []string{"0", "7", "2147483647", "2147483648", "1000000000"} {
		for z := 0; z <= 1100; z++ {
			if z > 40 && z%7 != 0 && (z+len(v))%256 > 3 && (z+len(v))%256 < 253 && (z+len(v))%1024 > 3 {
				continue // every length near the multiples of 256, every 7th elsewhere
			}
			comp := strings.Repeat("0", z) + v
			for _, s := range []string{"m/" + comp, comp + "'", "m/1/" + comp + "H/2"} {
				if c10Judge(c, s, "digit-count") {
					nontriv++
				}
			}
		}
	}

	// every byte value (and every multi-byte rune of a small set) at every position of a set of templates: as a marker
	// behind the digits, between digits, in front, as separator, as prefix letter; substituted and inserted. This replaces
	// the assumption that every byte outside the alphabet behaves like 'x'.
	templates := []string{"m/44", "m/44'", "m/44H", "m/2147483647", "44", "m/1/2", "m/0'/1H/2", "m/7/", "m"}
	var pieces []string
	for b := 0; b < 256; b++ {
		pieces = append(pieces, string([]byte{byte(b)}))
	}
	pieces = append(pieces, "′", "ʹ", "Ｈ", "٠", "０", "∕", "⁄", "ħ", "¹", "||", "|'", "'|", "H|")
	for _, tpl := range templates {
		for pos := 0; pos <= len(tpl); pos++ {
			for _, pc := range pieces {
				if c10Judge(c, tpl[:pos]+pc+tpl[pos:], "byte-sweep") {
					nontriv++
				}
				if pos < len(tpl) {
					if c10Judge(c, tpl[:pos]+pc+tpl[pos+1:], "byte-sweep") {
						nontriv++
					}
				}
			}
		}
	}

	// round trip
	idx := []uint32{0, 1, 1<<31 - 1, 1 << 31, 1<<31 + 1, 1<<32 - 1}
	var paths [][]uint32
	paths = append(paths, []uint32{})
	for _, a := range idx {
		paths = append(paths, []uint32{a})
		for _, b := range idx {
			paths = append(paths, []uint32{a, b})
			for _, d := range idx {
				paths = append(paths, []uint32{a, b, d})
			}
		}
	}
	long := make([]uint32, 64)
	for i := range long {
		long[i] = uint32(i)*0x9E3779B1 + 7
	}
	paths = append(paths, long)
	// any length: around every power of two up to 2^17 (depth limits, 8- and 16-bit counters)
	for k := 7; k <= 17; k++ {
		for _, d := range []int{-1, 0, 1} {
			lp := make([]uint32, 1<<uint(k)+d)
			for i := range lp {
				lp[i] = uint32(i)*2654435761 + uint32(k)
			}
			paths = append(paths, lp)
		}
	}
	// single-component paths for many values incl. those whose decimal form would read as octal if zero-padded
	for v := uint32(0); v < 5000; v++ {
		paths = append(paths, []uint32{v}, []uint32{v | 1<<31})
	}
	for _, pth := range paths {
		p := bip32path.Path(pth)
		s := p.String()
		c.Eval(1)
		back, err := bip32path.ParsePath(s)
		if err != nil || len(back) != len(pth) || (len(pth) > 0 && !reflect.DeepEqual([]uint32(back), pth)) {
			c.Violate("C10/roundtrip/string", fmt.Sprintf("ParsePath(%q) = %v,%v want %v", s, []uint32(back), err, pth), pth, "", nil)
		}
		txt, err := p.MarshalText()
		var q bip32path.Path
		if err != nil || q.UnmarshalText(txt) != nil || len(q) != len(pth) || (len(pth) > 0 && !reflect.DeepEqual([]uint32(q), pth)) {
			c.Violate("C10/roundtrip/text", fmt.Sprintf("UnmarshalText(MarshalText(%v)) = %v", pth, []uint32(q)), pth, "", nil)
		}
		// the printed form itself must be in the grammar with the same reading
		if w, ok, _ := refParsePath(s); !ok || len(w) != len(pth) || (len(pth) > 0 && !reflect.DeepEqual(w, pth)) {
			c.Violate("C10/roundtrip/printed-form", fmt.Sprintf("String() = %q is not the grammar's spelling of %v", s, pth), pth, "", nil)
		}
		nontriv++
	}
	// ---- E2: one receiver decoded into again and again (a json.Decoder loop, a re-used struct) ----
	// all sequences of length <= 4 over 9 texts x 4 initial receivers (nil, empty with capacity, filled exactly, filled with
	// spare capacity); after every successful UnmarshalText the receiver must hold the grammar's reading of that text
	{
		texts := []string{"", "m", "m/1", "m/1/2'", "1/2/3/4/5", "m/0H/00/007", "m/2147483647'/0", "m/x", "m//1"}
		inits := []func() bip32path.Path{func() bip32path.Path { return nil }, func() bip32path.Path { return make(bip32path.Path, 0, 8) },
			func() bip32path.Path { return bip32path.Path{9, 8, 7} }, func() bip32path.Path { return append(make(bip32path.Path, 0, 16), 9, 8) }}
		depth := 3
		if c.Thorough() {
			depth = 4
		}
		var seqs int64
		var rec func(hist []int)
		rec = func(hist []int) {
			if len(hist) > 0 {
				for ii, mk := range inits {
					seqs++
					q := mk()
					var names []string
					for _, ti := range hist {
						names = append(names, texts[ti])
						var err error
						pn := core.Catch(func() { err = q.UnmarshalText([]byte(texts[ti])) })
						w, ok, _ := refParsePath(texts[ti])
						cas := map[string]interface{}{"texts": names, "initial_receiver": ii}
						switch {
						case pn != nil:
							c.Violate("C10/receiver-reuse/panic", fmt.Sprintf("UnmarshalText(%q) on a receiver that was used before (initial receiver %d, texts %q) panicked: %v", texts[ti], ii, names, pn), cas, "", nil)
							return
						case ok != (err == nil):
							c.Violate("C10/receiver-reuse/verdict", fmt.Sprintf("UnmarshalText(%q) on a used receiver (initial %d, texts %q): err %v, grammar says valid=%v", texts[ti], ii, names, err, ok), cas, "", nil)
							return
						case ok && (len(q) != len(w) || len(w) > 0 && !reflect.DeepEqual([]uint32(q), w)):
							c.Violate("C10/receiver-reuse/wrong-path", fmt.Sprintf("UnmarshalText(%q) on a used receiver (initial %d, texts %q) left %v in it, the text reads %v", texts[ti], ii, names, []uint32(q), w), cas, "", nil)
							return
						}
					}
				}
			}
			if len(hist) == depth {
				return
			}
			for t := range texts {
				rec(append(append([]int{}, hist...), t))
			}
		}
		rec(nil)
		c.Eval(seqs)
		nontriv += seqs
		c.Set("receiver_reuse_sequences", seqs)
	}
	c.NonTrivial(nontriv)
	c.SetExhaustive(true)
	c.Assume = []string{"strings over the 10-symbol alphabet are complete up to the length bound; every other byte value is covered by substitution / insertion at every position of 9 templates, not in arbitrary combination"}
}
