package checks

import (
	"bytes"
	"crypto/sha256"
	"encoding/hex"
	"fmt"
	"reflect"
	"strings"
	"sync/atomic"

	"github.com/wollac/iota-crypto-demo/pkg/bip39"

	"verifharness/core"
	rb39 "verifharness/ref/bip39"
)

func init() {
	core.Register(core.Check{ID: "C09", Level: "exploration", Run: func(c *core.Ctx) {
		waitArch := background(func() { arch386Pass(c, "C09") })
		runC09(c)
		historyPass(c, "C09")
		reentrancyPass(c, "C09")
		waitArch()
	}})
}

func runC09(c *core.Ctx) {
	th := c.Thorough()
	c.Rule = "seed: valid sentences (12/24/48 words, both lists, incl. the NFC spelling of the Japanese one) x all passphrases of length <=2 over a 36-code-point alphabet chosen for NFKD behaviour (+2 long ones) against an own PBKDF2-HMAC-SHA512 and a table-driven NFKD (Python unicodedata); invalid sentences => error and nil seed; parser: all strings of <=4 (thorough 5) symbols over a 13-symbol alphabet of letters, kana (composed/decomposed), 8 kinds of white space, ZWSP and U+FDFA, and a 3-word sentence with every separator combination; non-trivial = distinct (sentence, passphrase) seeds compared + distinct parser inputs yielding >=1 word"
	var nontriv atomic.Int64
	pass := []string{"a", "Z", "0", " ", "é", "é", "́", "Å", "Å", "ﬁ", "㍿", "Ａ", "가", "　", " ",
		"̣", "̂", "ﷺ", "あ", "が", "が", "゙", "ß", "ſ", "İ", "ı", "ẛ̣", "½", "①", "㎒", "µ", "Ω", "Ω", "ñ", "Ǆ", "ﾊﾟ"}
	for _, p := range pass {
		if _, err := rb39.NFKD(p); err != nil {
			c.Abort("passphrase alphabet outside the NFKD table: %v", err)
			return
		}
	}
	type sent struct {
		lang  string
		words bip39.Mnemonic
		full  bool // all length-2 passphrases
	}
	var sents []sent
	jaNFC := ""
	var jaWords bip39.Mnemonic
	for _, lang := range []string{"english", "japanese"} {
		if err := bip39.SetWordList(lang); err != nil {
			c.Violate("C09/setwordlist", err.Error(), lang, "", nil)
			return
		}
		for _, n := range []int{16, 32, 64} {
			e := make([]byte, n)
			for i := range e {
				e[i] = byte(i*31 + n + len(lang))
			}
			m, err := bip39.EntropyToMnemonic(e)
			if err != nil {
				c.Violate("C09/setup", err.Error(), lang, "", nil)
				return
			}
			sents = append(sents, sent{lang, m, n == 16 && (lang == "english" || th) || th && n == 64})
			if lang == "japanese" && n == 16 {
				jaWords = m
				var nfc []string
				for _, w := range m {
					nfc = append(nfc, rb39.ComposeKana(w))
				}
				jaNFC = strings.Join(nfc, "　")
			}
		}
	}
	// the NFC spelling (ideographic spaces) must parse to the listed (NFKD) words
	if got := bip39.ParseMnemonic(jaNFC); !reflect.DeepEqual([]string(got), []string(jaWords)) {
		c.Violate("C09/parse/japanese-nfc", fmt.Sprintf("ParseMnemonic(NFC spelling) = %q want %q", got, jaWords), jaNFC, "", nil)
	} else if jaNFC == strings.Join(jaWords, "　") {
		c.Set("japanese_nfc_differs", false)
	} else {
		nontriv.Add(1)
	}

	long1 := strings.Repeat("pässwörd　", 100)
	long2 := strings.Repeat("ệ", 340)
	type job struct {
		s sent
		p string
	}
	var jobs []job
	for _, s := range sents {
		ps := []string{"", long1, long2, "TREZOR"}
		ps = append(ps, pass...)
		if s.full {
			for _, a := range pass {
				for _, b := range pass {
					ps = append(ps, a+b)
				}
			}
		} else {
			for i, a := range pass { // a diagonal of pairs
				ps = append(ps, a+pass[(i*7+3)%len(pass)])
			}
		}
		for _, p := range ps {
			jobs = append(jobs, job{s, p})
		}
	}
	// length sweeps of the two derived strings: the printed sentence (HMAC key; every byte length that valid English
	// sentences of 12..24 words reach among 40000 candidates per word count, in particular the lengths around the 128-byte
	// block of HMAC-SHA512) and the salt "mnemonic"+passphrase (every passphrase length 0..300)
	{
		bip39.SetWordList("english")
		type rep struct {
			m bip39.Mnemonic
			p string
		}
		var reps []rep
		lengths := 0
		for _, nb := range []int{16, 20, 24, 28, 32} {
			seenLen := map[int]bool{}
			for ctr := 0; ctr < 40000; ctr++ {
				h := sha256.Sum256([]byte(fmt.Sprintf("sentence length sweep %d %d", nb, ctr)))
				m, err := bip39.EntropyToMnemonic(h[:nb])
				if err != nil {
					break
				}
				if l := len(m.String()); !seenLen[l] {
					seenLen[l] = true
					reps = append(reps, rep{m, ""})
				}
			}
			lengths += len(seenLen)
		}
		c.Set("sentence_byte_lengths_covered", int64(lengths))
		fixed, _ := bip39.EntropyToMnemonic(bytes.Repeat([]byte{0x3c}, 16))
		for l := 0; l <= 300; l++ {
			reps = append(reps, rep{fixed, strings.Repeat("p", l)})
		}
		core.Par(len(reps), func(i int) {
			r := reps[i]
			var seed []byte
			var err error
			p := core.Catch(func() { seed, err = bip39.MnemonicToSeed(r.m, r.p) })
			c.Eval(1)
			nontriv.Add(1)
			want, rerr := rb39.Seed(r.m, r.p)
			if rerr != nil {
				return
			}
			if p != nil || err != nil || !bytes.Equal(seed, want) {
				c.Violate("C09/seed/length-sweep", fmt.Sprintf("%d-word sentence of %d bytes, passphrase of %d bytes: seed %x... (%v %v), PBKDF2 reference %x...", len(r.m), len(r.m.String()), len(r.p), seed[:min(8, len(seed))], p, err, want[:8]), map[string]interface{}{"sentence": r.m.String(), "passphrase_len": len(r.p)}, "", nil)
			}
		})
	}
	// every word of both lists once: a valid sentence that starts with word i, printed, parsed again (must be the same
	// sentence) and turned into a seed (must succeed and equal the reference) - a table entry in another spelling than the
	// parser produces would make the library reject its own sentences
	for _, lang := range []string{"english", "japanese"} {
		bip39.SetWordList(lang)
		core.Par(2048, func(i int) {
			e := make([]byte, 16)
			for k := range e {
				e[k] = byte(k*29 + i)
			}
			e[0], e[1] = byte(i>>3), byte(i&7)<<5|e[1]&0x1f
			var m, again bip39.Mnemonic
			var seed []byte
			var err, serr error
			p := core.Catch(func() {
				if m, err = bip39.EntropyToMnemonic(e); err == nil {
					again = bip39.ParseMnemonic(m.String())
					seed, serr = bip39.MnemonicToSeed(again, "")
				}
			})
			c.Eval(1)
			nontriv.Add(1)
			cas := map[string]interface{}{"list": lang, "first_word_index": i, "entropy": fmt.Sprintf("%x", e)}
			switch {
			case p != nil || err != nil:
				c.Violate("C09/every-word/error", fmt.Sprintf("%s word %d: %v %v", lang, i, p, err), cas, "", nil)
			case !reflect.DeepEqual([]string(again), []string(m)):
				c.Violate("C09/every-word/print-parse", fmt.Sprintf("%s word %d: parsing the printed sentence gives %q, the sentence was %q", lang, i, again, m), cas, "", nil)
			case serr != nil:
				c.Violate("C09/every-word/seed-error", fmt.Sprintf("%s word %d: the library's own sentence %q, printed and parsed, is refused by MnemonicToSeed: %v", lang, i, m.String(), serr), cas, "", nil)
			default:
				if want, rerr := rb39.Seed(again, ""); rerr == nil && !bytes.Equal(seed, want) {
					c.Violate("C09/every-word/seed-wrong", fmt.Sprintf("%s word %d: seed %x..., reference %x...", lang, i, seed[:8], want[:8]), cas, "", nil)
				}
			}
		})
	}
	// MnemonicToSeed validates against the selected list: run per language
	for _, lang := range []string{"english", "japanese"} {
		bip39.SetWordList(lang)
		var lj []job
		for _, j := range jobs {
			if j.s.lang == lang {
				lj = append(lj, j)
			}
		}
		core.Par(len(lj), func(i int) {
			j := lj[i]
			var seed []byte
			var err error
			p := core.Catch(func() { seed, err = bip39.MnemonicToSeed(j.s.words, j.p) })
			c.Eval(1)
			cas := map[string]interface{}{"list": lang, "words": len(j.s.words), "passphrase": fmt.Sprintf("%+q", j.p)}
			if p != nil || err != nil {
				c.Violate("C09/seed/error", fmt.Sprintf("MnemonicToSeed: %v %v", p, err), cas, "", nil)
				return
			}
			want, rerr := rb39.Seed(j.s.words, j.p)
			if rerr != nil {
				c.Abort("reference: %v", rerr)
				return
			}
			if !bytes.Equal(seed, want) {
				np, _ := rb39.NFKD(j.p)
				cls := "plain"
				if np != j.p {
					cls = "needs-normalisation"
				}
				c.Violate("C09/seed/wrong/"+cls, fmt.Sprintf("%d %s words, passphrase %+q: seed %x..., PBKDF2(NFKD) reference %x...", len(j.s.words), lang, j.p, seed[:8], want[:8]), cas, "", nil)
			}
			if len(seed) != 64 {
				c.Violate("C09/seed/size", fmt.Sprintf("seed length %d", len(seed)), cas, "", nil)
			}
			nontriv.Add(1)
		})
		// invalid mnemonics: error and no seed
		base := lj[0].s.words
		var bad []bip39.Mnemonic
		for pos := 0; pos < len(base); pos++ {
			m := append(bip39.Mnemonic{}, base...)
			m[pos] = base[(pos+1)%len(base)]
			if m[pos] != base[pos] {
				bad = append(bad, m) // almost surely a checksum failure; judged by the reference below
			}
			m2 := append(bip39.Mnemonic{}, base...)
			m2[pos] = "notaword"
			bad = append(bad, m2)
		}
		bad = append(bad, base[:11], append(append(bip39.Mnemonic{}, base...), base[0]), bip39.Mnemonic{}, nil, base[:3])
		for _, m := range bad {
			if _, e := bip39.MnemonicToEntropy(m); e == nil {
				continue // happens to be valid: not part of the reject set
			}
			for _, p := range []string{"", "x"} {
				var seed []byte
				var err error
				pn := core.Catch(func() { seed, err = bip39.MnemonicToSeed(m, p) })
				c.Eval(1)
				if pn != nil || err == nil || seed != nil {
					c.Violate("C09/seed/invalid-mnemonic", fmt.Sprintf("MnemonicToSeed(%q) = %x, %v (panic %v); want error and nil", m.String(), seed, err, pn), m.String(), "", nil)
				}
			}
		}
	}
	// a sentence built by hand (not through the parser) from words that are NOT in the list - the NFC spelling of Japanese
	// words, upper case, padded - is invalid: MnemonicToSeed must refuse it
	for _, lang := range []string{"japanese", "english"} {
		bip39.SetWordList(lang)
		for _, st := range sents {
			if st.lang != lang || len(st.words) != 12 {
				continue
			}
			for pos := 0; pos < 12; pos++ {
				for _, f := range []func(string) string{rb39.ComposeKana, strings.ToUpper, func(w string) string { return w + " " }, func(w string) string { return w + "\u3099" }} {
					m := append(bip39.Mnemonic{}, st.words...)
					m[pos] = f(m[pos])
					if m[pos] == st.words[pos] {
						continue
					}
					seed, err := bip39.MnemonicToSeed(m, "")
					c.Eval(1)
					if err == nil || seed != nil {
						c.Violate("C09/seed/word-not-in-list", fmt.Sprintf("MnemonicToSeed accepted a %s sentence whose word %d is %+q, which is not a word of the list", lang, pos, m[pos]), fmt.Sprintf("%+q", m), "", nil)
					}
				}
			}
		}
	}
	// MnemonicToSeed must refuse every invalid sentence: every position x all 2048 words on valid sentences of 12, 36 and
	// 48 words (long sentences carry more than 11 checksum bits, part of them in the second-to-last word)
	bip39.SetWordList("english")
	if words := c03ReadList(c, "english"); words != nil {
		for _, wc := range []int{12, 36, 48} {
			ent := make([]byte, wc*4/3)
			for i := range ent {
				ent[i] = byte(i*23 + wc)
			}
			base := rb39.Indices(ent)
			var accepted atomic.Int64
			core.Par(wc, func(pos int) {
				idx := append([]int{}, base...)
				m := make(bip39.Mnemonic, wc)
				for w := 0; w < 2048; w++ {
					idx[pos] = w
					for i, v := range idx {
						m[i] = words[v]
					}
					_, _, valid := rb39.FromIndices(idx)
					if valid {
						continue // valid sentences are covered above (PBKDF2 is slow)
					}
					seed, err := bip39.MnemonicToSeed(m, "")
					c.Eval(1)
					if err == nil || seed != nil {
						accepted.Add(1)
						c.Violate(fmt.Sprintf("C09/seed/invalid-mnemonic/%d-words", wc), fmt.Sprintf("MnemonicToSeed accepted a %d-word sentence with a wrong checksum (word %d replaced): %q", wc, pos, m.String()), m.String(), "", nil)
					}
				}
			})
		}
	}
	c.Sample(map[string]interface{}{"sentence": sents[0].words.String(), "passphrase": "e\\u0301 + U+212B"})

	// ---- parser ----
	syms := []string{"a", "b", "あ", "が", "が", " ", "\t", "\n", "　", " ", " ", "\u0085", "​", "ﷺ"}
	maxL := 4
	if th {
		maxL = 5
	}
	judgeParse := func(s string, tag string) {
		c.Eval(1)
		want, err := rb39.Parse(s)
		if err != nil {
			c.Abort("reference parser: %v", err)
			return
		}
		var got bip39.Mnemonic
		if p := core.Catch(func() { got = bip39.ParseMnemonic(s) }); p != nil {
			c.Violate("C09/parse/"+tag+"/panic", fmt.Sprintf("ParseMnemonic(%+q): %v", s, p), s, "", nil)
			return
		}
		if len(got) != len(want) || (len(want) > 0 && !reflect.DeepEqual([]string(got), want)) {
			c.Violate("C09/parse/"+tag+"/wrong", fmt.Sprintf("ParseMnemonic(%+q) = %+q, NFKD + White_Space split gives %+q", s, []string(got), want), fmt.Sprintf("%+q", s), "", nil)
			return
		}
		if len(want) > 0 {
			nontriv.Add(1)
		}
		again := bip39.ParseMnemonic(got.String())
		if len(again) != len(got) || (len(got) > 0 && !reflect.DeepEqual(again, got)) {
			c.Violate("C09/parse/"+tag+"/print-parse", fmt.Sprintf("Parse(String(Parse(%+q))) = %+q != %+q", s, []string(again), []string(got)), fmt.Sprintf("%+q", s), "", nil)
		}
		var u bip39.Mnemonic
		if err := u.UnmarshalText([]byte(s)); err != nil || len(u) != len(got) || (len(got) > 0 && !reflect.DeepEqual(u, got)) {
			c.Violate("C09/parse/"+tag+"/unmarshal", fmt.Sprintf("UnmarshalText(%+q) = %+q, %v", s, []string(u), err), fmt.Sprintf("%+q", s), "", nil)
		}
		if txt, err := got.MarshalText(); err != nil || string(txt) != got.String() {
			c.Violate("C09/parse/"+tag+"/marshal", "MarshalText != String", fmt.Sprintf("%+q", s), "", nil)
		}
	}
	judgeParse("", "strings")
	core.Par(len(syms), func(a int) {
		var rec func(s string, n int)
		rec = func(s string, n int) {
			judgeParse(s, "strings")
			if n == maxL {
				return
			}
			for _, y := range syms {
				rec(s+y, n+1)
			}
		}
		rec(syms[a], 1)
	})
	// white-space insensitivity on a 3-word sentence
	ws := []string{" ", "\t", "\n", "\r", "　", " ", " ", "\u0085"}
	var seps []string
	for _, a := range ws {
		seps = append(seps, a)
		for _, b := range ws {
			seps = append(seps, a+b)
		}
	}
	edge := []string{"", "\t", "　"}
	if th {
		edge = append([]string{""}, ws...)
	}
	w3 := []string{"zoo", "がく", "ab"}
	core.Par(len(seps), func(i int) {
		for _, s2 := range seps {
			for _, l := range edge {
				for _, t := range edge {
					judgeParse(l+w3[0]+seps[i]+w3[1]+s2+w3[2]+t, "whitespace")
				}
			}
		}
	})
	c.Sample(map[string]interface{}{"parser_input": "\\u3000zoo\\u00a0\\u0085か\\u3099く\\tab\\n"})
	c.Sample(map[string]interface{}{"seed_example": hex.EncodeToString([]byte(jaNFC))[:40] + "... (NFC spelling of a Japanese sentence, U+3000 separated)"})
	// receiver re-use (E2): all sequences of length <= 3 (thorough 4) of UnmarshalText over 7 texts on ONE Mnemonic x 3
	// initial receivers; after every call the receiver holds what the reference parser reads in that text
	{
		texts := []string{"", "zoo", " a\tb\n", "abandon ability able about above absent absorb abstract absurd abuse access accident", "\u3000が\u3099く ", "x y z w", "\u00a0"}
		inits := []func() bip39.Mnemonic{func() bip39.Mnemonic { return nil }, func() bip39.Mnemonic { return bip39.Mnemonic{"q", "r", "s"} },
			func() bip39.Mnemonic { return append(make(bip39.Mnemonic, 0, 32), "k") }}
		depth := 3
		if th {
			depth = 4
		}
		var seqs int64
		var rec func(hist []int)
		rec = func(hist []int) {
			if len(hist) > 0 {
				for ii, mk := range inits {
					seqs++
					q := mk()
					var names []string
					for _, ti := range hist {
						names = append(names, texts[ti])
						want, _ := rb39.Parse(texts[ti])
						var err error
						pn := core.Catch(func() { err = q.UnmarshalText([]byte(texts[ti])) })
						if pn != nil || err != nil || len(q) != len(want) || len(want) > 0 && !reflect.DeepEqual([]string(q), want) {
							c.Violate("C09/receiver-reuse", fmt.Sprintf("UnmarshalText(%+q) on a Mnemonic that was used before (initial receiver %d, texts %+q): receiver holds %+q (err %v, panic %v), the text reads %+q", texts[ti], ii, names, []string(q), err, pn, want), map[string]interface{}{"texts": names, "initial_receiver": ii}, "", nil)
							return
						}
					}
				}
			}
			if len(hist) == depth {
				return
			}
			for t := range texts {
				rec(append(append([]int{}, hist...), t))
			}
		}
		rec(nil)
		c.Eval(seqs)
		c.Set("receiver_reuse_sequences", seqs)
	}
	// every word count, several different valid sentences one after the other in one process (a value remembered from the
	// previous sentence of the same size must not matter), then the caller-supplied word lists
	lists := map[string][]string{}
	for _, lang := range []string{"english", "japanese"} {
		if bip39.SetWordList(lang) != nil {
			continue
		}
		lists[lang] = c03ReadList(c, lang)
		if lists[lang] == nil {
			continue
		}
		for round := 0; round < 2; round++ {
			for n := 16; n <= 64; n += 4 {
				for v := 0; v < 3; v++ {
					e := make([]byte, n)
					for i := range e {
						e[i] = byte(i*(7+2*v) + n + 91*v)
					}
					idx := rb39.Indices(e)
					m := make(bip39.Mnemonic, len(idx))
					for i, w := range idx {
						m[i] = lists[lang][w]
					}
					pw := fmt.Sprint("p", v)
					got, err := bip39.MnemonicToSeed(m, pw)
					c.Eval(1)
					nontriv.Add(1)
					if want, rerr := rb39.Seed(m, pw); rerr != nil || err != nil || !bytes.Equal(got, want) {
						c.Violate("C09/seed/every-word-count", fmt.Sprintf("MnemonicToSeed of a valid %d-word %s sentence (%q) after other sentences of the same size: %x, %v; want %x", len(m), lang, m.String(), got, err, want), map[string]interface{}{"list": lang, "sentence": m.String(), "round": round}, "", nil)
					}
				}
			}
		}
	}
	bip39.SetWordList("english")
	bip39PluginPass(c, "C09", lists["english"], lists["japanese"])
	c.NonTrivial(nontriv.Load())
	c.SetExhaustive(true)
	c.Assume = []string{"NFKD oracle: per-code-point decompositions and combining classes from Python's unicodedata (Unicode 14; alphabet restricted to code points assigned before Unicode 13, which is what x/text v0.4.0 ships) + own canonical reordering", "White_Space = the Unicode property list"}
}
