package checks

import (
	"bytes"
	"crypto/sha512"
	"fmt"
	"math/big"
	"sync/atomic"

	"github.com/wollac/iota-crypto-demo/pkg/vrf"

	"verifharness/core"
	"verifharness/ref/ed"
	rvrf "verifharness/ref/vrf"
)

func init() {
	core.Register(core.Check{ID: "C18", Level: "exploration", Run: func(c *core.Ctx) {
		again := vrfFirstUse(c, "C18")
		waitArch := background(func() { arch386Pass(c, "C18") })
		runC18(c)
		historyPass(c, "C18")
		reentrancyPass(c, "C18")
		waitArch()
		again()
	}})
}

type c18case struct {
	pk, alpha, pi []byte
	tag           string
	honestBeta    []byte // beta of the honest proof for (pk, alpha) if known
}

func runC18(c *core.Ctx) {
	th := c.Thorough()
	c.Rule = "Prove: seeds x alphas {empty, every single byte value, ramps of length 1..40 (thorough 130), and for two seeds every length up to 300 (thorough 1200) and around 2^11..2^13} against an RFC 9381 reference over math/big (try-and-increment counter histogram in evidence); Verify/decoding: all 640 single-bit flips of honest proofs, s + j*L for every j that fits, Gamma + T for all 8 torsion points and every small-order / non-canonical encoding as Gamma, all 14 small-order and all non-canonical encodings and torsion-shifted honest keys as public key, lengths 0..82; verdict, beta, and decode-iff-canonical judged by the reference; non-trivial = distinct (key, alpha) proved and compared + distinct proofs the reference accepts"
	var nontriv atomic.Int64
	var seeds [][]byte
	nStruct, nFixed, maxRamp := 8, 4, 40
	if th {
		nStruct, nFixed, maxRamp = 34, 8, 130
	}
	seeds = append(seeds, make([]byte, 32), bytes.Repeat([]byte{0xFF}, 32))
	for i := 2; i < nStruct; i++ {
		s := make([]byte, 32)
		s[i-2] = 1 << uint(i%8)
		seeds = append(seeds, s)
	}
	for i := 0; i < nFixed; i++ {
		h := sha512.Sum512([]byte{byte(i), 0x18})
		seeds = append(seeds, h[:32])
	}
	var alphas [][]byte
	alphas = append(alphas, []byte{})
	for v := 0; v < 256; v++ {
		alphas = append(alphas, []byte{byte(v)})
	}
	for l := 2; l <= maxRamp; l++ {
		a := make([]byte, l)
		for i := range a {
			a[i] = byte(i*11 + l)
		}
		alphas = append(alphas, a)
	}
	// every alpha length up to 300 (thorough 1200) and around powers of two, for the first two seeds only (sweepFrom marks them)
	sweepFrom := len(alphas)
	maxSweep := 300
	if th {
		maxSweep = 1200
	}
	for l := maxRamp + 1; l <= maxSweep; l++ {
		a := make([]byte, l)
		for i := range a {
			a[i] = byte(i*29 + l*3)
		}
		alphas = append(alphas, a)
	}
	for k := 11; k <= 13; k++ {
		for _, d := range []int{-35, -34, -33, -3, -2, -1, 0, 1} {
			a := make([]byte, 1<<uint(k)+d)
			for i := range a {
				a[i] = byte(i + k)
			}
			alphas = append(alphas, a)
		}
	}
	type pj struct{ si, ai int }
	var jobs []pj
	for si := range seeds {
		for ai := range alphas {
			if !th && si >= 2 && ai > 64 && ai <= 256 {
				continue
			}
			if ai >= sweepFrom && si >= 2 {
				continue
			}
			jobs = append(jobs, pj{si, ai})
		}
	}
	ctrHist := make([]atomic.Int64, 8)
	type honest struct {
		seed, pk, alpha, pi, beta []byte
	}
	honests := make([]*honest, len(jobs))
	core.Par(len(jobs), func(i int) {
		seed, alpha := seeds[jobs[i].si], alphas[jobs[i].ai]
		priv := vrf.NewKeyFromSeed(seed)
		pk := []byte(priv[32:])
		var got []byte
		cas := map[string]interface{}{"seed": fmt.Sprintf("%x", seed), "alpha": fmt.Sprintf("%x", alpha)}
		var proof *vrf.Proof
		if p := core.Catch(func() { proof = vrf.Prove(priv, alpha); got = proof.Bytes() }); p != nil {
			c.Violate("C18/prove/panic", fmt.Sprint(p), cas, "", nil)
			return
		}
		c.Eval(1)
		want, ctr := rvrf.Prove(seed, alpha)
		if ctr < len(ctrHist) {
			ctrHist[ctr].Add(1)
		}
		rpk := rvrf.PublicKey(seed)
		if !bytes.Equal(pk, rpk[:]) {
			c.Violate("C18/prove/public-key", fmt.Sprintf("public key %x, reference %x", pk, rpk), cas, "", nil)
			return
		}
		cls := "ctr=0"
		if ctr > 0 {
			cls = "ctr>0"
		}
		if !bytes.Equal(got, want[:]) {
			c.Violate("C18/prove/differs/"+cls, fmt.Sprintf("seed %x alpha %x: proof %x, RFC 9381 reference %x (try-and-increment counter %d)", seed, alpha, got, want, ctr), cas, "", nil)
			return
		}
		nontriv.Add(1)
		rbeta, ok := rvrf.Verify(pk, alpha, want[:])
		if !ok {
			c.Abort("reference rejects its own proof for %v", cas)
			return
		}
		var vok bool
		var beta []byte
		if p := core.Catch(func() { vok, beta = vrf.Verify(pk, alpha, got) }); p != nil {
			c.Violate("C18/verify/panic", fmt.Sprint(p), cas, "", nil)
			return
		}
		if !vok || !bytes.Equal(beta, rbeta[:]) {
			c.Violate("C18/verify/rejects-honest/"+cls, fmt.Sprintf("Verify = %v, beta %x; reference beta %x", vok, beta, rbeta), cas, "", nil)
		}
		h1, err := vrf.ProofToHash(got)
		if err != nil || !bytes.Equal(h1, rbeta[:]) || !bytes.Equal(proof.Hash(), rbeta[:]) {
			c.Violate("C18/hash/differs", fmt.Sprintf("ProofToHash %x (%v), Proof.Hash %x, reference %x", h1, err, proof.Hash(), rbeta), cas, "", nil)
		}
		if mb, _ := proof.MarshalBinary(); !bytes.Equal(mb, got) {
			c.Violate("C18/codec/marshal", "MarshalBinary != Bytes", cas, "", nil)
		}
		honests[i] = &honest{seed, pk, alpha, append([]byte{}, got...), rbeta[:]}
	})
	hist := map[string]int64{}
	for i := range ctrHist {
		if v := ctrHist[i].Load(); v > 0 {
			hist[fmt.Sprint(i)] = v
		}
	}
	c.Set("try_and_increment_counter_histogram", hist)
	{ // nil versus empty alpha
		k := vrf.NewKeyFromSeed(seeds[1])
		a, b := vrf.Prove(k, nil).Bytes(), vrf.Prove(k, []byte{}).Bytes()
		w, _ := rvrf.Prove(seeds[1], nil)
		c.Eval(2)
		if !bytes.Equal(a, b) || !bytes.Equal(a, w[:]) {
			c.Violate("C18/environment/nil-alpha", "Prove(nil) and Prove(empty) differ or differ from the reference", nil, "", nil)
		}
		if ok, _ := vrf.Verify(vrf.PublicKey(k[32:]), nil, a); !ok {
			c.Violate("C18/environment/nil-alpha", "Verify with nil alpha rejects", nil, "", nil)
		}
	}
	c.Sample(map[string]interface{}{"prove": "seed 00..00, alpha = single byte 0x2a"})

	// ---- Verify / decoding on corrupted inputs ----
	var hs []*honest
	for _, h := range honests {
		if h != nil {
			hs = append(hs, h)
		}
	}
	if len(hs) == 0 {
		c.SetExhaustive(false)
		return
	}
	pick := func(k int) *honest { return hs[(k*97+5)%len(hs)] }
	var cases []c18case
	add := func(h *honest, pk, pi []byte, tag string) {
		cases = append(cases, c18case{append([]byte{}, pk...), h.alpha, append([]byte{}, pi...), tag, h.beta})
	}
	nFlip := 3
	if th {
		nFlip = 6
	}
	tors := ed.Torsion()
	small := ed.SmallOrderEncodings()
	two256 := new(big.Int).Lsh(big.NewInt(1), 256)
	for k := 0; k < nFlip; k++ {
		h := pick(k)
		for bit := 0; bit < 640; bit++ {
			pi := append([]byte{}, h.pi...)
			pi[bit/8] ^= 1 << uint(bit%8)
			add(h, h.pk, pi, "bitflip")
		}
		for bit := 0; bit < 256; bit++ {
			pk := append([]byte{}, h.pk...)
			pk[bit/8] ^= 1 << uint(bit%8)
			add(h, pk, h.pi, "key-bitflip")
		}
		s := ed.ScalarFromBytesLE(h.pi[48:])
		for j := int64(1); ; j++ {
			v := new(big.Int).Add(s, new(big.Int).Mul(big.NewInt(j), ed.L))
			if v.Cmp(two256) >= 0 {
				break
			}
			b := ed.ScalarToBytesLE32(v)
			add(h, h.pk, append(append([]byte{}, h.pi[:48]...), b[:]...), "s+jL")
		}
		gamma, _, _, ok := rvrf.DecodeProof(h.pi)
		if !ok {
			c.Abort("reference cannot decode an honest proof")
			return
		}
		for t := 0; t < 8; t++ {
			for _, genc := range ed.AllEncodings(gamma.Add(tors[t])) {
				add(h, h.pk, append(append([]byte{}, genc[:]...), h.pi[32:]...), "gamma+torsion")
			}
		}
		for _, e := range small {
			add(h, h.pk, append(append([]byte{}, e[:]...), h.pi[32:]...), "gamma-small-order")
			add(h, e[:], h.pi, "key-small-order")
		}
		// non-canonical encodings of low-y points as Gamma and as key
		for y := int64(0); y < 19; y++ {
			var enc [32]byte
			enc[0] = byte(y)
			if p, ok := ed.DecodePermissive(enc[:]); ok {
				for _, q := range []ed.Point{p, p.Neg()} {
					for _, e := range ed.AllEncodings(q) {
						add(h, h.pk, append(append([]byte{}, e[:]...), h.pi[32:]...), "gamma-low-y")
						add(h, e[:], h.pi, "key-low-y")
					}
				}
			}
		}
		// encodings whose bytes LOOK like the field prime p = ed ff .. ff 7f in the places a byte-wise canonical test
		// examines (lowest byte around 0xed, the two highest bytes ff 7f / ff ff / fe 7f) while the bytes in between make
		// them canonical: the middle is searched for the first values that give a curve point. As Gamma and as key.
		if k == 0 {
			for _, b0 := range []byte{0xec, 0xed, 0xee, 0xff} {
				for _, b30 := range []byte{0xfe, 0xff} {
					for _, b31 := range []byte{0x7e, 0x7f, 0xfe, 0xff} {
						for _, mid := range []byte{0x00, 0xff} {
							var enc [32]byte
							for i := 1; i < 30; i++ {
								enc[i] = mid
							}
							enc[0], enc[30], enc[31] = b0, b30, b31
							found := false
							for v := 0; v < 256 && !found; v++ {
								enc[15] = byte(v)
								if p, ok := ed.DecodePermissive(enc[:]); ok && !p.IsSmallOrder() {
									found = true
								}
							}
							if !found {
								continue
							}
							add(h, h.pk, append(append([]byte{}, enc[:]...), h.pi[32:]...), "gamma-looks-like-p")
							add(h, enc[:], h.pi, "key-looks-like-p")
						}
					}
				}
			}
		}
		// honest key + torsion: a valid encoding of a mixed-order point; judged by the reference
		Y, _ := ed.DecodeCanonical(h.pk)
		for t := 1; t < 8; t++ {
			for _, e := range ed.AllEncodings(Y.Add(tors[t])) {
				add(h, e[:], h.pi, "key+torsion")
			}
		}
		// c field: all 16 single-byte changes to 0x00/0xFF
		for i := 32; i < 48; i++ {
			for _, v := range []byte{0x00, 0xFF} {
				pi := append([]byte{}, h.pi...)
				pi[i] = v
				add(h, h.pk, pi, "c-byte")
			}
		}
		// lengths
		for l := 0; l <= 82; l++ {
			pi := make([]byte, l)
			copy(pi, h.pi)
			add(h, h.pk, pi, "length")
		}
		// wrong alpha / wrong key
		other := pick(k + 1)
		cases = append(cases, c18case{h.pk, append(append([]byte{}, h.alpha...), 0), h.pi, "other-alpha", nil})
		if !bytes.Equal(other.pk, h.pk) {
			cases = append(cases, c18case{other.pk, h.alpha, h.pi, "other-key", nil})
		}
	}
	// forged proofs that satisfy the verification equations under a small-order key (Gamma = identity, c*Y depends
	// only on c mod 8): only the key validation step rejects them.
	forged := 0
	for _, yenc := range small {
		Y, ok := ed.DecodeCanonical(yenc[:])
		if !ok {
			continue
		}
		alpha := []byte("forged")
		H, _ := rvrf.EncodeToCurveTAI(yenc[:], alpha)
		henc := H.Encode()
		ienc := ed.Identity().Encode()
	search:
		for sv := int64(1); sv < 200; sv++ {
			sB := ed.Base().ScalarMult(big.NewInt(sv))
			venc := H.ScalarMult(big.NewInt(sv)).Encode()
			for rho := int64(0); rho < 8; rho++ {
				uenc := sB.Sub(Y.ScalarMult(big.NewInt(rho))).Encode()
				hh := sha512.New()
				hh.Write([]byte{0x03, 0x02})
				hh.Write(yenc[:])
				hh.Write(henc[:])
				hh.Write(ienc[:])
				hh.Write(uenc[:])
				hh.Write(venc[:])
				hh.Write([]byte{0x00})
				cb := hh.Sum(nil)[:16]
				if int64(cb[0]&7) != rho {
					continue
				}
				sb := ed.ScalarToBytesLE32(big.NewInt(sv))
				pi := append(append(append([]byte{}, ienc[:]...), cb...), sb[:]...)
				cases = append(cases, c18case{append([]byte{}, yenc[:]...), alpha, pi, "forged-small-order-key", nil})
				forged++
				break search
			}
		}
	}
	c.Set("forged_small_order_key_proofs", int64(forged))
	c.Set("verify_cases", int64(len(cases)))
	var accepted atomic.Int64
	core.Par(len(cases), func(i int) {
		t := cases[i]
		c.Eval(1)
		cas := map[string]interface{}{"kind": t.tag, "pk": fmt.Sprintf("%x", t.pk), "alpha": fmt.Sprintf("%x", t.alpha), "pi": fmt.Sprintf("%x", t.pi)}
		// decoding: succeeds iff the input is the canonical 80-byte encoding (re-encodes to itself)
		_, _, _, wdec := rvrf.DecodeProof(t.pi)
		var pr *vrf.Proof
		var derr error
		if p := core.Catch(func() { pr, derr = new(vrf.Proof).SetBytes(t.pi) }); p != nil {
			c.Violate("C18/"+t.tag+"/decode-panic", fmt.Sprint(p), cas, "", nil)
			return
		}
		if (derr == nil) != wdec {
			c.Violate("C18/"+t.tag+"/decode-verdict", fmt.Sprintf("SetBytes error=%v, reference decodes=%v", derr, wdec), cas, "", nil)
		} else if derr == nil && !bytes.Equal(pr.Bytes(), t.pi) {
			c.Violate("C18/"+t.tag+"/decode-not-canonical", fmt.Sprintf("decoded proof re-encodes to %x", pr.Bytes()), cas, "", nil)
		}
		var u vrf.Proof
		if e2 := u.UnmarshalBinary(t.pi); (e2 == nil) != (derr == nil) {
			c.Violate("C18/"+t.tag+"/unmarshal-differs", "UnmarshalBinary and SetBytes disagree", cas, "", nil)
		}
		if h, e3 := vrf.ProofToHash(t.pi); (e3 == nil) != wdec {
			c.Violate("C18/"+t.tag+"/prooftohash-verdict", fmt.Sprintf("ProofToHash error=%v, reference decodes=%v", e3, wdec), cas, "", nil)
		} else if e3 == nil {
			if rb, _ := rvrf.ProofToHash(t.pi); !bytes.Equal(h, rb[:]) {
				c.Violate("C18/"+t.tag+"/prooftohash", "hash differs from the reference", cas, "", nil)
			}
		}
		if len(t.pk) != 32 {
			return
		}
		wbeta, wok := rvrf.Verify(t.pk, t.alpha, t.pi)
		var ok bool
		var beta []byte
		if p := core.Catch(func() { ok, beta = vrf.Verify(t.pk, t.alpha, t.pi) }); p != nil {
			c.Violate("C18/"+t.tag+"/verify-panic", fmt.Sprint(p), cas, "", nil)
			return
		}
		if ok != wok {
			cls := "accepts-invalid"
			if wok {
				cls = "rejects-valid"
			}
			c.Violate("C18/"+t.tag+"/"+cls, fmt.Sprintf("Verify = %v, RFC 9381 reference = %v", ok, wok), cas, "", nil)
			return
		}
		if ok {
			accepted.Add(1)
			if !bytes.Equal(beta, wbeta[:]) {
				c.Violate("C18/"+t.tag+"/beta", "beta differs from the reference", cas, "", nil)
			}
			if t.honestBeta != nil && bytes.Equal(t.pk, cases[i].pk) && t.tag != "key+torsion" && t.tag != "key-bitflip" && !bytes.Equal(beta, t.honestBeta) {
				c.Violate("C18/"+t.tag+"/not-unique", "a second accepted proof for the same key and alpha yields a different hash", cas, "", nil)
			}
		} else if beta != nil {
			c.Violate("C18/"+t.tag+"/beta-on-reject", "hash returned together with a rejection", cas, "", nil)
		}
	})
	// public keys of another length than 32 bytes (the code documents a panic; a panic or a rejection are both fine, an
	// acceptance is not): too short, and a valid key followed by junk together with the proof its holder would compute for a
	// verifier that hashes the whole string
	for si := 0; si < 4; si++ {
		seed := bytes.Repeat([]byte{byte(0x31 + si)}, 32)
		pk := rvrf.PublicKey(seed)
		for _, alpha := range [][]byte{nil, []byte("wrong length key")} {
			honest, _ := rvrf.Prove(seed, alpha)
			keys := [][]byte{nil, {}, pk[:1], pk[:31]}
			proofs := [][]byte{honest[:], honest[:], honest[:], honest[:]}
			for _, junk := range [][]byte{{0}, {0xFF}, pk[:], bytes.Repeat([]byte{7}, 32)} {
				long := append(append([]byte{}, pk[:]...), junk...)
				pi, _ := rvrf.ProveWithSalt(seed, long, alpha)
				keys = append(keys, long, long)
				proofs = append(proofs, pi[:], honest[:])
			}
			for i := range keys {
				var ok bool
				core.Catch(func() { ok, _ = vrf.Verify(vrf.PublicKey(keys[i]), alpha, proofs[i]) })
				c.Eval(1)
				if ok {
					c.Violate("C18/wrong-length-key/accepted", fmt.Sprintf("Verify accepted a %d-byte public key %x (alpha %q, proof %x)", len(keys[i]), keys[i], alpha, proofs[i]), map[string]interface{}{"key": fmt.Sprintf("%x", keys[i]), "alpha": string(alpha), "proof": fmt.Sprintf("%x", proofs[i])}, "", nil)
				}
			}
		}
	}
	c.Set("accepted_corrupted_or_variant_proofs", accepted.Load())
	nontriv.Add(accepted.Load())
	c.Sample(map[string]interface{}{"verify": "Gamma + T4 (order-2 torsion), c and s unchanged", "expect": "judged by the reference (rejected)"})
	c.NonTrivial(nontriv.Load())
	c.SetExhaustive(true)
	c.Assume = []string{"ref/vrf (RFC 9381 over ref/ed) validated on the RFC's three TAI vectors", "Verify with a key of wrong length panics by documented contract and is outside the space", "\"all 80-byte strings\" is covered structurally (bit flips, encodings, scalar ranges)"}
}
