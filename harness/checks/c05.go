package checks

import (
	"bytes"
	"fmt"
	"runtime"
	"strings"

	"github.com/wollac/iota-crypto-demo/pkg/bech32"

	"verifharness/core"
	rb "verifharness/ref/bech32"
)

func init() {
	core.Register(core.Check{ID: "C05", Level: "exploration", Run: func(c *core.Ctx) {
		waitArch := background(func() { arch386Pass(c, "C05") })
		runC05(c)
		historyPass(c, "C05")
		reentrancyPass(c, "C05")
		waitArch()
	}})
}

type c05case struct {
	Hrp  string `json:"hrp"`
	Data []byte `json:"data"`
}

func c05Judge(c *core.Ctx, hrp string, data []byte, tag string) bool {
	want, wok := rb.Encode(hrp, data)
	var got string
	var err error
	in := append([]byte{}, data...)
	p := core.Catch(func() { got, err = bech32.Encode(hrp, in) })
	c.Eval(1)
	cas := c05case{hrp, data}
	gotest := fmt.Sprintf("func TestC05(t *testing.T) { s, err := bech32.Encode(%q, %#v); t.Logf(\"%%q %%v\", s, err) /* BIP-173 reference: ok=%v %q */ }", hrp, data, wok, want)
	if p != nil {
		c.Violate("C05/"+tag+"/panic", fmt.Sprintf("Encode(%q, %x) panicked: %v", hrp, data, p), cas, gotest, nil)
		return false
	}
	if !bytes.Equal(in, data) {
		c.Violate("C05/"+tag+"/input-modified", "Encode modified src", cas, gotest, nil)
	}
	if !wok {
		if err == nil {
			c.Violate("C05/"+tag+"/accept-invalid", fmt.Sprintf("Encode(%q, %d bytes) = %q, must be an error", hrp, len(data), got), cas, gotest, nil)
		} else if got != "" {
			c.Violate("C05/"+tag+"/string-with-error", fmt.Sprintf("Encode(%q, %d bytes) returned %q together with error %v", hrp, len(data), got, err), cas, gotest, nil)
		}
		return false
	}
	if err != nil {
		c.Violate("C05/"+tag+"/reject-valid", fmt.Sprintf("Encode(%q, %d bytes) = error %v, BIP-173 string is %q", hrp, len(data), err, want), cas, gotest, nil)
		return false
	}
	if got != want {
		c.Violate("C05/"+tag+"/wrong-string", fmt.Sprintf("Encode(%q, %x) = %q, BIP-173 reference %q", hrp, data, got, want), cas, gotest, nil)
		return true
	}
	var h2 string
	var d2 []byte
	var e2 error
	if p := core.Catch(func() { h2, d2, e2 = bech32.Decode(got) }); p != nil {
		c.Violate("C05/"+tag+"/decode-panic", fmt.Sprintf("Decode(%q) panicked: %v", got, p), cas, gotest, nil)
	} else if e2 != nil || h2 != rb.Lower(hrp) || !bytes.Equal(d2, data) {
		c.Violate("C05/"+tag+"/decode-not-inverse", fmt.Sprintf("Decode(Encode(%q,%x)) = %q,%x,%v", hrp, data, h2, d2, e2), cas, gotest, nil)
	}
	return true
}

func runC05(c *core.Ctx) {
	c.Rule = "all 84x52 combinations of hrp length 0..83 and data length 0..51 x 5 hrp fillings x 3 data fillings (+ one-hot 0x80 at every position for length<=8); every single byte 0..255 and selected runes as one-character hrp and as last hrp character; all 2^3 case placements of a 3-letter hrp; non-trivial = distinct (hrp,data) the reference encodes successfully"
	var nontriv int64
	cyc := func(n int, lower bool, off int) string {
		b := make([]byte, n)
		for i := range b {
			ch := byte(33 + (i*7+off)%94)
			if lower && ch >= 'A' && ch <= 'Z' {
				ch += 32
			}
			if !lower && ch >= 'a' && ch <= 'z' {
				ch -= 32
			}
			b[i] = ch
		}
		return string(b)
	}
	punct := "0123456789!\"#$%&'()*+,-./:;<=>?@[\\]^_`{|}~"
	rows := make([]int64, 84)
	core.Par(84, func(hl int) {
		hrps := []string{strings.Repeat("a", hl), strings.Repeat("A", hl), cyc(hl, true, 0), cyc(hl, false, 3), strings.Repeat(punct, 3)[:hl]}
		if hl >= 2 {
			hrps = append(hrps, strings.Repeat("1", hl), "1"+strings.Repeat("q", hl-1), strings.Repeat("q", hl-1)+"1")
		}
		for dl := 0; dl <= 51; dl++ {
			ramp := make([]byte, dl)
			for i := range ramp {
				ramp[i] = byte(i*29 + dl)
			}
			datas := [][]byte{bytes.Repeat([]byte{0}, dl), bytes.Repeat([]byte{0xFF}, dl), ramp}
			if dl <= 8 {
				for pos := 0; pos < dl; pos++ {
					for _, v := range []byte{0x80, 0x01, 0x10} {
						d := make([]byte, dl)
						d[pos] = v
						datas = append(datas, d)
					}
				}
			}
			seen := map[string]bool{}
			for _, h := range hrps {
				for _, d := range datas {
					k := h + "\x00" + string(d)
					if seen[k] {
						continue
					}
					seen[k] = true
					if c05Judge(c, h, d, "product") {
						rows[hl]++
					}
				}
			}
		}
	})
	for _, r := range rows {
		nontriv += r
	}
	c.Sample(c05case{"A", []byte{}})
	c.Sample(c05case{strings.Repeat("x", 83), []byte{}})
	// every single byte and some runes as hrp character
	specials := []string{"é", "K", "İ", "ı", "ſ", "�", "\xc3\x28", "\xff", "ß"}
	for b := 0; b < 256; b++ {
		specials = append(specials, string([]byte{byte(b)}))
	}
	// all code points of the BMP (quick: every third above U+0800) and the supplementary planes in steps of 251
	for r := rune(0x80); r <= 0x10FFFF; r++ {
		if r >= 0xD800 && r <= 0xDFFF {
			continue
		}
		specials = append(specials, string(r))
		if r >= 0x10000 {
			r += 250
		} else if !c.Thorough() && r >= 0x800 {
			r += 2
		}
	}
	for _, sp := range specials {
		for _, h := range []string{sp, "ab" + sp, sp + "ab", "AB" + sp, "a" + sp + "b"} {
			for _, d := range [][]byte{{}, {0x00}, {0xde, 0xad, 0xbe, 0xef}} {
				if c05Judge(c, h, d, "hrpchar") {
					nontriv++
				}
			}
		}
	}
	// intermediate values of the checksum computation steered to special values. Appending six symbols XORs their 30 bits
	// into the running polymod, so the last six data symbols (with 8m symbols = 5m whole bytes of data) or the last six
	// characters of the prefix can be chosen such that the state after the data / after the expanded prefix is exactly
	// 0, 1, 2, all ones, a single bit, the Bech32m constant ... (an incremental implementation that treats one of them as
	// "nothing absorbed yet", "done" or "invalid" shows here and nowhere else).
	{
		targets := []uint32{0, 1, 2, 3, 0x3fffffff, 1 << 29, 1 << 25, 1 << 5, 0x2bc830a3, 0x3b6a57b2}
		sixOf := func(v uint32) []byte {
			o := make([]byte, 6)
			for i := 0; i < 6; i++ {
				o[i] = byte(v >> uint(5*(5-i)) & 31)
			}
			return o
		}
		steered := 0
		for _, h := range []string{"a", "iota", "smr", "tb", strings.Repeat("x", 20)} {
			for _, m := range []int{1, 2, 3, 5} {
				for _, tgt := range targets {
					// state after the data = tgt
					sym := make([]byte, 8*m)
					for i := range sym[:8*m-6] {
						sym[i] = byte((i*7 + m*3 + len(h)) % 32)
					}
					base := rb.Polymod(append(append(rb.HrpExpand(h), sym[:8*m-6]...), 0, 0, 0, 0, 0, 0))
					copy(sym[8*m-6:], sixOf(base^tgt))
					if rb.Polymod(append(rb.HrpExpand(h), sym...)) != tgt {
						c.Abort("cannot steer the polymod to %#x", tgt)
						return
					}
					data, ok := rb.ConvertBits(sym, 5, 8, false)
					if !ok || len(data) != 5*m {
						continue
					}
					steered++
					if c05Judge(c, h, data, "steered-state-after-data") {
						nontriv++
					}
					if c05Judge(c, strings.ToUpper(h), data, "steered-state-after-data") {
						nontriv++
					}
				}
			}
		}
		// state after the expanded prefix = tgt: the last six prefix characters carry the low 5 bits; their high bits are
		// fixed (3: characters ` a..z { | } ~ minus upper case) so that only the low parts have to be solved for
		for _, stem := range []string{"", "a", "net", "tiotaprefix"} {
			for _, tgt := range targets {
				tail := []byte("``````")
				full := stem + string(tail)
				exp := rb.HrpExpand(full)
				cur := rb.Polymod(exp)
				low := sixOf(cur ^ tgt) // XOR into the six last low parts, which are the last six expanded values
				okc := true
				for i := 0; i < 6; i++ {
					ch := byte(0x60 | (tail[i]&31 ^ low[i]))
					if ch < 33 || ch > 126 || (ch >= 'A' && ch <= 'Z') {
						okc = false
					}
					tail[i] = ch
				}
				full = stem + string(tail)
				if !okc || rb.Polymod(rb.HrpExpand(full)) != tgt {
					continue
				}
				for _, d := range [][]byte{{}, {0}, {0xde, 0xad, 0xbe, 0xef, 0x01}} {
					steered++
					if c05Judge(c, full, d, "steered-state-after-prefix") {
						nontriv++
					}
				}
			}
		}
		c.Set("steered_intermediate_states", int64(steered))
	}

	// a rejected call, then a call: whatever a failed Decode or Encode leaves behind (scratch buffers handed back dirty) must
	// not show in the next result. One OS thread, so that per-P pools hand back what was just put. Invalid character at
	// every data index x following Encode of every data length 0..24.
	{
		done := make(chan struct{})
		go func() {
			defer close(done)
			runtime.LockOSThread()
			defer runtime.UnlockOSThread()
			good := rb.EncodeSymbols("test", make([]byte, 40))
			for i := 5; i < len(good); i++ {
				for _, badc := range []byte{'b', 'B', 0x80} {
					bad := good[:i] + string([]byte{badc}) + good[i+1:]
					for l := 0; l <= 24; l += 1 + l/8 {
						data := make([]byte, l)
						for k := range data {
							data[k] = byte(k*3 + l)
						}
						core.Catch(func() { bech32.Decode(bad) })
						core.Catch(func() { bech32.Encode("Te", []byte{1}) }) // rejected Encode (mixed case)
						core.Catch(func() { bech32.Decode(bad) })
						c05Judge(c, "test", data, "after-rejected-call")
					}
				}
			}
		}()
		<-done
	}

	// mixed case placements
	for m := 0; m < 8; m++ {
		h := []byte("abc")
		for i := 0; i < 3; i++ {
			if m>>uint(i)&1 == 1 {
				h[i] -= 32
			}
		}
		for _, d := range [][]byte{{}, {1, 2, 3}} {
			if c05Judge(c, string(h), d, "case") {
				nontriv++
			}
		}
		// digits in between do not count as a case
		if c05Judge(c, string(h[:1])+"1"+string(h[1:]), []byte{7}, "case") {
			nontriv++
		}
	}
	// all byte values as data at three lengths (every 8->5 regrouping residue sees every value)
	for dl := 1; dl <= 5; dl++ {
		for pos := 0; pos < dl; pos++ {
			for v := 0; v < 256; v++ {
				d := make([]byte, dl)
				d[pos] = byte(v)
				if c05Judge(c, "iota", d, "databyte") {
					nontriv++
				}
			}
		}
	}
	c.NonTrivial(nontriv)
	c.SetExhaustive(true)
	if s := rb.SelfTest(); s != "" {
		c.Abort("reference self test failed: %s", s)
	}
	c.Assume = []string{"reference = transcription of BIP-173 segwit_addr.py, validated against the BIP-173 vector lists at start-up"}
}
