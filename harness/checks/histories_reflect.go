package checks

import (
	"crypto"
	"encoding"
	"fmt"
	"math/big"
	"reflect"
	"sort"
	"strings"

	"github.com/iotaledger/iota.go/trinary"
	"github.com/wollac/iota-crypto-demo/pkg/bech32/address"
	"github.com/wollac/iota-crypto-demo/pkg/bip32path"
	"github.com/wollac/iota-crypto-demo/pkg/bip39"
	"github.com/wollac/iota-crypto-demo/pkg/curl"
	"github.com/wollac/iota-crypto-demo/pkg/ed25519"
	"github.com/wollac/iota-crypto-demo/pkg/merkle"
	"github.com/wollac/iota-crypto-demo/pkg/slip10"
	"github.com/wollac/iota-crypto-demo/pkg/slip10/btccurve"
	"github.com/wollac/iota-crypto-demo/pkg/slip10/eddsa"
	slipelliptic "github.com/wollac/iota-crypto-demo/pkg/slip10/elliptic"
	"github.com/wollac/iota-crypto-demo/pkg/vrf"

	"verifharness/core"
)

// methodSweepOp is one polluting operation of the history pass: every exported method of the given values' types is
// called once (through reflection, so methods added later are included) with arguments drawn from a pool of values of
// the kinds the property's API deals in. Results are ignored, panics are swallowed: the operation only has to leave
// every other call's result what the specification says. What a caller can legally do between two calls is not limited
// to the functions a property names.
//
// mk returns fresh receivers and the argument pool for one execution (nothing is shared with other operations).
func methodSweepOp(name string, mk func() (receivers []interface{}, pool []interface{})) hOp {
	return hOp{name: name, want: "*", run: func(a *arena) string {
		recv, pool := mk()
		var called []string
		// zero values of the same types as further receivers (round 6): an object that was never initialised - a Proof whose
		// decoding failed, a key struct that was only declared - is something a caller can hold; methods called on it usually
		// panic half way through (swallowed here), and what they leave behind must not matter to anybody else
		seenType := map[reflect.Type]bool{}
		for _, r := range append([]interface{}{}, recv...) {
			rt := reflect.TypeOf(r)
			if rt == nil || seenType[rt] {
				continue
			}
			seenType[rt] = true
			switch rt.Kind() {
			case reflect.Ptr:
				if rt.Elem().Kind() == reflect.Struct {
					recv = append(recv, reflect.New(rt.Elem()).Interface())
				}
			case reflect.Struct, reflect.Slice, reflect.Array, reflect.String, reflect.Map:
				recv = append(recv, reflect.Zero(rt).Interface())
			}
		}
		for _, r := range recv {
			rv := reflect.ValueOf(r)
			rt := rv.Type()
			for i := 0; i < rt.NumMethod(); i++ {
				m := rt.Method(i)
				mt := m.Type // includes the receiver as first parameter
				args := []reflect.Value{rv}
				ok := true
				for p := 1; p < mt.NumIn() && ok; p++ {
					pt := mt.In(p)
					variadic := mt.IsVariadic() && p == mt.NumIn()-1
					if variadic {
						pt = pt.Elem()
					}
					found := false
					for _, v := range append([]interface{}{r}, pool...) {
						vv := reflect.ValueOf(v)
						if vv.IsValid() && vv.Type().AssignableTo(pt) {
							args = append(args, vv)
							found = true
							break
						}
					}
					if !found {
						if variadic {
							continue // no element: legal
						}
						if pt.Kind() == reflect.Interface || pt.Kind() == reflect.Ptr || pt.Kind() == reflect.Slice || pt.Kind() == reflect.Map {
							args = append(args, reflect.Zero(pt)) // nil
							found = true
						}
					}
					ok = found
				}
				if !ok {
					continue
				}
				core.Catch(func() { m.Func.Call(args) })
				called = append(called, rt.String()+"."+m.Name)
			}
		}
		sort.Strings(called)
		return fmt.Sprintf("%d methods: %s", len(called), strings.Join(called, ","))
	}}
}

// historySweeps: per property, the receivers and the argument pool of its method sweep (appended to the property's
// operation alphabet by historyPass). PoW workers are left out on purpose: Mine starts goroutines, and a panic in one
// of them cannot be contained.
var historySweeps = map[string]func(salt int) hOp{}

func init() {
	vrfSweep := func(salt int) hOp {
		return methodSweepOp("every exported method of the vrf key and proof types", func() ([]interface{}, []interface{}) {
			sk := vrf.PrivateKey(vrf.NewKeyFromSeed(saltBytes(salt, 0x44, 32)))
			sk2 := vrf.PrivateKey(vrf.NewKeyFromSeed(saltBytes(salt, 0x99, 32)))
			alpha := []byte("sweep")
			pr := vrf.Prove(sk, alpha)
			pr2 := vrf.Prove(sk2, alpha)
			return []interface{}{pr, sk, vrf.PublicKey(sk[32:])}, []interface{}{pr2, sk2, vrf.PublicKey(sk2[32:]), append([]byte{}, pr2.Bytes()...), alpha}
		})
	}
	historySweeps["C18"] = vrfSweep
	slipSweep := func(salt int) hOp {
		return methodSweepOp("every exported method of the extended key and key types", func() ([]interface{}, []interface{}) {
			var recv, pool []interface{}
			for _, cv := range []slip10.Curve{slipelliptic.Secp256k1(), slipelliptic.Nist256p1(), eddsa.Ed25519()} {
				m, err := slip10.NewMasterKey(saltBytes(salt, 0x21, 16), cv)
				m2, err2 := slip10.NewMasterKey(saltBytes(salt, 0x22, 16), cv)
				if err != nil || err2 != nil {
					continue
				}
				recv = append(recv, m, m.Key, m.Key.Public(), m.Public())
				pool = append(pool, m2, m2.Key, m2.Key.Public(), m2.Public())
			}
			pool = append(pool, saltBytes(salt, 0x23, 32), uint32(1<<31+5), uint32(5), []uint32{1 << 31, 7})
			return recv, pool
		})
	}
	historySweeps["C02"], historySweeps["C08"] = slipSweep, slipSweep
	bipSweep := func(salt int) hOp {
		return methodSweepOp("every exported method of Mnemonic", func() ([]interface{}, []interface{}) {
			m, _ := bip39.EntropyToMnemonic(saltBytes(salt, 0x51, 16))
			m2, _ := bip39.EntropyToMnemonic(saltBytes(salt, 0x52, 32))
			return []interface{}{m, &m}, []interface{}{m2, []byte(m2.String()), m2.String()}
		})
	}
	historySweeps["C03"], historySweeps["C09"] = bipSweep, bipSweep
	historySweeps["C10"] = func(salt int) hOp {
		return methodSweepOp("every exported method of Path", func() ([]interface{}, []interface{}) {
			p := bip32path.Path{44 | 1<<31, uint32(salt), 7}
			q := bip32path.Path{1, 2}
			return []interface{}{p, &p}, []interface{}{q, []byte("m/9'/8"), "m/1"}
		})
	}
	addrSweep := func(salt int) hOp {
		return methodSweepOp("every exported method of the address types", func() ([]interface{}, []interface{}) {
			var oid [address.OutputIDLength]byte
			copy(oid[:], saltBytes(salt, 0x61, len(oid)))
			pub := ed25519.NewKeyFromSeed(saltBytes(salt, 0x62, 32)).Public().(ed25519.PublicKey)
			return []interface{}{address.AddressFromPublicKey(pub), address.AliasAddressFromOutputID(oid), address.NFTAddressFromOutputID(oid), address.IOTAMainnet, address.Version(0)},
				[]interface{}{"iota", address.ShimmerDevnet}
		})
	}
	historySweeps["C19"], historySweeps["C04"], historySweeps["C05"], historySweeps["C16"] = addrSweep, addrSweep, addrSweep, addrSweep
	historySweeps["C15"] = func(salt int) hOp {
		return methodSweepOp("every exported method of Hasher", func() ([]interface{}, []interface{}) {
			return []interface{}{merkle.NewHasher(crypto.SHA256), merkle.NewHasher(crypto.BLAKE2b_256)}, []interface{}{[]encoding.BinaryMarshaler{}}
		})
	}
	historySweeps["C17"] = func(salt int) hOp {
		return methodSweepOp("every exported method of the curve", func() ([]interface{}, []interface{}) {
			cv := btccurve.Secp256k1()
			p := cv.Params()
			return []interface{}{cv}, []interface{}{new(big.Int).Set(p.Gx), new(big.Int).Set(p.Gy), []byte{byte(salt), 7, 9}}
		})
	}
	curlSweep := func(salt int) hOp {
		return methodSweepOp("every exported method of Curl", func() ([]interface{}, []interface{}) {
			h := curl.NewCurlP81()
			src := []trinary.Trits{make(trinary.Trits, 243)}
			src[0][salt%243] = 1
			return []interface{}{h}, []interface{}{src, 243, make([]uint, 729)}
		})
	}
	historySweeps["C06"], historySweeps["C20"] = curlSweep, curlSweep
}
