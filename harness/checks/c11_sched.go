//go:build sched

package checks

import (
	"context"
	"fmt"
	"math"
	"sync/atomic"
	"time"

	"github.com/iotaledger/iota.go/consts"
	"github.com/iotaledger/iota.go/trinary"
	"github.com/wollac/iota-crypto-demo/pkg/pow"
	vbct "github.com/wollac/iota-crypto-demo/pkg/verifshim/vbct"
	"github.com/wollac/iota-crypto-demo/pkg/verifshim/vsched"

	"verifharness/core"
)

func init() { c11Sched = runC11Scripted }

// c11CapNonce is returned by the scripted mine helper after the shared deadline: it scores the maximum, so that a capped
// run raises nothing.
const c11CapNonce = 243

// c11Zeros is the scripted hash of C11 as a function of the hashed nonce: a block that carries nonce n has exactly
// min(n mod 4096, 243) trailing zero trits. A single worker that searches upwards from 0 therefore returns the zero
// count it required; any other search order still returns a nonce that is judged by this same function.
func c11Zeros(n uint64) int {
	z := int(n % 4096)
	if z > 243 {
		z = 243
	}
	return z
}

func c11Script(_ int, src []trinary.Trits, l, h *[consts.HashTrinarySize]uint) {
	var zeros [64]int
	for j := range src {
		if j < 64 {
			if n, ok := powDecodeNonce(src[j]); ok {
				zeros[j] = c11Zeros(n)
			}
		}
	}
	*l, *h = c11LaneState(&zeros)
}

func runC11Scripted(c *core.Ctx, nontriv *atomic.Int64) bool {
	if !powIntercepted(1) {
		c.Set("scripted_part", "skipped: Mine does not hash through a package the overlay instruments, so the float boundary of its zero count could not be observed")
		return false
	}
	// belt and braces: every scripted call terminates within four batches; a shared deadline turns anything else into a
	// capped run instead of a hang
	sweepCtx, sweepCancel := context.WithTimeout(context.Background(), 45*time.Minute)
	defer sweepCancel()
	vbct.Script = c11Script
	vbct.Memo = false
	defer func() { vbct.Script = nil }()
	maxLen := 1000
	if c.Thorough() {
		maxLen = 40000
	}
	var lens []int
	for l := 8; l <= maxLen; l++ {
		if l <= 1100 || l%7 == 3 || l&(l-1) == 0 || (l+1)&l == 0 {
			lens = append(lens, l)
		}
	}
	// large messages: around every power of two up to 2^17 (chunked hashing, 16-bit and 32-bit length slips)
	for k := 11; k <= 17; k++ {
		for _, d := range []int{-1, 0, 1, 8, 9, 13} {
			if l := 1<<uint(k) + d; l > maxLen {
				lens = append(lens, l)
			}
		}
	}
	lens = append(lens, 65535+8, 65536+8, 65537+8, 100000, 132072)
	mine := func(msgLen int, target float64) (uint64, error, interface{}) {
		data := make([]byte, msgLen-8)
		var nonce uint64
		var err error
		p := core.Catch(func() { nonce, err = pow.New(1).Mine(sweepCtx, data, target) })
		if sweepCtx.Err() != nil {
			c.CapHit()
			return c11CapNonce, nil, nil
		}
		return nonce, err, p
	}
	score := func(nonce uint64, msgLen int) float64 { return math.Pow(3, float64(c11Zeros(nonce))) / float64(msgLen) }

	// trivially low targets first, sequentially, so that a goroutine panic can be attributed
	vsched.PassThroughPanics()
	for _, l := range []int{8, 9, 10, 27, 100, 1000} {
		ln := float64(l)
		lows := []float64{0, math.Copysign(0, -1), -1, -1e300, 5e-324, 1e-300, 1 / (3 * ln), 0.999 / ln, math.Nextafter(1/ln, 0), 1 / ln, math.Nextafter(1/ln, 2), 0.01, 0.1}
		for _, t := range lows {
			nonce, err, p := mine(l, t)
			vsched.PassThroughWait()
			gp := vsched.PassThroughPanics()
			c.Eval(1)
			nontriv.Add(1)
			cas := map[string]interface{}{"msg_len": l, "target": t, "target_bits": fmt.Sprintf("%#x", math.Float64bits(t))}
			gt := fmt.Sprintf("func TestC11(t *testing.T) { _, err := pow.New(1).Mine(context.Background(), make([]byte, %d), %v); t.Log(err) } // crashes the process: a worker goroutine panics", l-8, t)
			cls := "target<1/len"
			if t*ln >= 1 {
				cls = "low-target"
			}
			if p != nil || len(gp) > 0 {
				what := fmt.Sprint(p)
				if len(gp) > 0 {
					what = gp[0]
					if len(what) > 300 {
						what = what[:300]
					}
				}
				c.Violate("C11/mine/"+cls+"/goroutine-panic", fmt.Sprintf("msg length %d, target %v: a goroutine of Mine panicked (in an unmodified build this kills the process): %s", l, t, what), cas, gt, nil)
				continue
			}
			if err != nil {
				c.Violate("C11/mine/"+cls+"/error", fmt.Sprintf("msg length %d, target %v: %v", l, t, err), cas, gt, nil)
				continue
			}
			if score(nonce, l) < t {
				c.Violate("C11/mine/"+cls+"/score-below-target", fmt.Sprintf("msg length %d, target %v: returned nonce %d, whose (scripted) hash has %d trailing zeros and scores %v", l, t, nonce, c11Zeros(nonce), score(nonce, l)), cas, gt, nil)
			}
		}
	}
	c.Sample(map[string]interface{}{"msg_len": 9, "target": 0.01})

	var ulpAbove, exact atomic.Int64
	core.Par(len(lens), func(i int) {
		l := lens[i]
		ln := float64(l)
		kmax := 60
		if l <= 64 || l%8 == 0 {
			kmax = 243 // up to the largest attainable score 3^243/len
		}
		for k := 0; k <= kmax; k++ {
			center := math.Pow(3, float64(k)) / ln
			ts := []float64{center}
			up, down := center, center
			for d := 0; d < 2; d++ {
				up = math.Nextafter(up, math.Inf(1))
				down = math.Nextafter(down, 0)
				ts = append(ts, up, down)
			}
			for ti, t := range ts {
				if t > math.Pow(3, 243)/ln {
					continue // needs more than 243 zeros: not attainable, outside the property
				}
				nonce, err, p := mine(l, t)
				c.Eval(1)
				nontriv.Add(1)
				cas := map[string]interface{}{"msg_len": l, "k": k, "target": t, "target_bits": fmt.Sprintf("%#x", math.Float64bits(t)), "ulps_from_3^k/len": []int{0, 1, -1, 2, -2}[ti]}
				cls := "at-or-below-3^k/len"
				if ti == 1 || ti == 3 {
					cls = "ulp-above-3^k/len"
				}
				gt := fmt.Sprintf("func TestC11(t *testing.T) { data := make([]byte, %d); target := math.Float64frombits(%#x); n, err := pow.New(1).Mine(context.Background(), data, target); if err != nil { t.Fatal(err) }; msg := append(data, make([]byte, 8)...); binary.LittleEndian.PutUint64(msg[len(data):], n); if pow.Score(msg) < target { t.Fatalf(\"score %%v < target %%v\", pow.Score(msg), target) } } // needs ~3^%d hashes with the real Curl", l-8, math.Float64bits(t), k)
				if p != nil {
					c.Violate("C11/mine/"+cls+"/panic", fmt.Sprintf("msg length %d, target %v: %v", l, t, p), cas, gt, nil)
					continue
				}
				if err != nil {
					c.Violate("C11/mine/"+cls+"/error", fmt.Sprintf("msg length %d, target %v: %v", l, t, err), cas, gt, nil)
					continue
				}
				if score(nonce, l) < t {
					c.Violate("C11/mine/"+cls+"/score-below-target", fmt.Sprintf("msg length %d, target %v (3^%d/len %+d ulp): Mine accepts %d trailing zeros (nonce %d), which score %v < target", l, t, k, []int{0, 1, -1, 2, -2}[ti], c11Zeros(nonce), nonce, score(nonce, l)), cas, gt, nil)
				}
				if ti == 0 {
					exact.Add(1)
				} else if ti == 1 {
					ulpAbove.Add(1)
				}
			}
		}
	})
	if gp := vsched.PassThroughPanics(); len(gp) > 0 {
		c.Violate("C11/mine/goroutine-panic", "a goroutine of Mine panicked during the boundary sweep: "+gp[0][:min(300, len(gp[0]))], nil, "", nil)
	}
	vbct.Script = nil
	powNonceSweeps(c, "C11", 1)
	c.Set("scripted_lengths", int64(len(lens)))
	c.Set("scripted_targets_per_length", int64(61*5))
	c.Sample(map[string]interface{}{"msg_len": 8, "k": 7, "target": "nextafter(3^7/8, +Inf)"})
	return true
}
