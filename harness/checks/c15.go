package checks

import (
	"bytes"
	"crypto"
	_ "crypto/md5"
	_ "crypto/sha1"
	_ "crypto/sha256"
	_ "crypto/sha512"
	"encoding"
	"encoding/binary"
	"errors"
	"fmt"
	"runtime"

	"github.com/wollac/iota-crypto-demo/pkg/merkle"
	_ "golang.org/x/crypto/blake2b"
	_ "golang.org/x/crypto/blake2s"
	_ "golang.org/x/crypto/md4"
	_ "golang.org/x/crypto/ripemd160"
	_ "golang.org/x/crypto/sha3"

	"verifharness/core"
)

func init() {
	core.Register(core.Check{ID: "C15", Level: "exploration", Run: func(c *core.Ctx) {
		waitArch := background(func() { arch386Pass(c, "C15") })
		runC15(c)
		historyPass(c, "C15")
		reentrancyPass(c, "C15")
		waitArch()
	}})
}

type c15leaf struct {
	b   []byte
	err error
}

func (l *c15leaf) MarshalBinary() ([]byte, error) {
	if l.err != nil {
		return nil, l.err
	}
	return l.b, nil // the internal slice on purpose: a hasher that scribbles on it is caught
}

// c15nested: a leaf that is itself a Merkle tree, hashed with a Hasher of the caller's choice when it is marshaled.
type c15nested struct {
	hs  *merkle.Hasher
	sub []encoding.BinaryMarshaler
}

func (n c15nested) MarshalBinary() ([]byte, error) { return n.hs.Hash(n.sub) }

// a second type with the same marshaled form ("depends only on the marshaled leaves")
type c15leafB string

func (l c15leafB) MarshalBinary() ([]byte, error) { return []byte(l), nil }

func c15H(h crypto.Hash, parts ...[]byte) []byte {
	x := h.New()
	for _, p := range parts {
		x.Write(p)
	}
	return x.Sum(nil)
}

// refMerkleLevels: bottom-up construction, odd node promoted unchanged.
func refMerkleLevels(h crypto.Hash, leaves [][]byte) [][][]byte {
	if len(leaves) == 0 {
		return nil
	}
	level := make([][]byte, len(leaves))
	for i, l := range leaves {
		level[i] = c15H(h, []byte{0}, l)
	}
	levels := [][][]byte{level}
	for len(level) > 1 {
		var next [][]byte
		for i := 0; i+1 < len(level); i += 2 {
			next = append(next, c15H(h, []byte{1}, level[i], level[i+1]))
		}
		if len(level)%2 == 1 {
			next = append(next, level[len(level)-1])
		}
		levels = append(levels, next)
		level = next
	}
	return levels
}

func refMerkleRoot(h crypto.Hash, leaves [][]byte) []byte {
	if len(leaves) == 0 {
		return c15H(h)
	}
	lv := refMerkleLevels(h, leaves)
	return lv[len(lv)-1][0]
}

func refAuditPath(levels [][][]byte, idx int) [][]byte {
	var path [][]byte
	for _, lv := range levels[:len(levels)-1] {
		sib := idx ^ 1
		if sib < len(lv) {
			path = append(path, lv[sib])
		}
		idx >>= 1
	}
	return path
}

// RFC 9162 section 2.1.3.2 verification of an inclusion proof.
func rfc9162Verify(h crypto.Hash, leafHash []byte, idx, size int, path [][]byte, root []byte) bool {
	if idx >= size {
		return false
	}
	fn, sn := idx, size-1
	r := leafHash
	for _, p := range path {
		if sn == 0 {
			return false
		}
		if fn&1 == 1 || fn == sn {
			r = c15H(h, []byte{1}, p, r)
			if fn&1 == 0 {
				for fn&1 == 0 && fn != 0 {
					fn >>= 1
					sn >>= 1
				}
			}
		} else {
			r = c15H(h, []byte{1}, r, p)
		}
		fn >>= 1
		sn >>= 1
	}
	return sn == 0 && bytes.Equal(r, root)
}

func c15Leaves(n int, kind int) [][]byte {
	out := make([][]byte, n)
	for i := range out {
		switch kind {
		case 0: // distinct, index coded
			b := make([]byte, 8)
			binary.LittleEndian.PutUint64(b, uint64(i)*0x9E3779B97F4A7C15+1)
			out[i] = b
		case 1: // all equal
			out[i] = []byte{0x42}
		case 2: // empty
			out[i] = []byte{}
		case 5: // header + payload: 100 bytes, the first 96 equal in all leaves, a 4-byte index behind
			b := bytes.Repeat([]byte{0xA7}, 100)
			binary.BigEndian.PutUint32(b[96:], uint32(i)*2654435761+1)
			out[i] = b
		case 6: // 65 bytes, the first 64 equal, one distinguishing byte (repeats after 256 leaves)
			b := bytes.Repeat([]byte{0x11}, 65)
			b[64] = byte(i)
			out[i] = b
		case 7: // 300 bytes differing in one byte far behind the first hash block
			b := bytes.Repeat([]byte{0x5C}, 300)
			b[200] = byte(i * 7)
			b[299] = byte(i >> 5)
			out[i] = b
		case 4: // 32-byte identifiers (as large as a digest)
			b := make([]byte, 32)
			for k := range b {
				b[k] = byte(i*31 + k*7 + 1)
			}
			out[i] = b
		default: // varying length, including lengths that look like two concatenated digests
			l := (i*7 + 3) % 70
			b := make([]byte, l)
			for k := range b {
				b[k] = byte(i + k*13)
			}
			out[i] = b
		}
	}
	return out
}

func runC15(c *core.Ctx) {
	maxN := 1200
	if c.Thorough() {
		maxN = 20000
	}
	c.Rule = fmt.Sprintf("all call histories of length <=3 over 19 calls (7 leaf counts, 12 failing-leaf placements) on one Hasher per hash function; every leaf count 0..%d (SHA-256, distinct leaves), 0..%d for SHA-512/BLAKE2b-256/SHA-1 and other leaf contents, counts 2^k-1,2^k,2^k+1 up to 2^17; RFC 9162 audit paths for every leaf of every n<=300; every set of <=2 failing leaves for n<=33; non-trivial = distinct (hash, n, contents) trees with n>=2 compared + audit paths verified", maxN, maxN/4)
	hashes := []crypto.Hash{crypto.SHA256, crypto.SHA512, crypto.BLAKE2b_256, crypto.SHA1}
	var nontriv int64
	type job struct {
		h    crypto.Hash
		n    int
		kind int
	}
	var jobs []job
	seen := map[job]bool{}
	add := func(j job) {
		if !seen[j] {
			seen[j] = true
			jobs = append(jobs, j)
		}
	}
	for n := 0; n <= maxN; n++ {
		add(job{crypto.SHA256, n, 0})
	}
	for _, h := range hashes {
		for n := 0; n <= maxN/4; n++ {
			for _, kind := range []int{0, 1, 2, 3, 4, 5, 6, 7} {
				if kind != 0 && n > 200 {
					continue
				}
				if kind >= 4 && (n > 70 || h == crypto.SHA1) {
					continue
				}
				add(job{h, n, kind})
			}
		}
	}
	// every hash function the crypto package knows and this binary links (tables of per-hash constants, digest sizes
	// from 16 to 64 bytes): small counts, including none
	nh := 0
	for h := crypto.Hash(1); h <= crypto.BLAKE2b_512; h++ {
		if h.Available() {
			nh++
			for n := 0; n <= 40; n++ {
				add(job{h, n, 0})
			}
		}
	}
	c.Set("hash_functions", int64(nh))
	for k := 1; k <= 17; k++ {
		for _, d := range []int{-1, 0, 1} {
			if k == 17 && !c.Thorough() && d == 1 {
				continue
			}
			add(job{crypto.SHA256, 1<<k + d, 0})
		}
	}
	counts := make([]int64, len(jobs))
	core.Par(len(jobs), func(ji int) {
		j := jobs[len(jobs)-1-ji] // big ones first
		raw := c15Leaves(j.n, j.kind)
		keep := make([][]byte, len(raw))
		data := make([]encoding.BinaryMarshaler, len(raw))
		for i := range raw {
			keep[i] = append([]byte{}, raw[i]...)
			data[i] = &c15leaf{b: raw[i]}
		}
		dataCopy := append([]encoding.BinaryMarshaler{}, data...)
		hs := merkle.NewHasher(j.h)
		var got []byte
		var err error
		p := core.Catch(func() { got, err = hs.Hash(data) })
		c.Eval(1)
		cas := map[string]interface{}{"hash": j.h.String(), "n": j.n, "leaf_kind": j.kind}
		if p != nil {
			c.Violate(fmt.Sprintf("C15/hash/panic/n=%d", j.n), fmt.Sprint(p), cas, "", nil)
			return
		}
		want := refMerkleRoot(j.h, keep)
		if err != nil || !bytes.Equal(got, want) {
			cls := "n>=2"
			if j.n < 2 {
				cls = fmt.Sprintf("n=%d", j.n)
			}
			c.Violate("C15/hash/root-differs/"+cls, fmt.Sprintf("%v n=%d kind=%d: Hash=%x err=%v, bottom-up reference=%x", j.h, j.n, j.kind, got, err, want), cas, "", nil)
		}
		for i := range raw {
			if !bytes.Equal(raw[i], keep[i]) || data[i] != dataCopy[i] {
				c.Violate("C15/hash/input-modified", fmt.Sprintf("leaf %d of %d modified", i, j.n), cas, "", nil)
				break
			}
		}
		if j.n == 0 && !bytes.Equal(got, hs.EmptyRoot()) {
			c.Violate("C15/hash/empty-root", "Hash(nil) != EmptyRoot()", cas, "", nil)
		}
		if j.n >= 2 {
			counts[ji]++
		}
		// same marshaled bytes through another leaf type and a nil-vs-empty slice
		if j.n <= 64 {
			alt := make([]encoding.BinaryMarshaler, len(raw))
			for i := range raw {
				alt[i] = c15leafB(string(keep[i]))
			}
			g2, e2 := hs.Hash(alt)
			if e2 != nil || !bytes.Equal(g2, got) {
				c.Violate("C15/hash/depends-on-type", fmt.Sprintf("n=%d: same marshaled leaves, different hash", j.n), cas, "", nil)
			}
		}
		// audit paths
		if j.n >= 1 && j.n <= 300 && err == nil {
			levels := refMerkleLevels(j.h, keep)
			for idx := 0; idx < j.n; idx++ {
				path := refAuditPath(levels, idx)
				c.Eval(1)
				if !rfc9162Verify(j.h, levels[0][idx], idx, j.n, path, got) {
					c.Violate("C15/audit/path-fails", fmt.Sprintf("%v n=%d leaf %d: RFC 9162 audit path does not verify against the returned root", j.h, j.n, idx), cas, "", nil)
					break
				}
				counts[ji]++
			}
		}
	})
	for _, x := range counts {
		nontriv += x
	}
	// one Hasher used for trees of trees (a leaf whose MarshalBinary hashes a sub-list with the SAME Hasher: a second Hash
	// call becomes active while the first one is in progress, on one goroutine) and struct copies of a used Hasher working
	// alternately; the reference hashes bottom-up with the sub-roots as leaf contents
	for _, hh := range []crypto.Hash{crypto.SHA256, crypto.BLAKE2b_256, crypto.SHA512} {
		hs := merkle.NewHasher(hh)
		hs.Hash([]encoding.BinaryMarshaler{&c15leaf{b: []byte{1}}, &c15leaf{b: []byte{2}}, &c15leaf{b: []byte{3}}}) // warm up
		cp := *hs
		for outer := 1; outer <= 9; outer++ {
			for pos := 0; pos < outer; pos++ {
				for sub := 0; sub <= 5; sub++ {
					subLeaves := c15Leaves(sub, 0)
					subData := make([]encoding.BinaryMarshaler, sub)
					for i := range subLeaves {
						subData[i] = &c15leaf{b: subLeaves[i]}
					}
					raw := c15Leaves(outer, 4)
					raw[pos] = refMerkleRoot(hh, subLeaves)
					for vi, use := range []*merkle.Hasher{hs, &cp} {
						inner := hs // the nested call always goes through the original object
						data := make([]encoding.BinaryMarshaler, outer)
						for i := range raw {
							data[i] = &c15leaf{b: raw[i]}
						}
						data[pos] = c15nested{inner, subData}
						var got []byte
						var err error
						p := core.Catch(func() { got, err = use.Hash(data) })
						c.Eval(1)
						nontriv++
						if p != nil || err != nil || !bytes.Equal(got, refMerkleRoot(hh, raw)) {
							c.Violate("C15/nested-use", fmt.Sprintf("%v: %d leaves, leaf %d is the root of a %d-leaf list hashed with the same Hasher inside MarshalBinary (outer call on %s): root %x (%v %v), reference %x", hh, outer, pos, sub, []string{"the Hasher itself", "a struct copy of the used Hasher"}[vi], got, p, err, refMerkleRoot(hh, raw)), map[string]int{"outer": outer, "pos": pos, "sub": sub}, "", nil)
						}
					}
				}
			}
		}
	}
	c.Sample(map[string]interface{}{"hash": "SHA-256", "n": 5, "leaves": "8-byte index-coded", "root": fmt.Sprintf("%x", refMerkleRoot(crypto.SHA256, c15Leaves(5, 0)))})

	// errors: every set of <= 2 failing leaves for n <= 33
	hs := merkle.NewHasher(crypto.SHA256)
	for n := 1; n <= 33; n++ {
		raw := c15Leaves(n, 0)
		for a := 0; a < n; a++ {
			for b := a; b < n; b++ {
				data := make([]encoding.BinaryMarshaler, n)
				errs := make([]error, n)
				for i := range data {
					l := &c15leaf{b: raw[i]}
					if i == a || i == b {
						errs[i] = fmt.Errorf("leaf %d fails", i)
						l.err = errs[i]
					}
					data[i] = l
				}
				var got []byte
				var err error
				p := core.Catch(func() { got, err = hs.Hash(data) })
				c.Eval(1)
				cas := map[string]interface{}{"n": n, "failing": []int{a, b}}
				if p != nil {
					c.Violate("C15/error/panic", fmt.Sprint(p), cas, "", nil)
				} else if err == nil {
					c.Violate("C15/error/swallowed", fmt.Sprintf("n=%d failing leaves %d,%d: no error, hash %x", n, a, b, got), cas, "", nil)
				} else if !errors.Is(err, errs[a]) {
					c.Violate("C15/error/not-first", fmt.Sprintf("n=%d failing leaves %d,%d: got %q, want the error of leaf %d", n, a, b, err, a), cas, "", nil)
				} else if got != nil {
					c.Violate("C15/error/hash-with-error", fmt.Sprintf("n=%d: error together with hash %x", n, got), cas, "", nil)
				}
				nontriv++
			}
		}
	}
	c.Sample(map[string]interface{}{"n": 33, "failing": []int{7, 31}, "expect": "error of leaf 7, nil hash"})

	// ---- unusual but legal BinaryMarshaler implementations: nil slices, one buffer re-used for every leaf (overwritten at
	// each call), all leaves windows of one array, a marshaler that returns a fresh value on every call ----
	for _, hh := range []crypto.Hash{crypto.SHA256, crypto.BLAKE2b_256} {
		for _, n := range []int{1, 2, 3, 5, 8, 13, 64, 65} {
			raw := c15Leaves(n, 3)
			want := refMerkleRoot(hh, raw)
			shared := make([]byte, 0, 128)
			arrayOf := make([]byte, 0, n*80)
			variants := map[string][]encoding.BinaryMarshaler{}
			for i := range raw {
				i := i
				variants["re-used buffer"] = append(variants["re-used buffer"], c15fn(func() ([]byte, error) { shared = append(shared[:0], raw[i]...); return shared, nil }))
				off := len(arrayOf)
				arrayOf = append(arrayOf, raw[i]...)
				variants["windows of one array"] = append(variants["windows of one array"], &c15leaf{b: arrayOf[off:len(arrayOf):len(arrayOf)]})
				variants["fresh copy per call"] = append(variants["fresh copy per call"], c15fn(func() ([]byte, error) { return append([]byte{}, raw[i]...), nil }))
				if len(raw[i]) == 0 {
					variants["nil for empty"] = append(variants["nil for empty"], c15fn(func() ([]byte, error) { return nil, nil }))
				} else {
					variants["nil for empty"] = append(variants["nil for empty"], &c15leaf{b: raw[i]})
				}
			}
			for name, data := range variants {
				got, err := merkle.NewHasher(hh).Hash(data)
				c.Eval(1)
				nontriv++
				if err != nil || !bytes.Equal(got, want) {
					c.Violate("C15/marshaler/"+name, fmt.Sprintf("%v, %d leaves, marshaler kind %q: Hash=%x err=%v, tree hash of the marshaled leaves is %x", hh, n, name, got, err, want), map[string]interface{}{"n": n, "kind": name}, "", nil)
				}
			}
			// nil list vs empty list
			if n == 1 {
				a, _ := merkle.NewHasher(hh).Hash(nil)
				b, _ := merkle.NewHasher(hh).Hash([]encoding.BinaryMarshaler{})
				if !bytes.Equal(a, b) || !bytes.Equal(a, refMerkleRoot(hh, nil)) {
					c.Violate("C15/marshaler/nil-vs-empty-list", "Hash(nil) and Hash(empty) differ", nil, "", nil)
				}
			}
		}
	}

	// ---- every leaf length 0..300 (thorough 0..1100): alone and as leaf 0 / leaf 3 of a 5-leaf tree ----
	{
		maxLeaf := 300
		if c.Thorough() {
			maxLeaf = 1100
		}
		core.Par(maxLeaf+1, func(l int) {
			for _, hh := range []crypto.Hash{crypto.SHA256, crypto.SHA512, crypto.BLAKE2b_256} {
				for _, shape := range [][2]int{{1, 0}, {5, 0}, {5, 3}} {
					n, pos := shape[0], shape[1]
					raw := c15Leaves(n, 4)
					big := make([]byte, l)
					for k := range big {
						big[k] = byte(k*17 + l)
					}
					raw[pos] = big
					data := make([]encoding.BinaryMarshaler, n)
					for i := range data {
						data[i] = &c15leaf{b: append([]byte{}, raw[i]...)}
					}
					got, err := merkle.NewHasher(hh).Hash(data)
					c.Eval(1)
					if want := refMerkleRoot(hh, raw); err != nil || !bytes.Equal(got, want) {
						c.Violate("C15/leaf-length/root-differs", fmt.Sprintf("%v: %d leaves, leaf %d is %d bytes long: Hash=%x, reference %x", hh, n, pos, l, got, want), map[string]int{"n": n, "pos": pos, "len": l}, "", nil)
					}
					// a second list that differs only in the last byte of that leaf must hash differently
					if l > 0 {
						d2 := make([]encoding.BinaryMarshaler, n)
						copy(d2, data)
						alt := append([]byte{}, big...)
						alt[l-1] ^= 1
						d2[pos] = &c15leaf{b: alt}
						if g2, _ := merkle.NewHasher(hh).Hash(d2); bytes.Equal(g2, got) {
							c.Violate("C15/leaf-length/collision", fmt.Sprintf("%v: two lists differing in the last byte of a %d-byte leaf have the same root", hh, l), l, "", nil)
						}
					}
				}
			}
		})
		nontriv += int64(maxLeaf+1) * 9
	}

	// ---- histories on one Hasher: the result depends only on the leaves of the call, not on earlier calls ----
	// all sequences of length <= 3 over {ok(n) for n in 0,1,2,3,5,8,33; fail(n, k) at first / middle / last leaf}, on one OS thread
	type hop struct {
		name string
		n    int
		fail int // -1: none
	}
	var hops []hop
	for _, n := range []int{0, 1, 2, 3, 5, 8, 33} {
		hops = append(hops, hop{fmt.Sprintf("ok(n=%d)", n), n, -1})
	}
	for _, n := range []int{1, 2, 5, 33} {
		for _, k := range []int{0, n / 2, n - 1} {
			hops = append(hops, hop{fmt.Sprintf("fail(n=%d,leaf=%d)", n, k), n, k})
		}
	}
	for _, hh := range []crypto.Hash{crypto.SHA256, crypto.BLAKE2b_256} {
		done := make(chan struct{})
		var seqs int64
		go func() {
			defer close(done)
			runtime.LockOSThread()
			defer runtime.UnlockOSThread()
			var rec func(hist []int)
			rec = func(hist []int) {
				if len(hist) > 0 {
					seqs++
					hsr := merkle.NewHasher(hh)
					var got []byte
					var err error
					var last hop
					for _, o := range hist {
						last = hops[o]
						raw := c15Leaves(last.n, 3)
						data := make([]encoding.BinaryMarshaler, last.n)
						for i := range data {
							l := &c15leaf{b: raw[i]}
							if i == last.fail {
								l.err = errors.New("scripted failure")
							}
							data[i] = l
						}
						got, err = hsr.Hash(data)
					}
					names := []string{}
					for _, o := range hist {
						names = append(names, hops[o].name)
					}
					if last.fail >= 0 {
						if err == nil || got != nil {
							c.Violate("C15/history/error-lost", fmt.Sprintf("%v after %v: hash %x err %v", hh, names, got, err), names, "", nil)
						}
					} else if want := refMerkleRoot(hh, c15Leaves(last.n, 3)); err != nil || !bytes.Equal(got, want) {
						c.Violate("C15/history/root-depends-on-earlier-calls", fmt.Sprintf("%v: after %v on the same Hasher, %s returns %x (err %v); the tree hash of these leaves is %x", hh, names[:len(names)-1], last.name, got, err, want), names, "", nil)
					}
				}
				if len(hist) == 3 {
					return
				}
				for o := range hops {
					rec(append(append([]int{}, hist...), o))
				}
			}
			rec(nil)
		}()
		<-done
		c.Eval(seqs)
		nontriv += seqs
		c.Set("hasher_histories_"+hh.String(), seqs)
	}
	c15EnvironmentPass(c)
	c.NonTrivial(nontriv)
	c.SetExhaustive(true)
	c.Assume = []string{"Go crypto hash implementations", "RFC 9162 2.1.3.2 verifier transcribed by hand"}
}

type c15fn func() ([]byte, error)

func (f c15fn) MarshalBinary() ([]byte, error) { return f() }
