package checks

import (
	"bytes"
	"errors"
	"fmt"
	"strings"

	"github.com/wollac/iota-crypto-demo/pkg/bech32"
	"github.com/wollac/iota-crypto-demo/pkg/bech32/address"

	"verifharness/core"
	rb "verifharness/ref/bech32"
)

func init() {
	core.Register(core.Check{ID: "C04", Level: "exploration", Run: func(c *core.Ctx) {
		waitArch := background(func() { arch386Pass(c, "C04") })
		runC04(c)
		historyPass(c, "C04")
		reentrancyPass(c, "C04")
		waitArch()
	}})
}

func c04Class(s string) string {
	for i := 0; i < len(s); i++ {
		if s[i] >= 0x80 {
			return "/non-ascii"
		}
	}
	return ""
}

// c04Judge runs the real Decode on s and compares with the reference predicate. Returns whether the reference accepts.
func c04Judge(c *core.Ctx, s string, tag string) bool {
	wh, wd, wok := rb.Decode(s)
	var gh string
	var gd []byte
	var err error
	p := core.Catch(func() { gh, gd, err = bech32.Decode(s) })
	c.Eval(1)
	cls := c04Class(s)
	mk := func() string {
		return fmt.Sprintf("func TestC04(t *testing.T) { h, d, err := bech32.Decode(%q); t.Logf(\"%%q %%x %%v\", h, d, err) /* reference: ok=%v hrp=%q data=%x */ }", s, wok, wh, wd)
	}
	if p != nil {
		c.Violate("C04/"+tag+"/panic"+cls, fmt.Sprintf("Decode(%q) panicked: %v", s, p), s, mk(), func() bool {
			return core.Catch(func() { bech32.Decode(s) }) != nil
		})
		return wok
	}
	if wok {
		if err != nil {
			c.Violate("C04/"+tag+"/reject-valid"+cls, fmt.Sprintf("Decode(%q) = error %v; valid: hrp=%q data=%x", s, err, wh, wd), s, mk(), nil)
			return true
		}
		if gh != wh || !bytes.Equal(gd, wd) {
			c.Violate("C04/"+tag+"/wrong-result"+cls, fmt.Sprintf("Decode(%q) = %q,%x want %q,%x", s, gh, gd, wh, wd), s, mk(), nil)
		}
		return true
	}
	if err == nil {
		re, _ := bech32.Encode(gh, gd)
		c.Violate("C04/"+tag+"/accept-invalid"+cls, fmt.Sprintf("Decode(%q) accepted as %q,%x (re-encodes to %q); not a valid Bech32 string", s, gh, gd, re), s, mk(), func() bool {
			_, _, e := bech32.Decode(s)
			return e == nil
		})
		return false
	}
	if gh != "" || gd != nil {
		c.Violate("C04/"+tag+"/result-with-error"+cls, fmt.Sprintf("Decode(%q) = %q,%x together with error %v", s, gh, gd, err), s, mk(), nil)
	}
	var se *bech32.SyntaxError
	if errors.As(err, &se) {
		if se.Offset < 0 || se.Offset >= len(s) {
			c.Violate("C04/"+tag+"/offset-outside"+cls, fmt.Sprintf("Decode(%q): SyntaxError.Offset=%d outside [0,%d) (%v)", s, se.Offset, len(s), err), s, mk(), nil)
		}
	}
	return false
}

func runC04(c *core.Ctx) {
	if st := rb.SelfTest(); st != "" {
		c.Abort("reference self test failed: %s", st)
		return
	}
	var nontriv int64
	th := c.Thorough()
	runeLen := 6
	if th {
		runeLen = 7
	}
	c.Rule = fmt.Sprintf("(1) all byte strings of length <=2, length 3 over %s; (2) all strings of <=%d runes over a 12-rune alphabet incl. DEL, 0x80 and U+212A; (3) checksum-valid strings for every data length 0..84 x every last symbol, all symbol sequences of length <=3, 6 hrps; (4) from 12 valid base strings: every position x every byte substitution, deletions, insertions, case flips, multi-byte rune replacements, (case flip, substitution) pairs; (5) totals 89/90/91; non-trivial = distinct inputs the reference accepts", map[bool]string{true: "all 256 bytes", false: "a 48-byte alphabet"}[th], runeLen)

	// (1) all short byte strings
	c04Judge(c, "", "bytes")
	alpha3 := []byte{}
	if th {
		for b := 0; b < 256; b++ {
			alpha3 = append(alpha3, byte(b))
		}
	} else {
		alpha3 = []byte("1qpzry9xlaAQL0b!~ \x00\x7f\x80\xc3\xa9\xe2\x84\xaa\xff2uel5UEL@[`{io")
	}
	cnt := make([]int64, 256)
	core.Par(256, func(a int) {
		if c04Judge(c, string([]byte{byte(a)}), "bytes") {
			cnt[a]++
		}
		for b := 0; b < 256; b++ {
			if c04Judge(c, string([]byte{byte(a), byte(b)}), "bytes") {
				cnt[a]++
			}
		}
		in3 := th || bytes.IndexByte(alpha3, byte(a)) >= 0
		if !in3 {
			return
		}
		for _, b := range alpha3 {
			for _, d := range alpha3 {
				if c04Judge(c, string([]byte{byte(a), b, d}), "bytes") {
					cnt[a]++
				}
			}
		}
	})
	for _, x := range cnt {
		nontriv += x
	}

	// (2) rune alphabet strings. "a12uel5l" is the shortest valid string (8 chars), so nothing here is valid:
	// the point is panics, offsets and non-ASCII handling on every short shape.
	runes := []string{"a", "A", "1", "q", "Q", "p", "l", "b", " ", "\x7f", "\x80", "K"}
	type pre struct{ a, b int }
	var pres []pre
	for a := range runes {
		for b := range runes {
			pres = append(pres, pre{a, b})
		}
	}
	for a := range runes {
		c04Judge(c, runes[a], "runes")
	}
	core.Par(len(pres), func(i int) {
		var rec func(s string, n int)
		rec = func(s string, n int) {
			c04Judge(c, s, "runes")
			if n == runeLen {
				return
			}
			for _, r := range runes {
				rec(s+r, n+1)
			}
		}
		rec(runes[pres[i].a]+runes[pres[i].b], 2)
	})
	c.Sample("a1Kqqqqqq")

	// (3) checksum-valid strings of arbitrary symbol sequences
	hrps := []string{"a", "A", "1a", "a1", strings.Repeat("x", 83), "!~", "iota", "SMR"}
	mkValid := func(hrp string, sym []byte) string {
		s := rb.EncodeSymbols(rb.Lower(hrp), sym)
		if hrp != rb.Lower(hrp) {
			s = rb.Upper(s)
		}
		return s
	}
	validBySymLen := map[int]int64{}
	for _, hrp := range hrps {
		for n := 0; n <= 84; n++ {
			if len(hrp)+1+n+6 > 92 {
				break
			}
			for _, fill := range []byte{0, 31, 0x15} {
				for last := 0; last < 32; last++ {
					sym := bytes.Repeat([]byte{fill}, n)
					if n > 0 {
						sym[n-1] = byte(last)
					} else if last > 0 {
						break
					}
					if c04Judge(c, mkValid(hrp, sym), "symbols") {
						nontriv++
						validBySymLen[n]++
					}
				}
			}
		}
		// all symbol sequences of length <= 3
		if len(hrp) <= 4 {
			for a := 0; a < 32; a++ {
				c04Judge(c, mkValid(hrp, []byte{byte(a)}), "symbols")
				for b := 0; b < 32; b++ {
					if c04Judge(c, mkValid(hrp, []byte{byte(a), byte(b)}), "symbols") {
						nontriv++
					}
					for d := 0; d < 32; d++ {
						if c04Judge(c, mkValid(hrp, []byte{byte(a), byte(b), byte(d)}), "symbols") {
							nontriv++
						}
					}
				}
			}
		}
	}
	// all 4- and 5-symbol sequences whose tail symbol varies completely (padding of 4 and 1 bits)
	for a := 0; a < 32; a++ {
		for b := 0; b < 32; b++ {
			for d := 0; d < 32; d++ {
				if c04Judge(c, mkValid("a", []byte{byte(a), 3, byte(b), byte(d)}), "symbols") {
					nontriv++
				}
				if c04Judge(c, mkValid("a", []byte{3, byte(a), 9, byte(b), byte(d)}), "symbols") {
					nontriv++
				}
				if th {
					if c04Judge(c, mkValid("a", []byte{3, byte(a), 9, byte(b), 17, 30, byte(d)}), "symbols") {
						nontriv++
					}
				}
			}
		}
	}
	// every printable ASCII character inside the hrp, in a lower-case and an upper-case string, at three positions
	for ch := 33; ch <= 126; ch++ {
		for _, shape := range []string{"a%sb", "%sab", "ab%s", "%s"} {
			h := fmt.Sprintf(shape, string(rune(ch)))
			for _, data := range [][]byte{{}, {0, 31, 7}} {
				low := rb.EncodeSymbols(rb.Lower(h), data)
				if c04Judge(c, low, "hrp-char") {
					nontriv++
				}
				if up := rb.Upper(low); up != low {
					if c04Judge(c, up, "hrp-char") {
						nontriv++
					}
				}
			}
		}
	}
	// every OTHER byte value and every multi-byte code point inside the hrp, with the checksum that is correct for the raw
	// bytes of that prefix (so only the character-class rule can reject the string): single bytes 0..32 and 127..255, all
	// code points of the BMP, and the supplementary planes in steps of 251 (every low byte occurs)
	hrpRune := func(piece string) {
		for _, shape := range []string{"a%sb", "%sab", "ab%s", "%s"} {
			h := fmt.Sprintf(shape, piece)
			for _, data := range [][]byte{{}, {0, 31, 7}} {
				low := rb.EncodeSymbols(rb.Lower(h), data)
				if c04Judge(c, low, "hrp-non-ascii") {
					nontriv++
				}
			}
		}
	}
	for ch := 0; ch < 256; ch++ {
		if ch < 33 || ch > 126 {
			hrpRune(string([]byte{byte(ch)}))
		}
	}
	for r := rune(0x80); r <= 0x10FFFF; r++ {
		if r >= 0xD800 && r <= 0xDFFF {
			continue
		}
		hrpRune(string(r))
		if r >= 0x10000 {
			r += 250
		} else if !th && r >= 0x800 {
			r += 2 // quick: every third code point above U+0800 (3 and 256 are coprime: every low byte occurs in every block)
		}
	}
	// strings whose checksum is right for another final constant (Bech32m 0x2bc830a3, 0, all ones, single bits): not BIP-173
	{
		consts := []uint32{0x2bc830a3, 0, 2, 3, 0x3fffffff, 0x3b6a57b2}
		for k := uint(0); k < 30; k++ {
			consts = append(consts, 1<<k, 1^(1<<k))
		}
		for _, h := range []string{"a", "iota", "tb", "!~"} {
			for _, sym := range [][]byte{nil, {0}, {31, 0, 7}, {3, 9, 17, 30, 1, 0, 0, 4}} {
				for _, k := range consts {
					if k == 1 {
						continue
					}
					v := rb.EncodeSymbolsConst(h, sym, k)
					c04Judge(c, v, "foreign-checksum-constant")
					c04Judge(c, rb.Upper(v), "foreign-checksum-constant")
				}
			}
		}
	}
	// consumers of Decode inside the repository must cope with everything Decode accepts: valid strings with no or very
	// little data through address.ParseBech32 (an error is fine, a panic is not)
	for _, h := range []string{"iota", "atoi", "smr", "rms", "a"} {
		for _, sym := range [][]byte{nil, {0}, {31}, {0, 0}, {0, 0, 0}, {1, 0}} {
			for _, v := range []string{rb.EncodeSymbols(h, sym), rb.Upper(rb.EncodeSymbols(h, sym))} {
				if p := core.Catch(func() { address.ParseBech32(v) }); p != nil {
					c.Violate("C04/consumer/ParseBech32-panic", fmt.Sprintf("address.ParseBech32(%q), a valid Bech32 string with %d data symbols, panics: %v", v, len(sym), p), v, "", nil)
				}
				c.Eval(1)
			}
		}
	}
	c.Set("accepted_by_symbol_count", fmt.Sprint(validBySymLen))
	c.Sample(mkValid("a", []byte{31, 28}))

	// (4) deviations from valid base strings
	enc := func(h string, d []byte) string {
		s, ok := rb.Encode(h, d)
		if !ok {
			panic("bad base " + h)
		}
		return s
	}
	ramp := func(n int) []byte {
		b := make([]byte, n)
		for i := range b {
			b[i] = byte(i*37 + 11)
		}
		return b
	}
	bases := []string{
		enc("a", nil), enc("A", nil), enc("iota", ramp(33)), enc("IOTA", ramp(33)), enc("a1b", ramp(1)), enc("1", ramp(2)),
		enc(strings.Repeat("x", 83), nil), enc(strings.Repeat("y", 40), ramp(26)), enc("!~", ramp(5)), enc("smr", ramp(21)),
		enc("k", []byte{0xFF, 0x00, 0xFF}), enc("K", ramp(50)), enc("atoi", ramp(0)),
	}
	insAlpha := []byte("1qpzlaAQ0b!~ \x00\x7f\x80\xc3\xe2\xffKkIi2uUeE5@[`{\t\n9xX8gGfF")
	multi := []string{"K", "İ", "ı", "ſ", "ß", "�", "\xc3\x28", "Ω", "Å", "ẞ"}
	var devs []string
	seen := map[string]bool{}
	add := func(s string) {
		if !seen[s] {
			seen[s] = true
			devs = append(devs, s)
		}
	}
	for _, b := range bases {
		add(b)
		for pos := 0; pos < len(b); pos++ {
			for v := 0; v < 256; v++ {
				add(b[:pos] + string([]byte{byte(v)}) + b[pos+1:])
			}
			add(b[:pos] + b[pos+1:])
			for _, m := range multi {
				add(b[:pos] + m + b[pos+1:])
			}
			fl := []byte(b)
			if fl[pos] >= 'a' && fl[pos] <= 'z' {
				fl[pos] -= 32
			} else if fl[pos] >= 'A' && fl[pos] <= 'Z' {
				fl[pos] += 32
			}
			flipped := string(fl)
			add(flipped)
			if len(b) <= 40 || pos%5 == 0 {
				// d=2: case flip at pos + substitution elsewhere
				for q := 0; q < len(b); q++ {
					if q == pos {
						continue
					}
					for _, v := range []byte{'q', 'Q', 'l', 'L', '1', 'b', 0x80} {
						add(flipped[:q] + string([]byte{v}) + flipped[q+1:])
					}
				}
			}
		}
		for pos := 0; pos <= len(b); pos++ {
			for _, v := range insAlpha {
				add(b[:pos] + string([]byte{v}) + b[pos:])
			}
			for _, m := range multi[:3] {
				add(b[:pos] + m + b[pos:])
			}
		}
		if b == strings.ToLower(b) {
			add(strings.ToUpper(b))
		} else {
			add(strings.ToLower(b))
		}
	}
	dc := make([]int64, len(devs))
	core.Par(len(devs), func(i int) {
		if c04Judge(c, devs[i], "deviation") {
			dc[i] = 1
		}
	})
	for _, x := range dc {
		nontriv += x
	}
	c.Set("deviation_inputs", int64(len(devs)))
	c.Sample(devs[len(devs)/2])

	// (5) length boundary: totals 89, 90, 91 (and 92) for hrp lengths 1, 40, 83
	for _, hl := range []int{1, 40, 83} {
		for total := 85; total <= 93; total++ {
			n := total - hl - 7
			if n < 0 {
				continue
			}
			for _, fill := range []byte{0, 16} {
				sym := bytes.Repeat([]byte{fill}, n)
				for _, up := range []bool{false, true} {
					h := strings.Repeat("w", hl)
					if up {
						h = strings.ToUpper(h)
					}
					if c04Judge(c, mkValid(h, sym), "length") {
						nontriv++
					}
				}
			}
		}
	}
	// (5b) a valid string with something in front of it or behind it (round 6): for valid strings of every total length
	// 8..90 with hrp lengths 1, 2, 40, 83 - tails and heads of 1..6 characters (charset characters, the string's own last
	// characters again, a separator, upper case); judged by the reference, so a lengthened string that happens to be valid counts as valid
	for _, hl := range []int{1, 2, 40, 83} {
		for total := hl + 7; total <= 90; total++ {
			n := total - hl - 7
			if total < 86 && n%8 != 0 && n%8 != 5 {
				continue
			}
			sym := make([]byte, n)
			for i := range sym {
				sym[i] = byte(i*7+hl) & 31
			}
			if n > 0 {
				sym[n-1] &= 16 // keeps short paddings zero where the length allows a valid regrouping
			}
			v := mkValid(strings.Repeat("x", hl), sym)
			for _, t := range []string{"q", "p", "l", "qq", "qqqqqq", v[len(v)-1:], v[len(v)-6:], "1", "1q", "Q", "qpzry9"} {
				for k := 1; k <= len(t); k++ {
					if c04Judge(c, v+t[:k], "valid-prefix-plus-tail") {
						nontriv++
					}
				}
				if c04Judge(c, t+v, "head-plus-valid-suffix") {
					nontriv++
				}
			}
		}
	}
	for n := 0; n < 200; n++ { // long garbage: no panic, offset inside
		c04Judge(c, strings.Repeat("q", n), "length")
		c04Judge(c, "a1"+strings.Repeat("q", n), "length")
		c04Judge(c, strings.Repeat("1", n), "length")
		c04Judge(c, strings.Repeat("K", n), "length")
	}
	c.NonTrivial(nontriv)
	c.SetExhaustive(true)
	c.Assume = []string{"reference = transcription of BIP-173 segwit_addr.py (bech32_decode + convertbits(5,8,pad=False)), validated against BIP-173's vector lists at start-up"}
}
