package checks

import (
	"bytes"
	"context"
	"encoding/binary"
	"fmt"
	"math"
	"math/big"
	"sync/atomic"
	"time"

	"github.com/iotaledger/iota.go/consts"
	"github.com/iotaledger/iota.go/trinary"
	powv2 "github.com/wollac/iota-crypto-demo/pkg/pow/v2"
	"golang.org/x/crypto/blake2b"

	"verifharness/bitexec/refcurl"
	"verifharness/core"
)

// set by c12_sched.go in the sched build variant
var c12Sched func(c *core.Ctx, nontriv *atomic.Int64) bool

func init() {
	core.Register(core.Check{ID: "C12", Level: "exploration", Run: func(c *core.Ctx) {
		waitArch := background(func() { arch386Pass(c, "C12") })
		runC12(c)
		standalonePass(c, "C12", "standalone-powv2")
		historyPass(c, "C12")
		reentrancyPass(c, "C12")
		waitArch()
	}})
}

var (
	c12Three  = big.NewInt(3)
	c12Pow243 = new(big.Int).Exp(big.NewInt(3), big.NewInt(243), nil)
	c12Max64  = new(big.Int).SetUint64(math.MaxUint64)
)

func c12Pow3(k int) *big.Int { return new(big.Int).Exp(c12Three, big.NewInt(int64(k)), nil) }

// refHashInt: little-endian base-3 reading with digit 2 for trit -1, plus one.
func refHashInt(trits []int8) *big.Int {
	v := new(big.Int)
	for i := len(trits) - 1; i >= 0; i-- {
		d := int64(trits[i])
		if d == -1 {
			d = 2
		}
		v.Mul(v, c12Three)
		v.Add(v, big.NewInt(d))
	}
	return v.Add(v, big.NewInt(1))
}

// refTritsOfHash inverts refHashInt (1 <= h <= 3^243).
func refTritsOfHash(h *big.Int) [243]int8 {
	var t [243]int8
	v := new(big.Int).Sub(h, big.NewInt(1))
	m := new(big.Int)
	for i := 0; i < 243; i++ {
		v.DivMod(v, c12Three, m)
		switch m.Int64() {
		case 1:
			t[i] = 1
		case 2:
			t[i] = -1
		}
	}
	return t
}

func refDifficulty(h *big.Int) *big.Int { return new(big.Int).Quo(c12Pow243, h) }

func refScoreV2FromHash(h *big.Int, msgLen int) uint64 {
	q := new(big.Int).Quo(refDifficulty(h), big.NewInt(int64(msgLen)))
	if q.Cmp(c12Max64) > 0 {
		return math.MaxUint64
	}
	return q.Uint64()
}

func refPowHashV2(data []byte, nonce uint64) *big.Int {
	d := blake2b.Sum256(data)
	var nb [8]byte
	binary.LittleEndian.PutUint64(nb[:], nonce)
	in := make([]int8, 0, 243)
	for _, b := range append(d[:], nb[:]...) {
		g := refB1T6Enc(b)
		in = append(in, g[:]...)
	}
	in = append(in, 0, 0, 0)
	out, err := refcurl.Sum(in, 243)
	if err != nil {
		panic(err)
	}
	return refHashInt(out)
}

type c12config struct {
	msgLen int
	t      uint64
	lx     *big.Int
	s      int      // smallest s with 3^s >= lx
	T, Q   *big.Int // T = floor(3^243/(lx+1)): h <= T  <=> difficulty > lx;  Q = floor(3^243/lx): h <= Q <=> difficulty >= lx
}

func c12Configs(th bool) []c12config {
	var out []c12config
	seen := map[string]bool{}
	add := func(msgLen int, t uint64) {
		if t == 0 {
			return
		}
		lx := new(big.Int).Mul(big.NewInt(int64(msgLen)), new(big.Int).SetUint64(t))
		if lx.Cmp(c12Max64) > 0 {
			return
		}
		k := fmt.Sprint(msgLen, t)
		if seen[k] {
			return
		}
		seen[k] = true
		s := 0
		for c12Pow3(s).Cmp(lx) < 0 {
			s++
		}
		cfg := c12config{msgLen: msgLen, t: t, lx: lx, s: s}
		cfg.T = new(big.Int).Quo(c12Pow243, new(big.Int).Add(lx, big.NewInt(1)))
		cfg.Q = new(big.Int).Quo(c12Pow243, lx)
		out = append(out, cfg)
	}
	lens := []int{8, 9, 21, 100, 1000, 32776}
	for _, l := range lens {
		for k := 2; k <= 40; k++ {
			if !th && k > 12 && k%4 != 0 && k != 39 && k != 40 {
				continue
			}
			p := c12Pow3(k)
			for _, d := range []int64{-1, 0, 1} {
				// t with l*t in the neighbourhood of 3^k: floor and ceil of (3^k+d)/l
				v := new(big.Int).Add(p, big.NewInt(d))
				q := new(big.Int).Quo(v, big.NewInt(int64(l)))
				if q.IsUint64() {
					add(l, q.Uint64())
					add(l, q.Uint64()+1)
				}
			}
		}
		add(l, 1)
		add(l, 4000)
		add(l, math.MaxUint64/uint64(l))
		add(l, math.MaxUint64/uint64(l)-1)
	}
	// message lengths that divide 2^64-1 = 3*5*17*257*641*65537*6700417: length*target can be exactly 2^64-1, the largest
	// legal product (length*target+1 does not fit 64 bits any more)
	for _, l := range []int{15, 17, 51, 85, 255, 257, 641, 771} {
		add(l, math.MaxUint64/uint64(l))
		add(l, math.MaxUint64/uint64(l)-1)
		add(l, 3)
	}
	add(21, 4000)
	return out
}

// classes of hash values around every threshold of the three-stage lane test
func (cfg *c12config) classes() []*big.Int {
	one := big.NewInt(1)
	var hs []*big.Int
	addH := func(h *big.Int) {
		if h.Sign() > 0 && h.Cmp(c12Pow243) <= 0 {
			for _, o := range hs {
				if o.Cmp(h) == 0 {
					return
				}
			}
			hs = append(hs, h)
		}
	}
	s := cfg.s
	addH(new(big.Int).Set(c12Pow243))
	for _, e := range []int{245 - s, 244 - s, 243 - s} {
		if e < 0 || e > 243 {
			continue
		}
		p := c12Pow3(e)
		addH(new(big.Int).Sub(p, one))
		addH(p)
		addH(new(big.Int).Add(p, one))
	}
	for _, b := range []*big.Int{cfg.T, cfg.Q} {
		for d := int64(-1); d <= 2; d++ {
			addH(new(big.Int).Add(b, big.NewInt(d)))
		}
	}
	addH(big.NewInt(1))
	addH(big.NewInt(2))
	return hs
}

func c12Planes(lanes *[64][243]int8) (l, h [consts.HashTrinarySize]uint) {
	for j := 0; j < 64; j++ {
		for i := 0; i < 243; i++ {
			t := lanes[j][i]
			if t <= 0 {
				l[i] |= 1 << uint(j)
			}
			if t >= 0 {
				h[i] |= 1 << uint(j)
			}
		}
	}
	return
}

func c12SetLane(l, h *[consts.HashTrinarySize]uint, j int, tr *[243]int8) {
	m := uint(1) << uint(j)
	for i := 0; i < 243; i++ {
		l[i] &^= m
		h[i] &^= m
		if tr[i] <= 0 {
			l[i] |= m
		}
		if tr[i] >= 0 {
			h[i] |= m
		}
	}
}

func runC12(c *core.Ctx) {
	th := c.Thorough()
	c.Rule = "lane test (hooks): ~150 (thorough ~480) configurations (message length, target) with length*target around 3^k for k=2..40, at 1, and near 2^64; per configuration ~17 hash classes placed at every threshold of the three-stage test (zero-count boundaries, target hash +-1, exact-difficulty boundary) on 3 unqualified backgrounds with <=2 deviating lanes every single lane, pairs over lane indices {0,1,31,62,63} (thorough: 12 indices around the quarter points) and all class pairs; oracle straight from the property (returned lane qualifies; a lane with difficulty > length*target is never passed over); toInt on single-trit and chunk-boundary patterns; Score vs own chain; Mine end to end with the real hash and a single worker: no earlier block of 64 nonces holds a strictly qualifying nonce; scripted batches through Mine (sched variant); non-trivial = distinct lane states + mined (data,target) pairs + scored messages"
	var nontriv atomic.Int64
	one := big.NewInt(1)

	// ---- constants and helpers through the hooks ----
	if powv2.VerifMaxHash().Cmp(c12Pow243) != 0 {
		c.Violate("C12/maxhash", "maxHash != 3^243", nil, "", nil)
	}
	// toInt: single-trit patterns at every position, chunk boundaries, all-(-1), all-1
	var pats [][243]int8
	for i := 0; i < 243; i++ {
		for _, v := range []int8{1, -1} {
			var t [243]int8
			t[i] = v
			pats = append(pats, t)
		}
	}
	for _, cut := range []int{39, 40, 41, 79, 80, 81, 239, 240, 241, 242} {
		var a, b [243]int8
		for i := 0; i < 243; i++ {
			if i < cut {
				a[i] = -1
			} else {
				b[i] = -1
			}
		}
		pats = append(pats, a, b)
	}
	var allm, allp [243]int8
	for i := range allm {
		allm[i], allp[i] = -1, 1
	}
	pats = append(pats, allm, allp, [243]int8{})
	for _, t := range pats {
		var got *big.Int
		p := core.Catch(func() { got = powv2.VerifToInt(trinary.Trits(t[:])) })
		want := refHashInt(t[:])
		c.Eval(1)
		nontriv.Add(1)
		if p != nil || got.Cmp(want) != 0 {
			c.Violate("C12/toInt", fmt.Sprintf("toInt differs from the base-3 reading (panic %v): got %v want %v", p, got, want), t[:], "", nil)
		}
		if back := refTritsOfHash(want); back != t {
			c.Abort("reference trits<->integer conversion is not a bijection")
			return
		}
	}

	// ---- lane test ----
	cfgs := c12Configs(th)
	c.Set("configurations", int64(len(cfgs)))
	// lanes for the two-deviating-lanes family (every single lane is always covered by the one-lane family)
	laneIdx := []int{0, 1, powW/2 - 1, powW - 2, powW - 1}
	if th {
		laneIdx = []int{0, 1, 2, powW/4 - 1, powW / 4, powW/2 - 1, powW / 2, powW/2 + 1, 3*powW/4 - 1, 3 * powW / 4, powW - 2, powW - 1}
	}
	var strictStates, qualStates atomic.Int64
	core.Par(len(cfgs), func(ci int) {
		cfg := cfgs[ci]
		data := make([]byte, cfg.msgLen-8)
		var s int
		var T *big.Int
		if p := core.Catch(func() { s = powv2.VerifSufficientTrailingZeros(data, cfg.t); T = powv2.VerifTargetHash(data, cfg.t) }); p != nil {
			// the overflow guard may refuse length*target close to 2^64: not part of the quantifier if it panics by design
			if cfg.lx.Cmp(new(big.Int).Sub(c12Max64, big.NewInt(int64(cfg.msgLen)))) >= 0 {
				return
			}
			c.Violate("C12/params/panic", fmt.Sprintf("len %d target %d: %v", cfg.msgLen, cfg.t, p), nil, "", nil)
			return
		}
		hs := cfg.classes()
		type cls struct {
			h      *big.Int
			tr     [243]int8
			qual   bool // difficulty >= l*x
			strict bool // difficulty > l*x
		}
		cl := make([]cls, len(hs))
		var unq []int
		for i, h := range hs {
			d := refDifficulty(h)
			cl[i] = cls{h, refTritsOfHash(h), d.Cmp(cfg.lx) >= 0, d.Cmp(cfg.lx) > 0}
			if !cl[i].qual {
				unq = append(unq, i)
			}
		}
		// backgrounds: up to three different unqualified classes (largest hash, smallest unqualified hash, one in between)
		bgs := []int{}
		if len(unq) > 0 {
			lo, hi := unq[0], unq[0]
			for _, u := range unq {
				if cl[u].h.Cmp(cl[lo].h) < 0 {
					lo = u
				}
				if cl[u].h.Cmp(cl[hi].h) > 0 {
					hi = u
				}
			}
			bgs = append(bgs, hi)
			if lo != hi {
				bgs = append(bgs, lo)
			}
			for _, u := range unq {
				if u != lo && u != hi {
					bgs = append(bgs, u)
					break
				}
			}
		}
		judge := func(l, h *[consts.HashTrinarySize]uint, laneCls *[64]int, what string) {
			var got int
			p := core.Catch(func() { got = powv2.VerifCheckStateTrits(l, h, s, T) })
			c.Eval(1)
			nontriv.Add(1)
			anyStrict, anyQual := false, false
			for j := 0; j < powW; j++ {
				if cl[laneCls[j]].strict {
					anyStrict = true
				}
				if cl[laneCls[j]].qual {
					anyQual = true
				}
			}
			if anyStrict {
				strictStates.Add(1)
			} else if anyQual {
				qualStates.Add(1)
			}
			desc := func() map[string]interface{} {
				m := map[string]interface{}{"msg_len": cfg.msgLen, "target": cfg.t, "sufficient_zeros": s}
				dev := map[string]string{}
				for j := 0; j < powW; j++ {
					if laneCls[j] != laneCls[(j+1)%powW] || laneCls[j] != laneCls[(j+powW-1)%powW] {
						dev[fmt.Sprint(j)] = cl[laneCls[j]].h.String()
					}
				}
				m["lanes_differing_from_neighbours"] = dev
				m["background_hash"] = cl[laneCls[2]].h.String()
				return m
			}
			if p != nil {
				c.Violate("C12/lane-test/"+what+"/panic", fmt.Sprintf("len %d target %d: checkStateTrits panicked: %v", cfg.msgLen, cfg.t, p), desc(), "", nil)
				return
			}
			if got < 0 || got > powW {
				c.Violate("C12/lane-test/"+what+"/range", fmt.Sprintf("returned %d", got), desc(), "", nil)
				return
			}
			if got < powW && !cl[laneCls[got]].qual {
				c.Violate("C12/lane-test/"+what+"/unsound", fmt.Sprintf("len %d target %d: lane %d returned, but its difficulty %v is below length*target %v", cfg.msgLen, cfg.t, got, refDifficulty(cl[laneCls[got]].h), cfg.lx), desc(), "", nil)
			}
			if got == powW && anyStrict {
				c.Violate("C12/lane-test/"+what+"/passed-over", fmt.Sprintf("len %d target %d: no lane returned although a lane has difficulty strictly above length*target %v", cfg.msgLen, cfg.t, cfg.lx), desc(), "", nil)
			}
		}
		for _, bg := range bgs {
			var lanes [64][243]int8
			var lc [64]int
			for j := range lanes {
				lanes[j] = cl[bg].tr
				lc[j] = bg
			}
			l0, h0 := c12Planes(&lanes)
			judge(&l0, &h0, &lc, "background")
			for j := 0; j < powW; j++ {
				for a := range cl {
					l, h := l0, h0
					c12SetLane(&l, &h, j, &cl[a].tr)
					lcc := lc
					lcc[j] = a
					judge(&l, &h, &lcc, "one-lane")
				}
			}
			for ia, ja := range laneIdx {
				for _, jb := range laneIdx[ia+1:] {
					for a := range cl {
						for b := range cl {
							l, h := l0, h0
							c12SetLane(&l, &h, ja, &cl[a].tr)
							c12SetLane(&l, &h, jb, &cl[b].tr)
							lcc := lc
							lcc[ja], lcc[jb] = a, b
							judge(&l, &h, &lcc, "two-lanes")
						}
					}
				}
			}
		}
		// all lanes qualifying / all lanes equal to each class
		for a := range cl {
			var lanes [64][243]int8
			var lc [64]int
			for j := range lanes {
				lanes[j] = cl[a].tr
				lc[j] = a
			}
			l, h := c12Planes(&lanes)
			judge(&l, &h, &lc, "uniform")
		}
		// parameters against the reference
		if s != cfg.s {
			// a larger s is still sound; a smaller one is judged by the lane oracle above. Only report s that breaks the documented meaning.
			if c12Pow3(s).Cmp(cfg.lx) < 0 {
				c.Violate("C12/params/sufficient-zeros", fmt.Sprintf("len %d target %d: sufficientTrailingZeros = %d but 3^%d < length*target", cfg.msgLen, cfg.t, s, s), nil, "", nil)
			}
		}
		if T.Cmp(cfg.Q) > 0 {
			c.Violate("C12/params/target-hash", fmt.Sprintf("len %d target %d: targetHash %v admits hashes whose difficulty is below length*target (largest admissible %v)", cfg.msgLen, cfg.t, T, cfg.Q), nil, "", nil)
		}
		_ = one
	})
	c.Set("states_with_strictly_qualifying_lane", strictStates.Load())
	c.Set("states_with_only_exactly_qualifying_lanes", qualStates.Load())
	c.Sample(map[string]interface{}{"lane_test": "len 21, target 4000: background 3^243, lane 63 = targetHash, lane 0 = targetHash+1", "expect": "lane 63 (lane 0 has difficulty == l*x: may or may not be taken)"})

	// ---- Score vs own chain ----
	nMsg := 500
	if th {
		nMsg = 2000
	}
	core.Par(nMsg, func(i int) {
		l := 8 + i%211
		msg := make([]byte, l)
		for k := range msg {
			msg[k] = byte(k*17 + i*3)
		}
		binary.LittleEndian.PutUint64(msg[l-8:], uint64(i)*0x9E3779B97F4A7C15)
		var got uint64
		p := core.Catch(func() { got = powv2.Score(msg) })
		want := refScoreV2FromHash(refPowHashV2(msg[:l-8], binary.LittleEndian.Uint64(msg[l-8:])), l)
		c.Eval(1)
		nontriv.Add(1)
		if p != nil || got != want {
			c.Violate("C12/score", fmt.Sprintf("Score(%d-byte message #%d) = %d (panic %v), definition gives %d", l, i, got, p, want), fmt.Sprintf("%x", msg), "", nil)
		}
	})

	// ---- end to end, real hash ----
	type e2e struct {
		data    []byte
		t       uint64
		workers int
	}
	var es []e2e
	nData := 6
	if th {
		nData = 15
	}
	for i := 0; i < nData; i++ {
		data := make([]byte, 1+i*5)
		for k := range data {
			data[k] = byte(i*3 + k)
		}
		l := uint64(len(data) + 8)
		for _, lx := range []uint64{9, 27, 28, 81, 243, 244, 729, 2000, 6561} {
			if !th && lx > 729 && i > 1 {
				continue
			}
			t := lx / l
			if t == 0 {
				t = 1
			}
			es = append(es, e2e{data, t, 1})
			if i < 3 {
				es = append(es, e2e{data, t, 2}, e2e{data, t, 3}, e2e{data, t, 16})
			}
		}
	}
	core.Par(len(es), func(i int) {
		e := es[i]
		var nonce uint64
		var err error
		p := core.Catch(func() { nonce, err = powv2.New(e.workers).Mine(context.Background(), e.data, e.t) })
		c.Eval(1)
		nontriv.Add(1)
		cas := map[string]interface{}{"data": fmt.Sprintf("%x", e.data), "target": e.t, "workers": e.workers}
		if p != nil || err != nil {
			c.Violate("C12/e2e/error", fmt.Sprintf("Mine: %v %v", p, err), cas, "", nil)
			return
		}
		msgLen := len(e.data) + 8
		lx := new(big.Int).Mul(big.NewInt(int64(msgLen)), new(big.Int).SetUint64(e.t))
		if refScoreV2FromHash(refPowHashV2(e.data, nonce), msgLen) < e.t {
			c.Violate("C12/e2e/unsound", fmt.Sprintf("Mine returned nonce %d whose score is below the target %d", nonce, e.t), cas, "", nil)
			return
		}
		msg := append(append([]byte{}, e.data...), make([]byte, 8)...)
		binary.LittleEndian.PutUint64(msg[len(e.data):], nonce)
		if powv2.Score(msg) < e.t {
			c.Violate("C12/e2e/unsound", fmt.Sprintf("Mine returned nonce %d with Score %d < target %d", nonce, powv2.Score(msg), e.t), cas, "", nil)
		}
		if e.workers == 1 {
			for n := uint64(0); n < nonce/64*64; n++ {
				if refDifficulty(refPowHashV2(e.data, n)).Cmp(lx) > 0 {
					c.Violate("C12/e2e/passed-over", fmt.Sprintf("single worker returned nonce %d (block %d) but nonce %d in block %d has difficulty strictly above length*target", nonce, nonce/64, n, n/64), cas, "", nil)
					break
				}
			}
		}
	})
	// large data (digest computed over megabytes; chunked hashing must hash every byte): sizes at and around multiples of 1 MiB
	for _, sz := range []int{1 << 20, 1<<20 + 1, 2 << 20, 2<<20 - 1, 3 << 20, 4 << 20, 1<<24 + 5} {
		data := make([]byte, sz)
		for i := 0; i < len(data); i += 4093 {
			data[i] = byte(i>>12) + 1
		}
		data[len(data)-1] = 0x77
		var nonce uint64
		var err error
		p := core.Catch(func() { nonce, err = powv2.New(2).Mine(context.Background(), data, 1) })
		c.Eval(1)
		nontriv.Add(1)
		cas := map[string]interface{}{"data_len": sz, "target": 1}
		if p != nil || err != nil {
			c.Violate("C12/large-data/error", fmt.Sprintf("%d bytes of data: %v %v", sz, p, err), cas, "", nil)
			continue
		}
		if sc := refScoreV2FromHash(refPowHashV2(data, nonce), len(data)+8); sc < 1 {
			c.Violate("C12/large-data/unsound", fmt.Sprintf("%d bytes of data, target 1: Mine returned nonce %d whose score is %d", sz, nonce, sc), cas, "", nil)
		}
	}
	// one Worker, the same data again after a cancelled call with a higher target: the second call is a call like any other
	// (sound, and with one worker no earlier block holds a nonce that qualifies with margin)
	for _, data := range [][]byte{[]byte("retry after cancel"), {1, 2, 3}} {
		w := powv2.New(1)
		ctx, cancel := context.WithTimeout(context.Background(), 30*time.Millisecond)
		w.Mine(ctx, data, 1<<50)
		cancel()
		for _, t := range []uint64{50, 7} {
			var nonce uint64
			var err error
			p := core.Catch(func() { nonce, err = w.Mine(context.Background(), data, t) })
			c.Eval(1)
			nontriv.Add(1)
			cas := map[string]interface{}{"data": fmt.Sprintf("%x", data), "target": t, "history": "Mine(target 2^50) cancelled by a 30ms timeout, then this call on the same Worker"}
			if p != nil || err != nil {
				c.Violate("C12/reuse-after-cancel/error", fmt.Sprintf("%v %v", p, err), cas, "", nil)
				continue
			}
			msgLen := len(data) + 8
			lx := new(big.Int).Mul(big.NewInt(int64(msgLen)), new(big.Int).SetUint64(t))
			if refScoreV2FromHash(refPowHashV2(data, nonce), msgLen) < t {
				c.Violate("C12/reuse-after-cancel/unsound", fmt.Sprintf("nonce %d scores below the target %d", nonce, t), cas, "", nil)
				continue
			}
			limit := nonce / 64 * 64
			if limit > 1<<19 {
				limit = 1 << 19 // the reference hashes every earlier nonce: bounded
			}
			for n := uint64(0); n < limit; n++ {
				if refDifficulty(refPowHashV2(data, n)).Cmp(lx) > 0 {
					c.Violate("C12/reuse-after-cancel/passed-over", fmt.Sprintf("single worker returned nonce %d (block %d) although nonce %d in block %d has difficulty strictly above length*target", nonce, nonce/64, n, n/64), cas, "", nil)
					break
				}
			}
		}
	}
	// every way a context can end x (unattainable | easy) target x worker counts: whatever comes back without an error
	// must meet the target; with the unattainable target that means an error must come back
	for _, k := range powCtxKinds() {
		for _, workers := range []int{1, 4} {
			for _, t := range []uint64{1 << 56, 3} {
				data := []byte("ctx:" + k.Name)
				ctx, cancel := k.Make()
				var nonce uint64
				var err error
				p := core.Catch(func() { nonce, err = powv2.New(workers).Mine(ctx, data, t) })
				cancel()
				c.Eval(1)
				nontriv.Add(1)
				cas := map[string]interface{}{"context": k.Name, "workers": workers, "target": t}
				if p != nil {
					c.Violate("C12/context/panic", fmt.Sprintf("context %s: Mine panics: %v", k.Name, p), cas, "", nil)
					continue
				}
				if err != nil {
					continue
				}
				if sc := refScoreV2FromHash(refPowHashV2(data, nonce), len(data)+8); sc < t {
					c.Violate("C12/context/unsound", fmt.Sprintf("context %s, %d workers: Mine returned nonce %d without error; its score %d is below the target %d", k.Name, workers, nonce, sc, t), cas, "", nil)
				}
			}
		}
	}
	// worker counts: none given, zero, negative, more goroutines than lanes and than cores; target 0 and 1; nil data
	{
		data := []byte("worker counts")
		ws := map[string]*powv2.Worker{"New()": powv2.New(), "New(0)": powv2.New(0), "New(-3)": powv2.New(-3), "New(65)": powv2.New(65), "New(1000)": powv2.New(1000)}
		for name, w := range ws {
			for _, tc := range []struct {
				d []byte
				t uint64
			}{{data, 5}, {nil, 1}, {[]byte{}, 3}, {data, 0}} {
				var nonce uint64
				var err error
				p := core.Catch(func() { nonce, err = w.Mine(context.Background(), tc.d, tc.t) })
				c.Eval(1)
				if p != nil || err != nil || refScoreV2FromHash(refPowHashV2(tc.d, nonce), len(tc.d)+8) < tc.t {
					c.Violate("C12/environment/worker-count", fmt.Sprintf("v2.%s, %d-byte data, target %d: Mine = %d, %v (panic %v)", name, len(tc.d), tc.t, nonce, err, p), name, "", nil)
				}
			}
		}
	}
	// one Worker (and the package as a whole) used for a sequence of calls with different (length, target) pairs that
	// share length*target products in various ways; every nonce must meet the target of its own call
	for _, workers := range []int{1, 3, 16} {
		w := powv2.New(workers)
		type lt struct {
			l int
			t uint64
		}
		seq := []lt{{2000, 1}, {1, 2000}, {0, 2}, {0, 5000}, {8, 16}, {16, 8}, {0, 1}, {100, 20}, {92, 20}, {1, 1}, {7, 600}, {592, 7}}
		for round, q := range seq {
			data := make([]byte, q.l)
			for i := range data {
				data[i] = byte(i*7 + round + workers)
			}
			var nonce uint64
			var err error
			p := core.Catch(func() { nonce, err = w.Mine(context.Background(), data, q.t) })
			c.Eval(1)
			nontriv.Add(1)
			cas := map[string]interface{}{"workers": workers, "call": round, "data_len": q.l, "target": q.t}
			if p != nil || err != nil {
				c.Violate("C12/reuse/error", fmt.Sprintf("call %d: %v %v", round, p, err), cas, "", nil)
				break
			}
			if sc := refScoreV2FromHash(refPowHashV2(data, nonce), q.l+8); sc < q.t {
				c.Violate("C12/reuse/unsound", fmt.Sprintf("call %d (data length %d, target %d) in a sequence of calls returned nonce %d with score %d", round, q.l, q.t, nonce, sc), cas, "", nil)
				break
			}
			if workers == 1 {
				lx := new(big.Int).Mul(big.NewInt(int64(q.l+8)), new(big.Int).SetUint64(q.t))
				for n := uint64(0); n < nonce/64*64 && n < 20000; n++ {
					if refDifficulty(refPowHashV2(data, n)).Cmp(lx) > 0 {
						c.Violate("C12/reuse/passed-over", fmt.Sprintf("call %d (data length %d, target %d): nonce %d in an earlier block strictly qualifies, %d was returned", round, q.l, q.t, n, nonce), cas, "", nil)
						break
					}
				}
			}
		}
	}
	// the caller builds every message in the SAME buffer (same backing array, same length, other content; spare capacity
	// behind it) - on one Worker, and on a new Worker per call (package-level memory): a result remembered for "this slice"
	// must not be trusted once its content has changed
	for _, mode := range []string{"one Worker", "a new Worker per call"} {
		for _, workers := range []int{1, 3} {
			w := powv2.New(workers)
			store := bytes.Repeat([]byte{0xEE}, 64)
			buf := store[5:16]
			t := uint64(6561 / 19)
			for round, fill := range []byte{1, 2, 1, 3, 3, 0, 1} {
				for i := range buf {
					buf[i] = fill*17 + byte(i)*fill
				}
				want := append([]byte{}, store...)
				if mode != "one Worker" {
					w = powv2.New(workers)
				}
				var nonce uint64
				var err error
				p := core.Catch(func() { nonce, err = w.Mine(context.Background(), buf, t) })
				c.Eval(1)
				nontriv.Add(1)
				cas := map[string]interface{}{"mode": mode, "workers": workers, "call": round, "data": fmt.Sprintf("%x", buf), "target": t}
				if p != nil || err != nil {
					c.Violate("C12/same-buffer/error", fmt.Sprintf("call %d: %v %v", round, p, err), cas, "", nil)
					break
				}
				if !bytes.Equal(store, want) {
					c.Violate("C12/same-buffer/data-modified", fmt.Sprintf("call %d: Mine wrote to the caller's buffer", round), cas, "", nil)
					break
				}
				if sc := refScoreV2FromHash(refPowHashV2(buf, nonce), len(buf)+8); sc < t {
					c.Violate("C12/same-buffer/unsound", fmt.Sprintf("%s, %d goroutines, call %d: the message was built in the buffer of the previous call (same length, content %x); Mine returned nonce %d with score %d < target %d", mode, workers, round, buf, nonce, sc, t), cas, "", nil)
					break
				}
			}
		}
	}
	c.Sample(map[string]interface{}{"e2e": "11-byte data, target 6561/19, single worker: every nonce of every earlier 64-block checked with the reference difficulty"})

	exhaustive := false
	if c12Sched != nil {
		exhaustive = c12Sched(c, &nontriv)
	} else {
		c.Set("scripted_part", "this binary was built without the sched variant: scripted batches through Mine and scripted Score digests not run")
	}
	c.NonTrivial(nontriv.Load())
	c.SetExhaustive(exhaustive)
	c.Assume = []string{"own Curl-P-81 / b1t6 reference and math/big arithmetic", "length*target that the implementation's overflow guard refuses (panics by design) is outside the space", "worker counts > 1: soundness only (which qualifying nonce is returned depends on the schedule; C13 explores schedules)"}
}
