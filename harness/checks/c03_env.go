package checks

// Word lists supplied by the caller (bip39.RegisterWordList) are the environment of the BIP-39 code: their constructor and
// their three methods are called from inside SetWordList / EntropyToMnemonic / MnemonicToEntropy and may fail. This pass
// is an explicit-state search over all operation sequences of bounded length in which some operations select such a
// list - a correct one (the English words in reverse order), one whose constructor panics, one that is incomplete
// (look-ups of the last indices panic), a nil one - against a one-variable model of the selection:
//
//	SetWordList(x) returned nil            -> the selection is x
//	SetWordList(x) returned an error or
//	panicked (recovered by the caller)     -> the selection is what it was
//
// While the selection is one of the complete lists every Encode / Decode / Seed is judged by the reference codec over
// that list; while it is a defective list nothing is judged (panics are recovered), but as soon as a complete list is
// selected again everything must be right again.

import (
	"bytes"
	"fmt"

	"github.com/wollac/iota-crypto-demo/pkg/bip39"
	"github.com/wollac/iota-crypto-demo/pkg/bip39/wordlist"

	"verifharness/core"
	rb39 "verifharness/ref/bip39"
)

type vpList struct {
	words []string
	index map[string]int
	upTo  int // look-ups of indices >= upTo panic (an incomplete list)
}

func newVpList(words []string, upTo int) *vpList {
	l := &vpList{words: words, index: map[string]int{}, upTo: upTo}
	for i, w := range words {
		l.index[w] = i
	}
	return l
}
func (l *vpList) Contains(w string) bool { _, ok := l.index[w]; return ok }
func (l *vpList) Word(i int) string {
	if i >= l.upTo {
		panic(fmt.Sprintf("word list: index %d out of range", i))
	}
	return l.words[i]
}
func (l *vpList) Index(w string) int {
	i, ok := l.index[w]
	if !ok || i >= l.upTo {
		panic("word list: no such word")
	}
	return i
}

var bip39PluginsRegistered bool

// bip39PluginPass: id = "C03" or "C09" (the key prefix); english / japanese = the built-in lists as read through the API.
func bip39PluginPass(c *core.Ctx, id string, english, japanese []string) {
	if len(english) != 2048 || len(japanese) != 2048 {
		c.Set("plugin_pass", "built-in lists could not be read: skipped")
		return
	}
	reversed := make([]string, 2048)
	for i := range reversed {
		reversed[i] = english[2047-i]
	}
	if !bip39PluginsRegistered {
		bip39PluginsRegistered = true
		bip39.RegisterWordList("vp-reversed", func() wordlist.List { return newVpList(reversed, 2048) })
		bip39.RegisterWordList("vp-init-panics", func() wordlist.List { panic("scripted: this word list cannot be loaded") })
		bip39.RegisterWordList("vp-short", func() wordlist.List { return newVpList(reversed, 2040) })
		bip39.RegisterWordList("vp-nil", func() wordlist.List { return nil })
	}
	complete := map[string][]string{"english": english, "japanese": japanese, "vp-reversed": reversed}
	e1 := []byte("0123456789abcdef")
	e2 := bytes.Repeat([]byte{0xA7, 0x00, 0xFF, 0x31}, 11) // 44 bytes: 33 words
	e3 := bytes.Repeat([]byte{0x00, 0x5C, 0x80, 0x0F}, 11)
	sentence := func(lang string, e []byte) bip39.Mnemonic {
		idx := rb39.Indices(e)
		m := make(bip39.Mnemonic, len(idx))
		for i, v := range idx {
			m[i] = complete[lang][v]
		}
		return m
	}
	type op struct {
		name string
		set  string         // SetWordList(set)
		enc  []byte         // EntropyToMnemonic(enc)
		dec  bip39.Mnemonic // MnemonicToEntropy(dec)
		seed bip39.Mnemonic // MnemonicToSeed(seed, "pw")
	}
	ops := []op{{name: "Set(english)", set: "english"}, {name: "Set(japanese)", set: "japanese"}, {name: "Set(unknown)", set: "klingon"},
		{name: "Set(caller's complete list)", set: "vp-reversed"}, {name: "Set(list whose constructor panics)", set: "vp-init-panics"},
		{name: "Set(incomplete list)", set: "vp-short"}, {name: "Set(nil list)", set: "vp-nil"},
		{name: "Enc(16 bytes)", enc: e1}, {name: "Enc(44 bytes)", enc: e2}, {name: "Dec(english sentence)", dec: sentence("english", e1)},
		{name: "Dec(sentence of the caller's list, 33 words)", dec: sentence("vp-reversed", e2)}, {name: "Seed(english sentence)", seed: sentence("english", e1)},
		{name: "Dec(another english sentence, 33 words)", dec: sentence("english", e3)}, {name: "Dec(english sentence, 33 words)", dec: sentence("english", e2)}}
	// expected verdict of decoding m under the complete list lang
	expect := func(lang string, m bip39.Mnemonic) (entropy []byte, ok bool) {
		words := complete[lang]
		pos := map[string]int{}
		for i, w := range words {
			pos[w] = i
		}
		idx := make([]int, len(m))
		for i, w := range m {
			j, in := pos[w]
			if !in {
				return nil, false
			}
			idx[i] = j
		}
		e, countOK, csOK := rb39.FromIndices(idx)
		return e, countOK && csOK
	}
	type exp struct {
		e  []byte
		ok bool
	}
	memo := map[string]exp{}
	expectMemo := func(lang string, oi int, m bip39.Mnemonic) ([]byte, bool) {
		k := fmt.Sprint(lang, oi)
		if v, ok := memo[k]; ok {
			return v.e, v.ok
		}
		e, ok := expect(lang, m)
		memo[k] = exp{e, ok}
		return e, ok
	}
	seedMemo := map[string][]byte{}
	depth := 3
	if c.Thorough() {
		depth = 4
	}
	var seqs int64
	states := map[string]bool{}
	var rec func(seq []int)
	rec = func(seq []int) {
		if len(seq) > 0 && ops[seq[len(seq)-1]].set == "" { // sequences ending in a judged operation
			seqs++
			bip39.SetWordList("english")
			sel := "english"
			var names []string
			for _, oi := range seq {
				o := ops[oi]
				names = append(names, o.name)
				_, judged := complete[sel]
				what := ""
				switch {
				case o.set != "":
					var err error
					pn := core.Catch(func() { err = bip39.SetWordList(o.set) })
					if pn == nil && err == nil {
						sel = o.set
					}
					if _, builtin := complete[o.set]; builtin && (pn != nil || err != nil) {
						what = fmt.Sprintf("SetWordList(%q) failed: %v %v", o.set, err, pn)
					}
					if o.set == "klingon" && pn == nil && err == nil {
						what = "SetWordList of an unregistered language succeeded"
						sel = "english"
						bip39.SetWordList("english")
					}
				case o.enc != nil:
					var m bip39.Mnemonic
					var err error
					pn := core.Catch(func() { m, err = bip39.EntropyToMnemonic(o.enc) })
					if judged && (pn != nil || err != nil || m.String() != sentence(sel, o.enc).String()) {
						what = fmt.Sprintf("EntropyToMnemonic(%x) with the list %q selected = %q (err %v, panic %v), BIP-39 over that list gives %q", o.enc, sel, m.String(), err, pn, sentence(sel, o.enc).String())
					}
				case o.dec != nil:
					var got []byte
					var err error
					pn := core.Catch(func() { got, err = bip39.MnemonicToEntropy(o.dec) })
					if judged {
						we, ok := expectMemo(sel, oi, o.dec)
						if pn != nil || ok != (err == nil) || ok && !bytes.Equal(got, we) {
							what = fmt.Sprintf("MnemonicToEntropy(%q) with the list %q selected = %x (err %v, panic %v); BIP-39 over that list: valid=%v entropy %x", o.dec.String(), sel, got, err, pn, ok, we)
						}
					}
				case o.seed != nil:
					var got []byte
					var err error
					pn := core.Catch(func() { got, err = bip39.MnemonicToSeed(o.seed, "pw") })
					if judged {
						_, ok := expectMemo(sel, oi, o.seed)
						var want []byte
						if ok {
							k := o.seed.String()
							if seedMemo[k] == nil {
								seedMemo[k], _ = rb39.Seed(o.seed, "pw")
							}
							want = seedMemo[k]
						}
						if pn != nil || ok != (err == nil) || ok && !bytes.Equal(got, want) {
							what = fmt.Sprintf("MnemonicToSeed(%q) with the list %q selected: seed %x err %v panic %v; valid under that list: %v", o.seed.String(), sel, got, err, pn, ok)
						}
					}
				}
				if what != "" {
					c.Violate(id+"/caller-word-list/"+o.name, fmt.Sprintf("after %q: %s", names, what), map[string]interface{}{"operations": names, "selection_by_model": sel}, "", nil)
					break
				}
			}
			states[sel] = true
		}
		if len(seq) == depth {
			return
		}
		for o := range ops {
			rec(append(append([]int{}, seq...), o))
		}
	}
	rec(nil)
	bip39.SetWordList("english")
	c.Eval(seqs)
	c.Set("caller_word_list_sequences", seqs)
	c.Set("caller_word_list_model_states", int64(len(states)))
}
