package checks

import (
	"bytes"
	"context"
	"crypto"
	"encoding"
	"encoding/binary"
	"errors"
	"fmt"
	"math/big"

	"github.com/iotaledger/iota.go/trinary"
	"github.com/wollac/iota-crypto-demo/pkg/bech32"
	"github.com/wollac/iota-crypto-demo/pkg/bech32/address"
	"github.com/wollac/iota-crypto-demo/pkg/bip32path"
	"github.com/wollac/iota-crypto-demo/pkg/bip39"
	"github.com/wollac/iota-crypto-demo/pkg/curl"
	"github.com/wollac/iota-crypto-demo/pkg/ed25519"
	"github.com/wollac/iota-crypto-demo/pkg/encoding/b1t6"
	"github.com/wollac/iota-crypto-demo/pkg/encoding/b1t8"
	"github.com/wollac/iota-crypto-demo/pkg/merkle"
	"github.com/wollac/iota-crypto-demo/pkg/migration"
	"github.com/wollac/iota-crypto-demo/pkg/pow"
	powv2 "github.com/wollac/iota-crypto-demo/pkg/pow/v2"
	"github.com/wollac/iota-crypto-demo/pkg/slip10"
	"github.com/wollac/iota-crypto-demo/pkg/slip10/btccurve"
	"github.com/wollac/iota-crypto-demo/pkg/slip10/eddsa"
	slipelliptic "github.com/wollac/iota-crypto-demo/pkg/slip10/elliptic"
	"github.com/wollac/iota-crypto-demo/pkg/vrf"
)

func fp(v ...interface{}) string { return fmt.Sprintf("%x", fmt.Sprint(v...)) }

func init() {
	edOps := func() []reOp {
		seedA, seedB := bytes.Repeat([]byte{0x21}, 32), bytes.Repeat([]byte{0xD3}, 32)
		kA, kB := ed25519.NewKeyFromSeed(seedA), ed25519.NewKeyFromSeed(seedB)
		m1, m2 := []byte("re-entrancy one"), bytes.Repeat([]byte{9}, 180)
		sigA := ed25519.Sign(kA, m1)
		pubA := kA.Public().(ed25519.PublicKey)
		bad := make([]byte, 32)
		bad[0] = 2
		badR := append(append([]byte{}, bad...), sigA[32:]...)
		return []reOp{
			{"Sign(A)", func() string { return fp(ed25519.Sign(kA, m1)) }},
			{"Sign(B)", func() string { return fp(ed25519.Sign(kB, m2)) }},
			{"NewKeyFromSeed", func() string { return fp(ed25519.NewKeyFromSeed(seedB)) }},
			{"Verify(honest)", func() string { return fp(ed25519.Verify(pubA, m1, sigA)) }},
			{"Verify(undecodable R)", func() string { return fp(ed25519.Verify(pubA, m1, badR)) }},
			{"Verify(undecodable A)", func() string { return fp(ed25519.Verify(bad, m1, sigA)) }},
		}
	}
	reentrancyOps["C01"] = edOps
	reentrancyOps["C07"] = edOps

	slipOps := func() []reOp {
		seed := []byte("re-entrancy seed")
		secp, p256, ed := slipelliptic.Secp256k1(), slipelliptic.Nist256p1(), eddsa.Ed25519()
		parent, _ := slip10.NewMasterKey(seed, secp)
		parentEd, _ := slip10.NewMasterKey(seed, ed)
		ext := func(k *slip10.ExtendedKey, err error) string {
			if err != nil {
				return "err:" + err.Error()
			}
			return fp(k.Key.Bytes(), k.ChainCode, k.Fingerprint())
		}
		kb := be32(big.NewInt(77))
		priv, _ := secp.NewPrivateKey(kb)
		pub := priv.Public()
		return []reOp{
			{"Derive(secp256k1)", func() string { return ext(slip10.DeriveKeyFromPath(seed, secp, []uint32{1 << 31, 1, 2})) }},
			{"Derive(nist256p1)", func() string { return ext(slip10.DeriveKeyFromPath(seed, p256, []uint32{1 << 31, 1})) }},
			{"Derive(ed25519)", func() string { return ext(slip10.DeriveKeyFromPath(seed, ed, []uint32{1 << 31, 1<<31 + 1})) }},
			{"sharedParent.DeriveChild(5)", func() string { return ext(parent.DeriveChild(5)) }},
			{"sharedParent.DeriveChild(5H)", func() string { return ext(parent.DeriveChild(1<<31 + 5)) }},
			{"sharedParent.Public().DeriveChild(5)", func() string { return ext(parent.Public().DeriveChild(5)) }},
			{"sharedEdParent.DeriveChild(0H)", func() string { return ext(parentEd.DeriveChild(1 << 31)) }},
			{"sharedEdParent.DeriveChild(1H)", func() string { return ext(parentEd.DeriveChild(1<<31 + 1)) }},
			{"sharedPriv.Shift", func() string {
				k, err := priv.Shift(be32(big.NewInt(1000)))
				if err != nil {
					return err.Error()
				}
				return fp(k.Bytes(), k.Public().Bytes())
			}},
			{"sharedPub.Shift", func() string {
				k, err := pub.Shift(be32(big.NewInt(1000)))
				if err != nil {
					return err.Error()
				}
				return fp(k.Bytes())
			}},
		}
	}
	reentrancyOps["C02"] = slipOps
	reentrancyOps["C08"] = slipOps

	bipOps := func() []reOp {
		bip39.SetWordList("english")
		e1, e2 := bytes.Repeat([]byte{0x00, 0x5a}, 8), bytes.Repeat([]byte{0xC3}, 64)
		mn1, _ := bip39.EntropyToMnemonic(e1)
		mn2, _ := bip39.EntropyToMnemonic(e2)
		badM := append(bip39.Mnemonic{}, mn1...)
		badM[3] = mn1[4]
		return []reOp{
			{"EntropyToMnemonic(16)", func() string { m, err := bip39.EntropyToMnemonic(e1); return fp(m, err) }},
			{"EntropyToMnemonic(64)", func() string { m, err := bip39.EntropyToMnemonic(e2); return fp(m, err) }},
			{"MnemonicToEntropy(12)", func() string { e, err := bip39.MnemonicToEntropy(mn1); return fp(e, err) }},
			{"MnemonicToEntropy(48)", func() string { e, err := bip39.MnemonicToEntropy(mn2); return fp(e, err) }},
			{"MnemonicToEntropy(invalid)", func() string { e, err := bip39.MnemonicToEntropy(badM); return fp(e, err) }},
			{"MnemonicToSeed(e+combining)", func() string { s, err := bip39.MnemonicToSeed(mn1, "é㍿"); return fp(s, err) }},
			{"ParseMnemonic", func() string { return fp(bip39.ParseMnemonic("　zoo ｚｏｏ\tが\u0085x")) }},
		}
	}
	reentrancyOps["C03"] = bipOps
	reentrancyOps["C09"] = bipOps

	bechOps := func() []reOp {
		d1 := bytes.Repeat([]byte{0xA7}, 33)
		s1, _ := bech32.Encode("iota", d1)
		s2, _ := bech32.Encode("SMR", []byte{1, 2, 3})
		bad := []byte(s1)
		if bad[9] == 'q' {
			bad[9] = 'p'
		} else {
			bad[9] = 'q'
		}
		addrS, _ := bech32.Encode("rms", append([]byte{8}, bytes.Repeat([]byte{3}, 20)...))
		var mig [32]byte
		for i := range mig {
			mig[i] = byte(i * 9)
		}
		migS := migration.Encode(mig)
		migBad := migS[:20] + "9" + migS[21:]
		return []reOp{
			{"Encode(iota)", func() string { s, err := bech32.Encode("iota", d1); return fp(s, err) }},
			{"Encode(SMR)", func() string { s, err := bech32.Encode("SMR", []byte{1, 2, 3}); return fp(s, err) }},
			{"Decode(valid long)", func() string { h, d, err := bech32.Decode(s1); return fp(h, d, err) }},
			{"Decode(valid upper)", func() string { h, d, err := bech32.Decode(s2); return fp(h, d, err) }},
			{"Decode(one substitution)", func() string { h, d, err := bech32.Decode(string(bad)); return fp(h, d, err != nil) }},
			{"ParseBech32", func() string { p, a, err := address.ParseBech32(addrS); return fp(p, a, err) }},
			{"ParseBech32(wrong length)", func() string { _, a, err := address.ParseBech32(s1); return fp(a, err != nil) }},
			{"migration.Encode", func() string { return fp(migration.Encode(mig)) }},
			{"migration.Decode", func() string { a, err := migration.Decode(migS); return fp(a, err) }},
			{"migration.Decode(corrupted)", func() string { _, err := migration.Decode(migBad); return fp(err != nil) }},
		}
	}
	for _, id := range []string{"C04", "C05", "C16", "C19"} {
		reentrancyOps[id] = bechOps
	}

	curlOps := func() []reOp {
		mk := func(salt int, lanes, blocks int) func() string {
			return func() string {
				src := make([]trinary.Trits, lanes)
				for j := range src {
					src[j] = make(trinary.Trits, 243*blocks)
					for i := range src[j] {
						src[j][i] = int8((i*7+j*3+salt)%3) - 1
					}
				}
				cu := curl.NewCurlP81()
				if err := cu.Absorb(src, 243*blocks); err != nil {
					return err.Error()
				}
				cl := cu.Clone()
				dst := make([]trinary.Trits, lanes)
				if err := cu.Squeeze(dst, 486); err != nil {
					return err.Error()
				}
				d2 := make([]trinary.Trits, lanes)
				cl.Squeeze(d2, 243)
				return fp(dst, d2)
			}
		}
		tr := func(generic bool, salt uint) func() string {
			return func() string {
				var lf, hf, lt, ht [curl.StateSize]uint
				for i := range lf {
					lf[i] = uint(uint64(i)*0x9E3779B97F4A7C15) + salt
					hf[i] = ^lf[i] | uint(i)<<7
				}
				if generic {
					curl.VerifTransformGeneric(&lt, &ht, &lf, &hf)
				} else {
					curl.VerifTransform(&lt, &ht, &lf, &hf)
				}
				return fp(lt[:4], ht[725:], lt[364])
			}
		}
		return []reOp{
			{"sponge(1 lane)", mk(1, 1, 1)}, {"sponge(64 lanes, 2 blocks)", mk(2, 64, 2)}, {"sponge(3 lanes)", mk(3, 3, 3)},
			{"transform", tr(false, 1)}, {"transformGeneric", tr(true, 2)}, {"transformGeneric'", tr(true, 3)},
		}
	}
	reentrancyOps["C06"] = curlOps
	reentrancyOps["C20"] = curlOps

	reentrancyOps["C10"] = func() []reOp {
		return []reOp{
			{"ParsePath(valid)", func() string { p, err := bip32path.ParsePath("m/44'/0H/007/2147483647"); return fp(p, err) }},
			{"ParsePath(invalid)", func() string { p, err := bip32path.ParsePath("m/44'/x"); return fp(p, err != nil) }},
			{"String", func() string { return bip32path.Path{1, 1 << 31, 1<<32 - 1}.String() }},
		}
	}

	powOps := func() []reOp {
		data := []byte("reentrant")
		msg := append(append([]byte{}, data...), 1, 2, 3, 4, 5, 6, 7, 8)
		mine1 := func(workers int) func() string {
			return func() string {
				n, err := pow.New(workers).Mine(context.Background(), data, 3)
				if err != nil {
					return err.Error()
				}
				m := append(append([]byte{}, data...), make([]byte, 8)...)
				binary.LittleEndian.PutUint64(m[len(data):], n)
				return fp(pow.Score(m) >= 3)
			}
		}
		mine2 := func(workers int) func() string {
			return func() string {
				d9 := []byte{7} // message length 9, score 6: the big-integer comparison of the lane test is taken often
				n, err := powv2.New(workers).Mine(context.Background(), d9, 6)
				if err != nil {
					return err.Error()
				}
				m := append(append([]byte{}, d9...), make([]byte, 8)...)
				binary.LittleEndian.PutUint64(m[1:], n)
				return fp(powv2.Score(m) >= 6)
			}
		}
		return []reOp{
			{"v1.Score", func() string { return fp(pow.Score(msg)) }},
			{"v2.Score", func() string { return fp(powv2.Score(msg)) }},
			{"v1.Mine(1 worker)", mine1(1)}, {"v1.Mine(3 workers)", mine1(3)},
			{"v2.Mine(1 worker)", mine2(1)}, {"v2.Mine(4 workers)", mine2(4)},
		}
	}
	reentrancyOps["C11"] = powOps
	reentrancyOps["C12"] = powOps
	reentrancyOps["C13"] = powOps

	reentrancyOps["C14"] = func() []reOp {
		src := []byte{0, 1, 0x7f, 0x80, 0xff, 0x55}
		t6 := make(trinary.Trits, b1t6.EncodedLen(len(src)))
		b1t6.Encode(t6, src)
		t8 := make(trinary.Trits, b1t8.EncodedLen(len(src)))
		b1t8.Encode(t8, src)
		ty := b1t6.EncodeToTrytes(src)
		bad6 := append(trinary.Trits{}, t6...)
		bad6[5], bad6[4], bad6[3] = 1, 1, 1
		return []reOp{
			{"b1t6.Encode", func() string { d := make(trinary.Trits, len(t6)); b1t6.Encode(d, src); return fp(d) }},
			{"b1t6.EncodeToTrytes", func() string { return b1t6.EncodeToTrytes(src) }},
			{"b1t6.Decode", func() string { d := make([]byte, 6); n, err := b1t6.Decode(d, t6); return fp(d, n, err) }},
			{"b1t6.Decode(invalid)", func() string { d := make([]byte, 6); n, err := b1t6.Decode(d, bad6); return fp(n, err != nil) }},
			{"b1t6.DecodeTrytes", func() string { d, err := b1t6.DecodeTrytes(ty); return fp(d, err) }},
			{"b1t8.Encode", func() string { d := make(trinary.Trits, len(t8)); b1t8.Encode(d, src); return fp(d) }},
			{"b1t8.Decode", func() string { d := make([]byte, 6); n, err := b1t8.Decode(d, t8); return fp(d, n, err) }},
		}
	}

	reentrancyOps["C15"] = func() []reOp {
		mk := func(h crypto.Hash, n, fail int) func() string {
			return func() string {
				raw := c15Leaves(n, 3)
				data := make([]encoding.BinaryMarshaler, n)
				for i := range data {
					l := &c15leaf{b: raw[i]}
					if i == fail {
						l.err = errors.New("scripted")
					}
					data[i] = l
				}
				r, err := merkle.NewHasher(h).Hash(data)
				return fp(r, err != nil)
			}
		}
		return []reOp{
			{"Hash(SHA-256, n=5)", mk(crypto.SHA256, 5, -1)}, {"Hash(SHA-256, n=33)", mk(crypto.SHA256, 33, -1)},
			{"Hash(BLAKE2b, n=8)", mk(crypto.BLAKE2b_256, 8, -1)}, {"Hash(SHA-256, n=5, leaf 2 fails)", mk(crypto.SHA256, 5, 2)},
			{"Hash(SHA-256, n=600)", mk(crypto.SHA256, 600, -1)}, {"Hash(SHA-256, n=1024)", mk(crypto.SHA256, 1024, -1)},
		}
	}

	reentrancyOps["C17"] = func() []reOp {
		cv := btccurve.Secp256k1()
		gx, gy := cv.Params().Gx, cv.Params().Gy
		x2, y2 := cv.Double(gx, gy)
		n := cv.Params().N
		return []reOp{
			{"Add(G,2G)", func() string { x, y := cv.Add(gx, gy, x2, y2); return fp(x, y) }},
			{"Add(G,G)", func() string { x, y := cv.Add(gx, gy, gx, gy); return fp(x, y) }},
			{"Double(2G)", func() string { x, y := cv.Double(x2, y2); return fp(x, y) }},
			{"ScalarBaseMult(n+2)", func() string { x, y := cv.ScalarBaseMult(new(big.Int).Add(n, big.NewInt(2)).Bytes()); return fp(x, y) }},
			{"ScalarMult(2G, 12345)", func() string { x, y := cv.ScalarMult(x2, y2, big.NewInt(12345).Bytes()); return fp(x, y) }},
			{"IsOnCurve", func() string { return fp(cv.IsOnCurve(x2, y2), cv.IsOnCurve(x2, gy)) }},
		}
	}

	reentrancyOps["C18"] = func() []reOp {
		kA, kB := vrf.NewKeyFromSeed(bytes.Repeat([]byte{4}, 32)), vrf.NewKeyFromSeed(bytes.Repeat([]byte{0xF1}, 32))
		a1, a2 := []byte("alpha one"), []byte{0x11} // 0x11 needs several try-and-increment rounds for many keys
		piA := vrf.Prove(kA, a1).Bytes()
		bad := append([]byte{}, piA...)
		bad[50] ^= 4
		return []reOp{
			{"Prove(A)", func() string { return fp(vrf.Prove(kA, a1).Bytes()) }},
			{"Prove(B)", func() string { return fp(vrf.Prove(kB, a2).Bytes()) }},
			{"Verify(valid)", func() string { ok, b := vrf.Verify(vrf.PublicKey(kA[32:]), a1, piA); return fp(ok, b) }},
			{"Verify(corrupted)", func() string { ok, b := vrf.Verify(vrf.PublicKey(kA[32:]), a1, bad); return fp(ok, b) }},
			{"ProofToHash", func() string { h, err := vrf.ProofToHash(piA); return fp(h, err) }},
		}
	}
}
