package checks

import (
	"bytes"
	"crypto"
	stded "crypto/ed25519"
	"crypto/sha512"
	"errors"
	"fmt"
	"io"
	"sync/atomic"

	"github.com/wollac/iota-crypto-demo/pkg/ed25519"

	"verifharness/core"
)

func init() { core.Register(core.Check{ID: "C07", Level: "exploration", Run: runC07}) }

type c07reader struct {
	data []byte
	err  error
	step int // max bytes per Read (short reads)
}

func (r *c07reader) Read(p []byte) (int, error) {
	if len(r.data) == 0 {
		if r.err != nil {
			return 0, r.err
		}
		return 0, io.EOF
	}
	n := len(p)
	if r.step > 0 && n > r.step {
		n = r.step
	}
	if n > len(r.data) {
		n = len(r.data)
	}
	copy(p, r.data[:n])
	r.data = r.data[n:]
	return n, nil
}

func c07Seeds() [][]byte {
	var seeds [][]byte
	seeds = append(seeds, make([]byte, 32), bytes.Repeat([]byte{0xFF}, 32))
	for bit := 0; bit < 256; bit++ {
		s := make([]byte, 32)
		s[bit/8] = 1 << uint(bit%8)
		seeds = append(seeds, s)
	}
	for i := 0; i < 16; i++ {
		h := sha512.Sum512([]byte{byte(i), 0xC7})
		seeds = append(seeds, h[:32])
	}
	return seeds
}

func runC07(c *core.Ctx) {
	maxLen := 130
	if c.Thorough() {
		maxLen = 300
	}
	c.Rule = fmt.Sprintf("274 seeds (all-00, all-FF, 256 single-bit, 16 fixed) x every message length 0..%d x contents {00.., FF.., ramp}: private key, public key and signature byte-equal to crypto/ed25519, deterministic, accepted by Verify, Signer wrapper equal; every crypto.Hash 1..19 refused; GenerateKey over scripted readers (full, short reads, failing); non-trivial = distinct (seed, message) pairs signed and compared", maxLen)
	seeds := c07Seeds()
	var nontriv atomic.Int64
	core.Par(len(seeds), func(si int) {
		seed := seeds[si]
		priv := ed25519.NewKeyFromSeed(seed)
		std := stded.NewKeyFromSeed(seed)
		c.Eval(1)
		if !bytes.Equal(priv, std) {
			c.Violate("C07/key/private", fmt.Sprintf("seed %x: private key %x, crypto/ed25519 %x", seed, []byte(priv), []byte(std)), fmt.Sprintf("%x", seed), "", nil)
			return
		}
		pub := priv.Public().(ed25519.PublicKey)
		if !bytes.Equal(pub, std.Public().(stded.PublicKey)) || !bytes.Equal(priv.Seed(), seed) {
			c.Violate("C07/key/public", fmt.Sprintf("seed %x: public key / Seed() differ", seed), fmt.Sprintf("%x", seed), "", nil)
			return
		}
		for l := 0; l <= maxLen; l++ {
			for kind := 0; kind < 3; kind++ {
				msg := make([]byte, l)
				for i := range msg {
					switch kind {
					case 1:
						msg[i] = 0xFF
					case 2:
						msg[i] = byte(i*7 + l + si)
					}
				}
				if l == 0 && kind > 0 {
					continue
				}
				keep := append([]byte{}, msg...)
				sig := ed25519.Sign(priv, msg)
				want := stded.Sign(std, msg)
				c.Eval(1)
				nontriv.Add(1)
				cas := map[string]interface{}{"seed": fmt.Sprintf("%x", seed), "msg_len": l, "msg_kind": kind}
				if !bytes.Equal(sig, want) {
					c.Violate("C07/sign/differs", fmt.Sprintf("seed %x, %d-byte message: signature %x, crypto/ed25519 %x", seed, l, sig, want), cas, "", nil)
					continue
				}
				if !bytes.Equal(msg, keep) {
					c.Violate("C07/sign/message-modified", "Sign modified the message", cas, "", nil)
				}
				if !ed25519.Verify(pub, msg, sig) {
					c.Violate("C07/verify/rejects-own", fmt.Sprintf("seed %x, %d-byte message: Verify rejects the signature", seed, l), cas, "", nil)
				}
				if kind == 2 && l%16 == 0 {
					if again := ed25519.Sign(priv, msg); !bytes.Equal(again, sig) {
						c.Violate("C07/sign/nondeterministic", "two signatures differ", cas, "", nil)
					}
					s2, err := priv.Sign(nil, msg, crypto.Hash(0))
					if err != nil || !bytes.Equal(s2, sig) {
						c.Violate("C07/signer/differs", fmt.Sprintf("PrivateKey.Sign(opts=0) = %x, %v", s2, err), cas, "", nil)
					}
					s3, err := priv.Sign(&c07reader{err: errors.New("must not be read")}, msg, crypto.Hash(0))
					if err != nil || !bytes.Equal(s3, sig) {
						c.Violate("C07/signer/uses-rand", "PrivateKey.Sign depends on the reader", cas, "", nil)
					}
				}
			}
		}
		if si%20 == 0 {
			msg := []byte("pre-hashed?")
			for h := crypto.Hash(1); h <= 19; h++ {
				s, err := priv.Sign(nil, msg, h)
				c.Eval(1)
				if err == nil || s != nil {
					c.Violate("C07/signer/accepts-prehash", fmt.Sprintf("PrivateKey.Sign accepted opts.HashFunc()=%d", h), int(h), "", nil)
				}
			}
			s, err := priv.Sign(nil, msg, &c07opts{crypto.SHA512})
			if err == nil || s != nil {
				c.Violate("C07/signer/accepts-prehash", "PrivateKey.Sign accepted a custom SignerOpts with SHA-512", nil, "", nil)
			}
		}
		// GenerateKey over scripted readers
		for _, step := range []int{0, 1, 7, 31} {
			gp, gk, err := ed25519.GenerateKey(&c07reader{data: append(append([]byte{}, seed...), 0xEE, 0xEE), step: step})
			c.Eval(1)
			if err != nil || !bytes.Equal(gk, std) || !bytes.Equal(gp, pub) {
				c.Violate("C07/generate/differs", fmt.Sprintf("GenerateKey(reader of seed %x, read size %d) = %x, %v", seed, step, []byte(gk), err), nil, "", nil)
			}
		}
		if si < 40 {
			for _, n := range []int{0, 1, 31} {
				boom := errors.New("reader failed")
				gp, gk, err := ed25519.GenerateKey(&c07reader{data: append([]byte{}, seed[:n]...), err: boom})
				c.Eval(1)
				if err == nil || gp != nil || gk != nil {
					c.Violate("C07/generate/short-reader", fmt.Sprintf("GenerateKey with %d available bytes returned a key (%v)", n, err), n, "", nil)
				}
			}
		}
	})
	c.Sample(map[string]interface{}{"seed": "00..00 with bit 37 set", "msg_len": 111, "contents": "ramp"})
	c.NonTrivial(nontriv.Load())
	c.SetExhaustive(true)
	c.Assume = []string{"crypto/ed25519 is the RFC 8032 oracle"}
}

type c07opts struct{ h crypto.Hash }

func (o *c07opts) HashFunc() crypto.Hash { return o.h }
