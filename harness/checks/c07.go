package checks

import (
	"bytes"
	"crypto"
	stded "crypto/ed25519"
	"crypto/rsa"
	"crypto/sha512"
	"errors"
	"fmt"
	"io"
	"runtime"
	"sync/atomic"

	"github.com/wollac/iota-crypto-demo/pkg/ed25519"

	"verifharness/core"
)

func init() {
	core.Register(core.Check{ID: "C07", Level: "exploration", Run: func(c *core.Ctx) {
		again := edFirstUse(c, "C07")
		waitArch := background(func() { arch386Pass(c, "C07") })
		runC07(c)
		historyPass(c, "C07")
		reentrancyPass(c, "C07")
		waitArch()
		again()
	}})
}

type c07reader struct {
	data []byte
	err  error
	step int // max bytes per Read (short reads)
}

func (r *c07reader) Read(p []byte) (int, error) {
	if len(r.data) == 0 {
		if r.err != nil {
			return 0, r.err
		}
		return 0, io.EOF
	}
	n := len(p)
	if r.step > 0 && n > r.step {
		n = r.step
	}
	if n > len(r.data) {
		n = len(r.data)
	}
	copy(p, r.data[:n])
	r.data = r.data[n:]
	return n, nil
}

func c07Seeds() [][]byte {
	var seeds [][]byte
	seeds = append(seeds, make([]byte, 32), bytes.Repeat([]byte{0xFF}, 32))
	for bit := 0; bit < 256; bit++ {
		s := make([]byte, 32)
		s[bit/8] = 1 << uint(bit%8)
		seeds = append(seeds, s)
	}
	for i := 0; i < 16; i++ {
		h := sha512.Sum512([]byte{byte(i), 0xC7})
		seeds = append(seeds, h[:32])
	}
	return seeds
}

func runC07(c *core.Ctx) {
	maxLen := 130
	if c.Thorough() {
		maxLen = 300
	}
	c.Rule = fmt.Sprintf("all call histories of length <=3 over 11 operations (sign with two keys, verify honest / undecodable R / undecodable A / non-canonical S / short signature, Signer with a refused hash, GenerateKey with a failing reader, NewKeyFromSeed) on one OS thread: every result must equal crypto/ed25519 regardless of what was called before (no state may leak between calls); aliasing: seeds, messages and keys passed as windows of larger buffers are neither written outside their length nor retained; 274 seeds (all-00, all-FF, 256 single-bit, 16 fixed) x every message length 0..%d x contents {00.., FF.., ramp}: private key, public key and signature byte-equal to crypto/ed25519, deterministic, accepted by Verify, Signer wrapper equal; every crypto.Hash 1..19 refused; GenerateKey over scripted readers (full, short reads, failing); non-trivial = distinct (seed, message) pairs signed and compared", maxLen)
	seeds := c07Seeds()
	var nontriv atomic.Int64
	core.Par(len(seeds), func(si int) {
		seed := seeds[si]
		priv := ed25519.NewKeyFromSeed(seed)
		std := stded.NewKeyFromSeed(seed)
		c.Eval(1)
		if !bytes.Equal(priv, std) {
			c.Violate("C07/key/private", fmt.Sprintf("seed %x: private key %x, crypto/ed25519 %x", seed, []byte(priv), []byte(std)), fmt.Sprintf("%x", seed), "", nil)
			return
		}
		pub := priv.Public().(ed25519.PublicKey)
		if !bytes.Equal(pub, std.Public().(stded.PublicKey)) || !bytes.Equal(priv.Seed(), seed) {
			c.Violate("C07/key/public", fmt.Sprintf("seed %x: public key / Seed() differ", seed), fmt.Sprintf("%x", seed), "", nil)
			return
		}
		for l := 0; l <= maxLen; l++ {
			for kind := 0; kind < 3; kind++ {
				msg := make([]byte, l)
				for i := range msg {
					switch kind {
					case 1:
						msg[i] = 0xFF
					case 2:
						msg[i] = byte(i*7 + l + si)
					}
				}
				if l == 0 && kind > 0 {
					continue
				}
				keep := append([]byte{}, msg...)
				sig := ed25519.Sign(priv, msg)
				want := stded.Sign(std, msg)
				c.Eval(1)
				nontriv.Add(1)
				cas := map[string]interface{}{"seed": fmt.Sprintf("%x", seed), "msg_len": l, "msg_kind": kind}
				if !bytes.Equal(sig, want) {
					c.Violate("C07/sign/differs", fmt.Sprintf("seed %x, %d-byte message: signature %x, crypto/ed25519 %x", seed, l, sig, want), cas, "", nil)
					continue
				}
				if !bytes.Equal(msg, keep) {
					c.Violate("C07/sign/message-modified", "Sign modified the message", cas, "", nil)
				}
				if !ed25519.Verify(pub, msg, sig) {
					c.Violate("C07/verify/rejects-own", fmt.Sprintf("seed %x, %d-byte message: Verify rejects the signature", seed, l), cas, "", nil)
				}
				if kind == 2 && l%16 == 0 {
					if again := ed25519.Sign(priv, msg); !bytes.Equal(again, sig) {
						c.Violate("C07/sign/nondeterministic", "two signatures differ", cas, "", nil)
					}
					s2, err := priv.Sign(nil, msg, crypto.Hash(0))
					if err != nil || !bytes.Equal(s2, sig) {
						c.Violate("C07/signer/differs", fmt.Sprintf("PrivateKey.Sign(opts=0) = %x, %v", s2, err), cas, "", nil)
					}
					s3, err := priv.Sign(&c07reader{err: errors.New("must not be read")}, msg, crypto.Hash(0))
					if err != nil || !bytes.Equal(s3, sig) {
						c.Violate("C07/signer/uses-rand", "PrivateKey.Sign depends on the reader", cas, "", nil)
					}
				}
			}
		}
		if si%20 == 0 {
			msg := []byte("pre-hashed?")
			for h := crypto.Hash(1); h <= 19; h++ {
				s, err := priv.Sign(nil, msg, h)
				c.Eval(1)
				if err == nil || s != nil {
					c.Violate("C07/signer/accepts-prehash", fmt.Sprintf("PrivateKey.Sign accepted opts.HashFunc()=%d", h), int(h), "", nil)
				}
			}
			for name, o := range map[string]crypto.SignerOpts{"custom struct": &c07opts{crypto.SHA512}, "*crypto/ed25519.Options{SHA-512}": &stded.Options{Hash: crypto.SHA512},
				"*rsa.PSSOptions{SHA-256}": &rsa.PSSOptions{Hash: crypto.SHA256}, "custom struct SHA-1": &c07opts{crypto.SHA1}} {
				s, err := priv.Sign(nil, msg, o)
				if err == nil || s != nil {
					c.Violate("C07/signer/accepts-prehash", "PrivateKey.Sign accepted pre-hashed input announced through a "+name, name, "", nil)
				}
			}
			for name, o := range map[string]crypto.SignerOpts{"custom struct, hash 0": &c07opts{crypto.Hash(0)}, "*crypto/ed25519.Options{}": &stded.Options{},
				"*crypto/ed25519.Options{Context: \"x\"} (hash 0: the message is not pre-hashed)": &stded.Options{Context: "x"}} {
				s, err := priv.Sign(nil, msg, o)
				if err != nil || !bytes.Equal(s, stded.Sign(std, msg)) {
					c.Violate("C07/signer/differs", "PrivateKey.Sign with "+name+" differs from Sign", name, "", nil)
				}
			}
			// pre-hashed input looks like a digest: for every hash function a message of exactly its digest length (and the
			// 64 and 32 byte lengths for all of them), announced through every kind of opts value
			for h := crypto.Hash(1); h <= 19; h++ {
				lens := map[int]bool{32: true, 64: true, 20: true, 28: true, 48: true, 16: true}
				if h.Available() {
					lens[h.Size()] = true
				}
				for l := range lens {
					digest := bytes.Repeat([]byte{byte(h)}, l)
					for name, o := range map[string]crypto.SignerOpts{"crypto.Hash": h, "custom struct": &c07opts{h}, "*crypto/ed25519.Options": &stded.Options{Hash: h}, "*crypto/ed25519.Options with context": &stded.Options{Hash: h, Context: "ctx"}} {
						var sg []byte
						var err error
						p := core.Catch(func() { sg, err = priv.Sign(nil, digest, o) })
						c.Eval(1)
						if p != nil || err == nil || sg != nil {
							c.Violate("C07/signer/accepts-prehash", fmt.Sprintf("PrivateKey.Sign accepted a %d-byte digest announced as hash %d through a %s (panic %v)", l, h, name, p), map[string]interface{}{"hash": int(h), "len": l, "opts": name}, "", nil)
						}
					}
				}
			}
			if !bytes.Equal(priv, std) {
				c.Violate("C07/signer/key-modified", "PrivateKey.Sign modified the key it was called on", nil, "", nil)
			}
		}
		// GenerateKey over scripted readers
		for _, step := range []int{0, 1, 7, 31} {
			gp, gk, err := ed25519.GenerateKey(&c07reader{data: append(append([]byte{}, seed...), 0xEE, 0xEE), step: step})
			c.Eval(1)
			if err != nil || !bytes.Equal(gk, std) || !bytes.Equal(gp, pub) {
				c.Violate("C07/generate/differs", fmt.Sprintf("GenerateKey(reader of seed %x, read size %d) = %x, %v", seed, step, []byte(gk), err), nil, "", nil)
			}
		}
		if si < 40 {
			for _, n := range []int{0, 1, 31} {
				boom := errors.New("reader failed")
				gp, gk, err := ed25519.GenerateKey(&c07reader{data: append([]byte{}, seed[:n]...), err: boom})
				c.Eval(1)
				if err == nil || gp != nil || gk != nil {
					c.Violate("C07/generate/short-reader", fmt.Sprintf("GenerateKey with %d available bytes returned a key (%v)", n, err), n, "", nil)
				}
			}
		}
	})
	// every message length up to and beyond the usual stack-buffer sizes (2 KiB, 4 KiB, 8 KiB), and around powers of two
	{
		maxSweep := 4300
		if c.Thorough() {
			maxSweep = 8400
		}
		var lens []int
		for l := 0; l <= maxSweep; l++ {
			lens = append(lens, l)
		}
		for k := 13; k <= 17; k++ {
			for _, d := range []int{-65, -64, -33, -32, -1, 0, 1, 31, 32, 33, 64} {
				lens = append(lens, 1<<uint(k)+d)
			}
		}
		seed := bytes.Repeat([]byte{0x5E}, 32)
		priv, std := ed25519.NewKeyFromSeed(seed), stded.NewKeyFromSeed(seed)
		pub := priv.Public().(ed25519.PublicKey)
		core.Par(len(lens), func(i int) {
			l := lens[i]
			msg := make([]byte, l)
			for k := range msg {
				msg[k] = byte(k*131 + l)
			}
			sig, want := ed25519.Sign(priv, msg), stded.Sign(std, msg)
			c.Eval(1)
			nontriv.Add(1)
			if !bytes.Equal(sig, want) {
				c.Violate("C07/length-sweep/sign-differs", fmt.Sprintf("%d-byte message: signature differs from crypto/ed25519", l), l, "", nil)
			} else if !ed25519.Verify(pub, msg, sig) {
				c.Violate("C07/length-sweep/verify-rejects-own", fmt.Sprintf("%d-byte message: Verify rejects the signature", l), l, "", nil)
			}
			if s2, err := priv.Sign(nil, msg, crypto.Hash(0)); err != nil || !bytes.Equal(s2, want) {
				c.Violate("C07/length-sweep/signer-differs", fmt.Sprintf("%d-byte message: PrivateKey.Sign differs", l), l, "", nil)
			}
		})
	}
	// nil versus empty message, a reader that hands over the last bytes together with io.EOF, a reader longer than needed
	{
		seed := bytes.Repeat([]byte{0x3C}, 32)
		priv, std := ed25519.NewKeyFromSeed(seed), stded.NewKeyFromSeed(seed)
		for _, m := range [][]byte{nil, {}, make([]byte, 0, 64)} {
			if sig := ed25519.Sign(priv, m); !bytes.Equal(sig, stded.Sign(std, m)) || !ed25519.Verify(priv.Public().(ed25519.PublicKey), m, sig) {
				c.Violate("C07/environment/nil-or-empty-message", "signature of a nil / empty message differs from crypto/ed25519 or is rejected", nil, "", nil)
			}
		}
		gp, gk, err := ed25519.GenerateKey(&c07eofReader{data: append([]byte{}, seed...)})
		c.Eval(4)
		if err != nil || !bytes.Equal(gk, std) || !bytes.Equal(gp, std[32:]) {
			c.Violate("C07/environment/reader-data-with-eof", fmt.Sprintf("GenerateKey from a reader that returns the 32 bytes together with io.EOF: %x, %v", []byte(gk), err), nil, "", nil)
		}
		gp, gk, err = ed25519.GenerateKey(&c07eofReader{data: append([]byte{}, seed[:31]...)})
		if err == nil || gp != nil || gk != nil {
			c.Violate("C07/generate/short-reader", "GenerateKey with 31 bytes + EOF returned a key", nil, "", nil)
		}
	}
	c07Histories(c, &nontriv)
	c07Aliasing(c, &nontriv)
	c.Sample(map[string]interface{}{"seed": "00..00 with bit 37 set", "msg_len": 111, "contents": "ramp"})
	c.NonTrivial(nontriv.Load())
	c.SetExhaustive(true)
	c.Assume = []string{"crypto/ed25519 is the RFC 8032 oracle"}
}

type c07opts struct{ h crypto.Hash }

func (o *c07opts) HashFunc() crypto.Hash { return o.h }

// c07Histories: the API is stateless, so the result of a call must not depend on the calls made before it. All
// histories of length <= 3 over an alphabet that includes every early-exit path, on one locked OS thread (pooled or
// cached scratch state is per P / per goroutine in Go, so the leak has to be provoked on the same thread).
func c07Histories(c *core.Ctx, nontriv *atomic.Int64) {
	seedA, seedB := bytes.Repeat([]byte{0x11}, 32), bytes.Repeat([]byte{0xEE}, 32)
	stdA, stdB := stded.NewKeyFromSeed(seedA), stded.NewKeyFromSeed(seedB)
	m1, m2 := []byte("history message one"), bytes.Repeat([]byte{0x5c}, 200)
	sigA := stded.Sign(stdA, m1)
	pubA := []byte(stdA.Public().(stded.PublicKey))
	badPoint := make([]byte, 32)
	badPoint[0] = 2 // y = 2 is not on the curve
	if stded.Verify(badPoint, m1, sigA) {
		c.Abort("y=2 unexpectedly decodes")
		return
	}
	sigBadR := append(append([]byte{}, badPoint...), sigA[32:]...)
	sigBadS := append(append([]byte{}, sigA[:32]...), bytes.Repeat([]byte{0xFF}, 32)...)
	type op struct {
		name string
		run  func() string // returns a fingerprint of the observable result
		want string
	}
	hexs := func(b []byte) string { return fmt.Sprintf("%x", b) }
	ops := []op{
		{"Sign(A,m1)", func() string { return hexs(ed25519.Sign(ed25519.NewKeyFromSeed(seedA), m1)) }, hexs(stded.Sign(stdA, m1))},
		{"Sign(B,m2)", func() string { return hexs(ed25519.Sign(ed25519.NewKeyFromSeed(seedB), m2)) }, hexs(stded.Sign(stdB, m2))},
		{"Verify(honest)", func() string { return fmt.Sprint(ed25519.Verify(pubA, m1, sigA)) }, "true"},
		{"Verify(undecodable R)", func() string { return fmt.Sprint(ed25519.Verify(pubA, m1, sigBadR)) }, "false"},
		{"Verify(undecodable A)", func() string { return fmt.Sprint(ed25519.Verify(badPoint, m1, sigA)) }, "false"},
		{"Verify(S >= L)", func() string { return fmt.Sprint(ed25519.Verify(pubA, m1, sigBadS)) }, "false"},
		{"Verify(63-byte signature)", func() string { return fmt.Sprint(ed25519.Verify(pubA, m1, sigA[:63])) }, "false"},
		{"Verify(other message)", func() string { return fmt.Sprint(ed25519.Verify(pubA, m2, sigA)) }, "false"},
		{"Signer(refused hash)", func() string {
			s, err := ed25519.NewKeyFromSeed(seedA).Sign(nil, m1, crypto.SHA512)
			return fmt.Sprint(s == nil, err != nil)
		}, "true true"},
		{"GenerateKey(failing reader)", func() string {
			p, k, err := ed25519.GenerateKey(&c07reader{data: []byte{1, 2, 3}, err: errors.New("boom")})
			return fmt.Sprint(p == nil, k == nil, err != nil)
		}, "true true true"},
		{"NewKeyFromSeed(B)", func() string { return hexs(ed25519.NewKeyFromSeed(seedB)) }, hexs(stdB)},
	}
	done := make(chan struct{})
	var seqs int64
	go func() {
		defer close(done)
		runtime.LockOSThread()
		defer runtime.UnlockOSThread()
		var rec func(hist []int)
		rec = func(hist []int) {
			if len(hist) > 0 {
				seqs++
				// replay the history; the last call is the one judged (earlier prefixes were judged as shorter histories)
				var got string
				var p interface{}
				for i, o := range hist {
					if i == len(hist)-1 {
						p = core.Catch(func() { got = ops[o].run() })
					} else {
						core.Catch(func() { ops[o].run() })
					}
				}
				last := ops[hist[len(hist)-1]]
				if p != nil || got != last.want {
					names := []string{}
					for _, o := range hist {
						names = append(names, ops[o].name)
					}
					c.Violate("C07/history/"+last.name, fmt.Sprintf("after %v the call %s gives %q (panic %v); crypto/ed25519 / the specification give %q regardless of history", names[:len(names)-1], last.name, got, p, last.want), names, "", nil)
				}
			}
			if len(hist) == 3 {
				return
			}
			for o := range ops {
				rec(append(append([]int{}, hist...), o))
			}
		}
		rec(nil)
	}()
	<-done
	c.Eval(seqs)
	nontriv.Add(seqs)
	c.Set("call_histories", seqs)
}

// c07Aliasing: arguments are windows of larger buffers; nothing outside the window may be written and nothing of the
// window may be retained by the result.
func c07Aliasing(c *core.Ctx, nontriv *atomic.Int64) {
	for i := 0; i < 8; i++ {
		big := make([]byte, 160)
		for k := range big {
			big[k] = byte(k*7 + i)
		}
		keep := append([]byte{}, big...)
		off := i * 4
		seed := big[off : off+32] // capacity reaches far beyond the seed
		std := stded.NewKeyFromSeed(append([]byte{}, seed...))
		priv := ed25519.NewKeyFromSeed(seed)
		c.Eval(1)
		nontriv.Add(1)
		if !bytes.Equal(big, keep) {
			c.Violate("C07/aliasing/seed-buffer-written", "NewKeyFromSeed wrote to the buffer its seed argument is a window of", i, "", nil)
			copy(big, keep)
		}
		for k := range big {
			big[k] = 0 // the caller wipes its buffer
		}
		if !bytes.Equal(priv, std) {
			c.Violate("C07/aliasing/key-retains-seed-buffer", fmt.Sprintf("the private key changed to %x when the caller wiped the seed buffer", []byte(priv)), i, "", nil)
			continue
		}
		msgBuf := make([]byte, 300)
		for k := range msgBuf {
			msgBuf[k] = byte(k + i)
		}
		keepM := append([]byte{}, msgBuf...)
		msg := msgBuf[10 : 10+i*13]
		sig := ed25519.Sign(priv, msg)
		if !bytes.Equal(msgBuf, keepM) || !bytes.Equal(priv, std) {
			c.Violate("C07/aliasing/sign-writes-arguments", "Sign modified the message buffer or the key", i, "", nil)
		}
		sig2 := ed25519.Sign(priv, msg)
		sig2[0] ^= 0xFF
		if !bytes.Equal(sig, stded.Sign(std, msg)) {
			c.Violate("C07/aliasing/signatures-share-memory", "a signature changed when another signature was modified", i, "", nil)
		}
		pub := priv.Public().(ed25519.PublicKey)
		pub[0] ^= 0xFF
		sd := priv.Seed()
		sd[0] ^= 0xFF
		if !bytes.Equal(priv, std) {
			c.Violate("C07/aliasing/accessors-share-memory", "modifying Public() or Seed() results changed the private key", i, "", nil)
		}
		// GenerateKey from a reader whose Read buffer is observed afterwards
		gp, gk, err := ed25519.GenerateKey(&c07reader{data: append([]byte{}, keep[off:off+40]...)})
		if err != nil || !bytes.Equal(gk, std) || !bytes.Equal(gp, std[32:]) {
			c.Violate("C07/aliasing/generate", "GenerateKey differs", i, "", nil)
		} else {
			gp[1] ^= 1
			if !bytes.Equal(gk, std) {
				c.Violate("C07/aliasing/generate-shares-memory", "public and private key returned by GenerateKey share memory", i, "", nil)
			}
		}
	}
}

// c07eofReader returns all its data in one Read call together with io.EOF (allowed by the io.Reader contract).
type c07eofReader struct{ data []byte }

func (r *c07eofReader) Read(p []byte) (int, error) {
	n := copy(p, r.data)
	r.data = r.data[n:]
	if len(r.data) == 0 {
		return n, io.EOF
	}
	return n, nil
}
