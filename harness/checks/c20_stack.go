package checks

// Stack-position sweep (C20, C06): the permutation must give the same result from whatever goroutine and call depth it
// is entered. Every goroutine starts with a small stack that is copied to a larger one when a frame does not fit; code
// that carries addresses of stack objects as integers across such a copy (a pointer converted to uintptr before a call
// that can grow the stack) reads and writes the abandoned stack - outside the buffers it was given. The sweep enters the
// public API from fresh goroutines at every recursion depth 0..N and four word offsets, so that the permutation's frames
// meet every remaining-stack value in steps of one word over more than one doubling of the stack.

import (
	"bytes"
	"fmt"
	"sync"

	"github.com/iotaledger/iota.go/trinary"
	"github.com/wollac/iota-crypto-demo/pkg/curl"

	"verifharness/bitexec/refcurl"
	"verifharness/core"
)

//go:noinline
func c20HashAtDepth(depth int, msg trinary.Trits) trinary.Trits {
	if depth > 0 {
		return c20HashAtDepth(depth-1, msg)
	}
	return c20Hash1(msg)
}

//go:noinline
func c20Hash1(msg trinary.Trits) trinary.Trits {
	cu := curl.NewCurlP81()
	if err := cu.Absorb([]trinary.Trits{msg}, len(msg)); err != nil {
		panic(err)
	}
	dst := make([]trinary.Trits, 1)
	if err := cu.Squeeze(dst, 243); err != nil {
		panic(err)
	}
	return dst[0]
}

//go:noinline
func c20Keep(x []uint64, t trinary.Trits) trinary.Trits {
	x[0] = uint64(len(t))
	return t
}

//go:noinline
func c20Padded(pad, depth int, msg trinary.Trits) trinary.Trits {
	switch pad {
	case 1:
		var x [1]uint64
		return c20Keep(x[:], c20HashAtDepth(depth, msg))
	case 2:
		var x [2]uint64
		return c20Keep(x[:], c20HashAtDepth(depth, msg))
	case 3:
		var x [3]uint64
		return c20Keep(x[:], c20HashAtDepth(depth, msg))
	}
	return c20HashAtDepth(depth, msg)
}

func c20StackSweep(c *core.Ctx, id string) {
	msg := make(trinary.Trits, 243)
	for i := range msg {
		msg[i] = int8((i*5+i/7)%3) - 1
	}
	want, err := refcurl.Sum(msg, 243)
	if err != nil {
		c.Abort("reference: %v", err)
		return
	}
	maxDepth := 3000
	if c.Thorough() {
		maxDepth = 9000
	}
	var mu sync.Mutex
	bad := 0
	first := ""
	sem := make(chan struct{}, 32)
	var wg sync.WaitGroup
	for depth := 0; depth <= maxDepth; depth++ {
		for pad := 0; pad < 4; pad++ {
			wg.Add(1)
			sem <- struct{}{}
			go func(pad, depth int) { // a fresh goroutine: a fresh, small stack
				defer wg.Done()
				defer func() { <-sem }()
				var got trinary.Trits
				p := core.Catch(func() { got = c20Padded(pad, depth, msg) })
				if p != nil || !bytes.Equal(int8bytes(got), int8bytes(want)) {
					mu.Lock()
					bad++
					if first == "" {
						first = fmt.Sprintf("entered %d frames (+%d words) deep in a fresh goroutine, the hash of a fixed 243-trit message is %v... (panic %v) instead of %v...", depth, pad, got[:min(9, len(got))], p, want[:9])
					}
					mu.Unlock()
				}
			}(pad, depth)
		}
	}
	wg.Wait()
	c.Eval(int64(4 * (maxDepth + 1)))
	c.Set("stack_positions_swept", int64(4*(maxDepth+1)))
	if bad > 0 {
		c.Violate(id+"/stack-position", fmt.Sprintf("%d of %d stack positions give a wrong hash: %s", bad, 4*(maxDepth+1), first), nil, "", nil)
	}
}
