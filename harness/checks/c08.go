package checks

import (
	"bytes"
	stdelliptic "crypto/elliptic"
	"errors"
	"fmt"
	"math/big"

	"github.com/wollac/iota-crypto-demo/pkg/slip10"
	"github.com/wollac/iota-crypto-demo/pkg/slip10/btccurve"
	slipelliptic "github.com/wollac/iota-crypto-demo/pkg/slip10/elliptic"

	"verifharness/core"
	rs "verifharness/ref/slip10"
)

func init() {
	core.Register(core.Check{ID: "C08", Level: "exploration", Run: func(c *core.Ctx) {
		waitArch := background(func() { arch386Pass(c, "C08") })
		runC08(c)
		historyPass(c, "C08")
		reentrancyPass(c, "C08")
		waitArch()
	}})
}

type c08curve struct {
	name string
	impl slip10.Curve
	ref  rs.Weier
}

func c08Curves() []c08curve {
	return []c08curve{
		{"secp256k1", slipelliptic.Secp256k1(), rs.Secp256k1()},
		{"nist256p1", slipelliptic.Nist256p1(), rs.Nist256p1()},
	}
}

// c08RawCurves: every exported curve object a caller can put into the Curve field of a key of the named curve.
func c08RawCurves(name string) map[string]stdelliptic.Curve {
	if name == "nist256p1" {
		return map[string]stdelliptic.Curve{"crypto/elliptic.P256()": stdelliptic.P256(), "P256().Params() (generic arithmetic)": stdelliptic.P256().Params()}
	}
	return map[string]stdelliptic.Curve{"btccurve.Secp256k1()": btccurve.Secp256k1(), "btccurve.Secp256k1().Params() (generic arithmetic is only valid for a=-3; skipped)": nil}
}

func be32(v *big.Int) []byte { return v.FillBytes(make([]byte, 32)) }

func runC08(c *core.Ctx) {
	c.Rule = "per curve: all pairs of 18 private scalars x ~40 32-byte shifts (0, 1, k, 2k, n-k, n-k+-1, n-1, n, n+1, 2^256-1, fixed) through PrivateKey.Shift and PublicKey.Shift; 6 extended parents x non-hardened indices (quick: 0..63 and 2^31-64..2^31-1, thorough: 0..255 and 2^31-256..2^31-1) through DeriveChild on the private and on the public side; oracle: SLIP-0010 reference over affine math/big arithmetic; non-trivial = distinct (curve, scalar, shift) pairs + distinct (curve, parent, index) derivations"
	var nontriv int64
	two256 := new(big.Int).Lsh(big.NewInt(1), 256)
	for _, cv := range c08Curves() {
		n := cv.ref.C.N
		var ks []*big.Int
		for _, v := range []int64{1, 2, 3, 5} {
			ks = append(ks, big.NewInt(v))
		}
		ks = append(ks, new(big.Int).Rsh(new(big.Int).Sub(n, big.NewInt(1)), 1), new(big.Int).Rsh(new(big.Int).Add(n, big.NewInt(1)), 1),
			new(big.Int).Sub(n, big.NewInt(2)), new(big.Int).Sub(n, big.NewInt(1)))
		for i := 0; i < 10; i++ {
			k := new(big.Int).Exp(big.NewInt(int64(5+i)), big.NewInt(int64(131+17*i)), n)
			ks = append(ks, k)
		}
		type job struct{ k, s *big.Int }
		var jobs []job
		for _, k := range ks {
			var ss []*big.Int
			add := func(v *big.Int) {
				if v.Sign() >= 0 && v.Cmp(two256) < 0 {
					ss = append(ss, v)
				}
			}
			add(big.NewInt(0))
			add(big.NewInt(1))
			add(new(big.Int).Set(k))
			add(new(big.Int).Mod(new(big.Int).Lsh(k, 1), n))
			nk := new(big.Int).Sub(n, k)
			add(nk)
			add(new(big.Int).Add(nk, big.NewInt(1)))
			add(new(big.Int).Sub(nk, big.NewInt(1)))
			add(new(big.Int).Add(nk, n)) // n-k+n: >= n, would alias the negation if reduced
			add(new(big.Int).Sub(n, big.NewInt(1)))
			add(new(big.Int).Set(n))
			add(new(big.Int).Add(n, big.NewInt(1)))
			add(new(big.Int).Add(n, k))
			add(new(big.Int).Sub(two256, big.NewInt(1)))
			add(new(big.Int).Sub(two256, k))
			for i := 0; i < 8; i++ {
				add(new(big.Int).Exp(big.NewInt(int64(7+i)), big.NewInt(int64(101+i*29)), two256))
			}
			for _, s := range ss {
				jobs = append(jobs, job{k, s})
			}
		}
		core.Par(len(jobs), func(ji int) {
			k, s := jobs[ji].k, jobs[ji].s
			kb, sb := be32(k), be32(s)
			cas := map[string]interface{}{"curve": cv.name, "scalar": fmt.Sprintf("%x", kb), "shift": fmt.Sprintf("%x", sb)}
			class := "generic"
			switch {
			case s.Sign() == 0:
				class = "shift=0"
			case s.Cmp(n) >= 0:
				class = "shift>=n"
			case s.Cmp(k) == 0:
				class = "shift=k"
			case new(big.Int).Add(s, k).Cmp(n) == 0:
				class = "shift=n-k"
			}
			key := fmt.Sprintf("C08/%s/shift/%s", cv.name, class)
			gt := fmt.Sprintf("func TestC08(t *testing.T) { k,_ := hex.DecodeString(\"%x\"); s,_ := hex.DecodeString(\"%x\"); priv,_ := elliptic.%s().NewPrivateKey(k); a, ea := priv.Shift(s); b, eb := priv.Public().Shift(s); t.Log(a, ea, b, eb) }", kb, sb, map[string]string{"secp256k1": "Secp256k1", "nist256p1": "Nist256p1"}[cv.name])
			var priv slip10.Key
			var err error
			if p := core.Catch(func() { priv, err = cv.impl.NewPrivateKey(kb) }); p != nil || err != nil {
				c.Violate(key+"/newkey", fmt.Sprintf("NewPrivateKey(%x): %v %v", kb, p, err), cas, gt, nil)
				return
			}
			var pub slip10.Key
			if p := core.Catch(func() { pub = priv.Public() }); p != nil {
				c.Violate(key+"/public-panic", fmt.Sprintf("Public() of %x panicked: %v", kb, p), cas, gt, nil)
				return
			}
			if want := cv.ref.Pub(kb); !bytes.Equal(pub.Bytes(), want) {
				c.Violate(key+"/public-wrong", fmt.Sprintf("Public().Bytes() = %x want %x", pub.Bytes(), want), cas, gt, nil)
			}
			var a, b slip10.Key
			var ea, eb error
			pa := core.Catch(func() { a, ea = priv.Shift(append([]byte{}, sb...)) })
			pb := core.Catch(func() { b, eb = pub.Shift(append([]byte{}, sb...)) })
			c.Eval(1)
			wantPriv, wok := cv.ref.ChildPriv(kb, sb)
			wantPub, wok2 := cv.ref.ChildPub(cv.ref.Pub(kb), sb)
			if wok != wok2 {
				c.Abort("reference disagrees with itself on %v", cas)
				return
			}
			if pa != nil || pb != nil {
				c.Violate(key+"/panic", fmt.Sprintf("private Shift panic=%v, public Shift panic=%v", pa, pb), cas, gt, nil)
				return
			}
			ia, ib := errors.Is(ea, slip10.ErrInvalidKey), errors.Is(eb, slip10.ErrInvalidKey)
			if (ea != nil && !ia) || (eb != nil && !ib) {
				c.Violate(key+"/other-error", fmt.Sprintf("errors %v / %v", ea, eb), cas, gt, nil)
				return
			}
			if ia != ib {
				c.Violate(key+"/disagree", fmt.Sprintf("private Shift invalid=%v but public Shift invalid=%v", ia, ib), cas, gt, nil)
				return
			}
			if ia == wok {
				c.Violate(key+"/validity", fmt.Sprintf("both sides say invalid=%v, SLIP-0010 says invalid=%v", ia, !wok), cas, gt, nil)
				return
			}
			if !ia {
				var ap []byte
				if p := core.Catch(func() { ap = a.Public().Bytes() }); p != nil {
					c.Violate(key+"/child-public-panic", fmt.Sprint(p), cas, gt, nil)
					return
				}
				if !bytes.Equal(ap, b.Bytes()) {
					c.Violate(key+"/mismatch", fmt.Sprintf("public of shifted private %x != shifted public %x", ap, b.Bytes()), cas, gt, nil)
				}
				if !bytes.Equal(a.Bytes(), wantPriv) || !bytes.Equal(b.Bytes(), wantPub) {
					c.Violate(key+"/wrong", fmt.Sprintf("shifted keys %x / %x, reference %x / %x", a.Bytes(), b.Bytes(), wantPriv, wantPub), cas, gt, nil)
				}
				if !bytes.Equal(priv.Bytes(), kb) {
					c.Violate(key+"/receiver-modified", "Shift modified the receiver", cas, gt, nil)
				}
			}
			// the same pair on keys the CALLER assembled from the exported fields, with every curve object that denotes this
			// curve (the package's own wrapper is only one of them): same specification, same results
			pk, _ := pub.(*slipelliptic.PublicKey)
			if pk == nil {
				return
			}
			for rname, raw := range c08RawCurves(cv.name) {
				if raw == nil {
					continue
				}
				privR := &slipelliptic.PrivateKey{K: new(big.Int).Set(k), Curve: raw}
				pubR := &slipelliptic.PublicKey{X: new(big.Int).Set(pk.X), Y: new(big.Int).Set(pk.Y), Curve: raw}
				var a2, b2, p2 slip10.Key
				var ea2, eb2 error
				if p := core.Catch(func() {
					a2, ea2 = privR.Shift(append([]byte{}, sb...))
					b2, eb2 = pubR.Shift(append([]byte{}, sb...))
					p2 = privR.Public()
				}); p != nil {
					c.Violate(key+"/caller-built-key/panic", fmt.Sprintf("keys built with Curve: %s: %v", rname, p), cas, gt, nil)
					continue
				}
				c.Eval(1)
				if !bytes.Equal(p2.Bytes(), cv.ref.Pub(kb)) {
					c.Violate(key+"/caller-built-key/public-wrong", fmt.Sprintf("PrivateKey{K, Curve: %s}.Public() = %x, want %x", rname, p2.Bytes(), cv.ref.Pub(kb)), cas, gt, nil)
				}
				if (ea2 == nil) != wok || (eb2 == nil) != wok {
					c.Violate(key+"/caller-built-key/validity", fmt.Sprintf("keys built with Curve: %s: private Shift err=%v, public Shift err=%v, SLIP-0010 says valid=%v", rname, ea2, eb2, wok), cas, gt, nil)
					continue
				}
				if wok && (!bytes.Equal(a2.Bytes(), wantPriv) || !bytes.Equal(b2.Bytes(), wantPub) || !bytes.Equal(a2.Public().Bytes(), wantPub)) {
					c.Violate(key+"/caller-built-key/wrong", fmt.Sprintf("keys built with Curve: %s: shifted keys %x / %x, reference %x / %x", rname, a2.Bytes(), b2.Bytes(), wantPriv, wantPub), cas, gt, nil)
				}
			}
		})
		nontriv += int64(len(jobs))
		c.Sample(map[string]interface{}{"curve": cv.name, "scalar": "5", "shift": "n-5", "expect": "both invalid"})

		// ---- extended keys ----
		span := 64
		if c.Thorough() {
			span = 256
		}
		var idxs []uint32
		for i := 0; i < span; i++ {
			idxs = append(idxs, uint32(i), uint32(1<<31)-uint32(span)+uint32(i))
		}
		seeds := [][]byte{bytes.Repeat([]byte{0}, 16), bytes.Repeat([]byte{0xFF}, 16), []byte("0123456789abcdef"), {1}}
		type parent struct {
			impl *slip10.ExtendedKey
			ref  rs.Node
			name string
		}
		var parents []parent
		for si, sd := range seeds {
			m, err := slip10.NewMasterKey(sd, cv.impl)
			if err != nil {
				c.Violate("C08/"+cv.name+"/master", err.Error(), sd, "", nil)
				continue
			}
			rm := rs.Master(cv.ref, sd)
			parents = append(parents, parent{m, rm, fmt.Sprintf("seed%d:m", si)})
			if si < 2 {
				ch, err := m.DeriveChild(1<<31 + 7)
				rch, _ := rm.Child(cv.ref, 1<<31+7)
				if err == nil {
					parents = append(parents, parent{ch, rch, fmt.Sprintf("seed%d:m/7H", si)})
				}
			}
		}
		// extended keys the caller restored from stored material (exported fields, raw curve objects, the chain code and
		// the key as windows of one larger buffer)
		for si, sd := range seeds[:2] {
			rm := rs.Master(cv.ref, sd)
			for rname, raw := range c08RawCurves(cv.name) {
				if raw == nil {
					continue
				}
				blob := append(append(append([]byte{0xEE}, rm.Priv...), rm.Chain...), 0xEE, 0xEE, 0xEE, 0xEE, 0xEE, 0xEE, 0xEE, 0xEE)
				ek := &slip10.ExtendedKey{ChainCode: blob[33:65], Key: &slipelliptic.PrivateKey{K: new(big.Int).SetBytes(blob[1:33]), Curve: raw}}
				parents = append(parents, parent{ek, rs.Node{Priv: rm.Priv, Pub: rm.Pub, Chain: rm.Chain}, fmt.Sprintf("seed%d:m restored by the caller with Curve: %s", si, rname)})
			}
		}
		type ej struct {
			p parent
			i uint32
		}
		var ejobs []ej
		for _, p := range parents {
			for _, i := range idxs {
				ejobs = append(ejobs, ej{p, i})
			}
			// indices whose I_L starts with a zero byte (a short big-endian shift) or with FF: scanned with an own HMAC
			zero, ff := 0, 0
			for i := uint32(0); i < 8192 && (zero < 8 || ff < 2); i++ {
				I := c02mac(p.ref.Chain, p.ref.Pub, []byte{byte(i >> 24), byte(i >> 16), byte(i >> 8), byte(i)})
				if I[0] == 0 && zero < 8 {
					zero++
					ejobs = append(ejobs, ej{p, i})
				} else if I[0] == 0xFF && ff < 2 {
					ff++
					ejobs = append(ejobs, ej{p, i})
				}
			}
		}
		core.Par(len(ejobs), func(k int) {
			p, i := ejobs[k].p, ejobs[k].i
			cas := map[string]interface{}{"curve": cv.name, "parent": p.name, "index": i}
			key := "C08/" + cv.name + "/derive"
			var a, b *slip10.ExtendedKey
			var ea, eb error
			pa := core.Catch(func() { a, ea = p.impl.DeriveChild(i) })
			pb := core.Catch(func() { b, eb = p.impl.Public().DeriveChild(i) })
			c.Eval(1)
			if pa != nil || pb != nil {
				c.Violate(key+"/panic", fmt.Sprintf("%v / %v", pa, pb), cas, "", nil)
				return
			}
			if ea != nil || eb != nil {
				c.Violate(key+"/error", fmt.Sprintf("%v / %v", ea, eb), cas, "", nil)
				return
			}
			ap := a.Public()
			if !bytes.Equal(ap.Key.Bytes(), b.Key.Bytes()) || !bytes.Equal(ap.ChainCode, b.ChainCode) || !bytes.Equal(ap.Fingerprint(), b.Fingerprint()) || !bytes.Equal(a.Fingerprint(), b.Fingerprint()) {
				c.Violate(key+"/not-commuting", fmt.Sprintf("N(CKDpriv): key %x chain %x fpr %x; CKDpub(N): key %x chain %x fpr %x", ap.Key.Bytes(), ap.ChainCode, ap.Fingerprint(), b.Key.Bytes(), b.ChainCode, b.Fingerprint()), cas, "", nil)
			}
			r, _ := p.ref.Child(cv.ref, i)
			rp, _ := p.ref.Public().Child(cv.ref, i)
			if !bytes.Equal(a.Key.Bytes(), r.Priv) || !bytes.Equal(a.ChainCode, r.Chain) || !bytes.Equal(b.Key.Bytes(), rp.Pub) || !bytes.Equal(b.ChainCode, rp.Chain) || !bytes.Equal(b.Fingerprint(), rp.Fingerprint()) {
				c.Violate(key+"/differs-from-spec", fmt.Sprintf("child key %x chain %x; SLIP-0010 reference key %x chain %x", a.Key.Bytes(), a.ChainCode, r.Priv, r.Chain), cas, "", nil)
			}
			if b.IsPrivate() || !a.IsPrivate() {
				c.Violate(key+"/kind", "wrong key kind", cas, "", nil)
			}
		})
		nontriv += int64(len(ejobs))
	}
	c.NonTrivial(nontriv)
	c.SetExhaustive(true)
	c.Assume = []string{"ref/wei affine arithmetic and ref/slip10 (validated against SLIP-0010 test vector 1 on all three curves)"}
}
