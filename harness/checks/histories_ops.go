package checks

import (
	"bytes"
	"crypto"
	stded "crypto/ed25519"
	"crypto/sha256"
	"encoding"
	"errors"
	"fmt"
	"math/big"
	"strings"

	"github.com/iotaledger/iota.go/trinary"
	"github.com/wollac/iota-crypto-demo/pkg/bech32"
	"github.com/wollac/iota-crypto-demo/pkg/bech32/address"
	"github.com/wollac/iota-crypto-demo/pkg/bip32path"
	"github.com/wollac/iota-crypto-demo/pkg/bip39"
	"github.com/wollac/iota-crypto-demo/pkg/ed25519"
	"github.com/wollac/iota-crypto-demo/pkg/encoding/b1t6"
	"github.com/wollac/iota-crypto-demo/pkg/encoding/b1t8"
	"github.com/wollac/iota-crypto-demo/pkg/merkle"
	"github.com/wollac/iota-crypto-demo/pkg/migration"
	"github.com/wollac/iota-crypto-demo/pkg/slip10"
	"github.com/wollac/iota-crypto-demo/pkg/slip10/btccurve"
	"github.com/wollac/iota-crypto-demo/pkg/slip10/eddsa"
	slipelliptic "github.com/wollac/iota-crypto-demo/pkg/slip10/elliptic"
	"github.com/wollac/iota-crypto-demo/pkg/vrf"

	"verifharness/core"
	rb "verifharness/ref/bech32"
	rb39 "verifharness/ref/bip39"
	"verifharness/ref/ed"
	rs "verifharness/ref/slip10"
	rvrf "verifharness/ref/vrf"
	"verifharness/ref/wei"
)

// saltBytes: n bytes derived from (salt, tag); salt 0 gives the constant filling used by the canonical pass.
func saltBytes(salt int, tag byte, n int) []byte {
	if salt == 0 {
		return bytes.Repeat([]byte{tag}, n)
	}
	h := sha256.Sum256([]byte(fmt.Sprintf("history salt %d tag %d", salt, tag)))
	out := make([]byte, 0, n)
	for len(out) < n {
		out = append(out, h[:]...)
		h = sha256.Sum256(h[:])
	}
	return out[:n]
}

func init() {
	// ---------------- ed25519 (C01, C07) ----------------
	edOps := func(c *core.Ctx, salt int) []hOp {
		seedA, seedB := saltBytes(salt, 0x31, 32), saltBytes(salt, 0xC2, 32)
		stdA, stdB := stded.NewKeyFromSeed(seedA), stded.NewKeyFromSeed(seedB)
		pubA, pubB := []byte(stdA[32:]), []byte(stdB[32:])
		m1, m2 := append([]byte("history: message one"), byte(salt), byte(salt>>8)), saltBytes(salt, 0x6b, 150)
		sigA, sigB := stded.Sign(stdA, m1), stded.Sign(stdB, m2)
		bad := make([]byte, 32)
		bad[0] = 2
		small := ed.SmallOrderEncodings()
		zeroS := make([]byte, 32)
		ver := func(name string, pub, msg, sig []byte) hOp {
			return hOp{name, fp(ed.VerifyZIP215(pub, msg, sig)), func(a *arena) string {
				return fp(ed25519.Verify(ed25519.PublicKey(a.buf(0, pub)), a.buf(1, msg), a.buf(2, sig)))
			}}
		}
		sign := func(name string, std stded.PrivateKey, msg []byte, want string) hOp {
			return hOp{name, want, func(a *arena) string {
				sig := ed25519.Sign(ed25519.PrivateKey(a.buf(4, std)), a.buf(1, msg))
				f := fp(sig)
				scribble(sig)
				return f
			}}
		}
		mixed := append(append([]byte{}, seedB...), pubA...) // inconsistent private key: seed of B, public half of A
		sweep := methodSweepOp("every exported method of PublicKey and PrivateKey", func() ([]interface{}, []interface{}) {
			kA, kB := ed25519.NewKeyFromSeed(append([]byte{}, seedA...)), ed25519.NewKeyFromSeed(append([]byte{}, seedB...))
			return []interface{}{kA.Public().(ed25519.PublicKey), kA}, []interface{}{kB.Public().(ed25519.PublicKey), kB, append([]byte{}, m1...), crypto.Hash(0)}
		})
		return []hOp{sweep,
			ver("Verify(A)", pubA, m1, sigA), ver("Verify(B)", pubB, m2, sigB), ver("Verify(B's signature under A)", pubA, m2, sigB),
			ver("Verify(undecodable key)", bad, m1, sigA), ver("Verify(undecodable R)", pubA, m1, append(append([]byte{}, bad...), sigA[32:]...)),
			ver("Verify(small-order A and R, S=0)", small[3][:], m1, append(append([]byte{}, small[6][:]...), zeroS...)),
			sign("Sign(A)", stdA, m1, fp(sigA)), sign("Sign(B)", stdB, m2, fp(sigB)),
			sign("Sign(inconsistent key: seed B, public half A)", stded.PrivateKey(mixed), m1, "*"),
			{"PrivateKey.Sign(A, opts=0)", fp(sigA, nil), func(a *arena) string {
				sig, err := ed25519.PrivateKey(a.buf(4, stdA)).Sign(nil, a.buf(1, m1), crypto.Hash(0))
				f := fp(sig, err)
				scribble(sig)
				return f
			}},
			{"PrivateKey.Sign(A, *ed25519.Options{SHA-512})", fp([]byte(nil), true), func(a *arena) string {
				sig, err := ed25519.PrivateKey(a.buf(4, stdA)).Sign(nil, a.buf(1, m1), &stded.Options{Hash: crypto.SHA512})
				return fp(sig, err != nil)
			}},
			{"NewKeyFromSeed(A)", fp([]byte(stdA), pubA, seedA), func(a *arena) string {
				k := ed25519.NewKeyFromSeed(a.buf(3, seedA))
				pub := k.Public().(ed25519.PublicKey)
				sd := k.Seed()
				f := fp([]byte(k), []byte(pub), sd)
				scribble(k, pub, sd)
				return f
			}},
		}
	}
	historyOps["C01"] = edOps
	historyOps["C07"] = edOps

	// ---------------- bip39 (C03, C09) ----------------
	bipOps := func(c *core.Ctx, salt int) []hOp {
		bip39.SetWordList("english")
		words := c03ReadList(c, "english")
		if words == nil {
			return nil
		}
		toM := func(e []byte) []string {
			var m []string
			for _, i := range rb39.Indices(e) {
				m = append(m, words[i])
			}
			return m
		}
		e1, e2 := append([]byte{0, 0}, saltBytes(salt, 0x5a, 14)...), saltBytes(salt, 0xC3, 48)
		w1, w2 := toM(e1), toM(e2)
		badCk := append([]string{}, w1...)
		for r := 10; r >= 0; r-- { // a last word that the reference rejects (a random replacement is valid with probability 1/16)
			idx := rb39.Indices(e1)
			if idx[r] == idx[11] {
				continue
			}
			idx[11] = idx[r]
			if _, _, ok := rb39.FromIndices(idx); !ok {
				badCk[11] = w1[r]
				break
			}
		}
		mslot := make([]string, 0, 64) // the caller's re-used sentence slice
		mn := func(w []string) bip39.Mnemonic {
			mslot = append(mslot[:0], w...)
			return bip39.Mnemonic(mslot)
		}
		enc := func(name string, e []byte, want []string) hOp {
			return hOp{name, fp(want, nil), func(a *arena) string {
				m, err := bip39.EntropyToMnemonic(a.buf(0, e))
				f := fp([]string(m), err)
				for i := range m {
					m[i] = "overwritten"
				}
				return f
			}}
		}
		dec := func(name string, w []string, wantE []byte, wantErr error) hOp {
			return hOp{name, fp(wantE, wantErr), func(a *arena) string {
				e, err := bip39.MnemonicToEntropy(mn(w))
				var cls error
				for _, k := range []error{bip39.ErrInvalidChecksum, bip39.ErrInvalidMnemonic, bip39.ErrInvalidEntropySize} {
					if errors.Is(err, k) {
						cls = k
					}
				}
				f := fp(e, cls)
				scribble(e)
				for i := range mslot {
					mslot[i] = "wiped"
				}
				return f
			}}
		}
		seedOf := func(w []string, pass string) []byte { s, _ := rb39.Seed(w, pass); return s }
		seed := func(name string, w []string, pass string) hOp {
			return hOp{name, fp(seedOf(w, pass), nil), func(a *arena) string {
				s, err := bip39.MnemonicToSeed(mn(w), pass)
				f := fp(s, err)
				scribble(s)
				return f
			}}
		}
		parseIn := "　zoo Ａ\tが x"
		parseWant, perr := rb39.Parse(parseIn)
		if perr != nil {
			c.Abort("history ops: reference parser: %v", perr)
			return nil
		}
		return []hOp{
			enc("EntropyToMnemonic(e1)", e1, w1), enc("EntropyToMnemonic(e2)", e2, w2),
			dec("MnemonicToEntropy(m1)", w1, e1, nil), dec("MnemonicToEntropy(m2)", w2, e2, nil),
			dec("MnemonicToEntropy(bad checksum)", badCk, nil, bip39.ErrInvalidChecksum),
			seed("MnemonicToSeed(m1, e-acute)", w1, "é"), seed("MnemonicToSeed(m1, e + combining acute)", w1, "é"), seed("MnemonicToSeed(m2, empty)", w2, ""),
			{"MnemonicToSeed(bad checksum)", fp([]byte(nil), true), func(a *arena) string {
				s, err := bip39.MnemonicToSeed(mn(badCk), "x")
				return fp(s, err != nil)
			}},
			{"UnmarshalText(plain ASCII sentence in a re-used buffer)", fp(w1), func(a *arena) string {
				var m bip39.Mnemonic
				if err := m.UnmarshalText(a.buf(2, []byte(strings.Join(w1, " ")))); err != nil {
					return err.Error()
				}
				a.hold = func() string { return fp([]string(m)) }
				return fp([]string(m))
			}},
			{"UnmarshalText(tabs and newline)", fp(w1), func(a *arena) string {
				var m bip39.Mnemonic
				if err := m.UnmarshalText(a.buf(2, []byte("\t"+strings.Join(w1, "\t")+"\n"))); err != nil {
					return err.Error()
				}
				a.hold = func() string { return fp([]string(m)) }
				return fp([]string(m))
			}},
			{"ParseMnemonic", fp(parseWant), func(a *arena) string {
				m := bip39.ParseMnemonic(parseIn)
				f := fp([]string(m))
				for i := range m {
					m[i] = "overwritten"
				}
				return f
			}},
		}
	}
	historyOps["C03"] = bipOps
	historyOps["C09"] = bipOps

	// ---------------- bip32path (C10) ----------------
	historyOps["C10"] = func(c *core.Ctx, salt int) []hOp {
		parse := func(s string) hOp {
			w, ok, _ := refParsePath(s)
			return hOp{"ParsePath(" + s + ")", fp(w, ok), func(a *arena) string {
				p, err := bip32path.ParsePath(s)
				f := fp([]uint32(p), err == nil)
				if err != nil {
					f = fp([]uint32(nil), false)
				}
				for i := range p {
					p[i] = 0xDEADBEEF
				}
				return f
			}}
		}
		pslot := make([]uint32, 0, 16)
		str := func(p []uint32, want string) hOp {
			return hOp{"String(" + want + ")", want, func(a *arena) string {
				pslot = append(pslot[:0], p...)
				s := bip32path.Path(pslot).String()
				for i := range pslot {
					pslot[i] = 7
				}
				a.hold = func() string { return s }
				return s
			}}
		}
		unm := hOp{"UnmarshalText(m/1/2H)", fp([]uint32{1, 2 | 1<<31}), func(a *arena) string {
			var p bip32path.Path
			if err := p.UnmarshalText(a.buf(0, []byte("m/1/2H"))); err != nil {
				return err.Error()
			}
			f := fp([]uint32(p))
			for i := range p {
				p[i] = 9
			}
			return f
		}}
		// MarshalText: the caller keeps the returned bytes while it marshals other paths
		mar := func(p []uint32, want string) hOp {
			return hOp{"MarshalText(" + want + ") kept", want, func(a *arena) string {
				b, err := bip32path.Path(append([]uint32{}, p...)).MarshalText()
				if err != nil {
					return err.Error()
				}
				a.hold = func() string { return string(b) }
				return string(b)
			}}
		}
		return []hOp{parse(fmt.Sprintf("m/44'/4218H/%d/007", salt)), parse(fmt.Sprintf("44'/%d", salt+1)), parse("m/2147483648"), parse("m"), parse("m/0x1"),
			str([]uint32{44 | 1<<31, 0, 1<<32 - 1}, "m/44'/0/2147483647'"), str(nil, "m"), unm,
			mar([]uint32{44 | 1<<31, uint32(salt), 7}, fmt.Sprintf("m/44'/%d/7", salt)), mar([]uint32{1, 2, 3, 4, 5, 6 | 1<<31}, "m/1/2/3/4/5/6'")}
	}

	// ---------------- b1t6 / b1t8 (C14) ----------------
	historyOps["C14"] = func(c *core.Ctx, salt int) []hOp {
		src1, src2 := []byte{0, 1, 0x7f, 0x80, 0xff, 0x2a, byte(salt)}, []byte{0x80, 0x80, 0x13, byte(salt >> 4)}
		ref6 := func(src []byte) []int8 {
			var t []int8
			for _, b := range src {
				g := refB1T6Enc(b)
				t = append(t, g[:]...)
			}
			return t
		}
		ref8 := func(src []byte) []int8 {
			var t []int8
			for _, b := range src {
				g := refB1T8Enc(b)
				t = append(t, g[:]...)
			}
			return t
		}
		tslot := make(trinary.Trits, 0, 256)
		tr := func(t []int8) trinary.Trits { tslot = append(tslot[:0], t...); return tslot }
		wipeT := func() {
			for i := range tslot {
				tslot[i] = 1
			}
		}
		decT := func(name string, src []byte) hOp {
			ty := refTrytes(ref6(src))
			return hOp{name, fp(src, nil), func(a *arena) string {
				d, err := b1t6.DecodeTrytes(ty)
				f := fp(d, err)
				scribble(d)
				return f
			}}
		}
		dec := func(name string, six bool, src []byte) hOp {
			return hOp{name, fp(src, len(src), nil), func(a *arena) string {
				dst := a.out(0, len(src))
				var n int
				var err error
				if six {
					n, err = b1t6.Decode(dst, tr(ref6(src)))
				} else {
					n, err = b1t8.Decode(dst, tr(ref8(src)))
				}
				f := fp(dst[:len(src)], n, err)
				wipeT()
				return f
			}}
		}
		enc := func(name string, six bool, src []byte) hOp {
			want := ref8(src)
			if six {
				want = ref6(src)
			}
			return hOp{name, fp(want), func(a *arena) string {
				dst := make(trinary.Trits, len(want))
				if six {
					b1t6.Encode(dst, a.buf(1, src))
				} else {
					b1t8.Encode(dst, a.buf(1, src))
				}
				f := fp([]int8(dst))
				for i := range dst {
					dst[i] = -1
				}
				return f
			}}
		}
		bad6 := ref6(src2)
		bad6[3], bad6[4], bad6[5] = 1, 1, 1
		return []hOp{decT("b1t6.DecodeTrytes(t1)", src1), decT("b1t6.DecodeTrytes(t2)", src2), dec("b1t6.Decode(t1)", true, src1), dec("b1t6.Decode(t2)", true, src2),
			dec("b1t8.Decode(t1)", false, src1), enc("b1t6.Encode(s1)", true, src1), enc("b1t8.Encode(s2)", false, src2),
			{"b1t6.EncodeToTrytes(s1)", refTrytes(ref6(src1)), func(a *arena) string {
				s := b1t6.EncodeToTrytes(a.buf(1, src1))
				a.hold = func() string { return s }
				return s
			}},
			{"b1t6.Decode(invalid group)", fp(0, true), func(a *arena) string {
				n, err := b1t6.Decode(a.out(0, 3), tr(bad6))
				return fp(n, errors.Is(err, b1t6.ErrInvalidTrits))
			}},
		}
	}

	// ---------------- merkle (C15) ----------------
	historyOps["C15"] = func(c *core.Ctx, salt int) []hOp {
		hs := merkle.NewHasher(crypto.SHA256)
		hb := merkle.NewHasher(crypto.BLAKE2b_256)
		mk := func(name string, h *merkle.Hasher, hh crypto.Hash, n, kind, fail int) hOp {
			raw := c15Leaves(n, kind)
			want := fp(refMerkleRoot(hh, raw), false)
			if fail >= 0 {
				want = fp([]byte(nil), true)
			}
			return hOp{name, want, func(a *arena) string {
				data := make([]encoding.BinaryMarshaler, n)
				for i := range data {
					l := &c15leaf{b: a.buf(10+i, raw[i])} // leaves live in re-used caller buffers with spare capacity
					if i == fail {
						l.err = errors.New("scripted")
					}
					data[i] = l
				}
				r, err := h.Hash(data)
				f := fp(r, err != nil)
				for i := range data {
					if l := data[i].(*c15leaf); !bytes.Equal(l.b, raw[i]) || tailWritten(l.b) {
						f += fmt.Sprintf(" leaf %d (or the memory behind it) was modified", i)
					}
				}
				scribble(r)
				return f
			}}
		}
		return []hOp{
			mk("Hash(SHA-256, 5 leaves of 32 bytes)", hs, crypto.SHA256, 5, 4, -1), mk("Hash(SHA-256, 3 short leaves)", hs, crypto.SHA256, 3, 3, -1),
			mk("Hash(SHA-256, 1 leaf)", hs, crypto.SHA256, 1, 4, -1), mk("Hash(SHA-256, 5 leaves, leaf 1 fails)", hs, crypto.SHA256, 5, 4, 1),
			mk("Hash(BLAKE2b, 5 leaves of 32 bytes)", hb, crypto.BLAKE2b_256, 5, 4, -1), mk("Hash(SHA-256, 8 equal leaves)", hs, crypto.SHA256, 8, 1, -1),
			{"EmptyRoot", fp(refMerkleRoot(crypto.SHA256, nil)), func(a *arena) string { r := hs.EmptyRoot(); f := fp(r); scribble(r); return f }},
		}
	}

	// ---------------- secp256k1 (C17) ----------------
	historyOps["C17"] = func(c *core.Ctx, salt int) []hOp {
		ref := wei.Secp256k1()
		cv := btccurve.Secp256k1()
		P, Q := ref.Mul(ref.G(), big.NewInt(5+int64(salt))), ref.Mul(ref.G(), big.NewInt(0x1234567+int64(salt)*977))
		k1, k2 := big.NewInt(0xABCDEF).Bytes(), new(big.Int).Add(ref.N, big.NewInt(9)).Bytes()
		pt := func(p wei.Pt) string { return fp(p.X.Text(16), p.Y.Text(16)) }
		sm := func(name string, b wei.Pt, k []byte) hOp {
			return hOp{name, pt(ref.Mul(b, new(big.Int).SetBytes(k))), func(a *arena) string {
				x, y := cv.ScalarMult(a.num(0, b.X), a.num(1, b.Y), a.buf(0, k))
				f := fp(x.Text(16), y.Text(16))
				scribbleInts(x, y)
				return f
			}}
		}
		add := func(name string, p, q wei.Pt) hOp {
			return hOp{name, pt(ref.Add(p, q)), func(a *arena) string {
				x, y := cv.Add(a.num(0, p.X), a.num(1, p.Y), a.num(2, q.X), a.num(3, q.Y))
				f := fp(x.Text(16), y.Text(16))
				scribbleInts(x, y)
				return f
			}}
		}
		one := ref.Mul(ref.G(), big.NewInt(1))
		inf := wei.Pt{X: new(big.Int), Y: new(big.Int)}
		_ = inf
		extra := []hOp{sm("ScalarMult(P,1)", P, []byte{1}), sm("ScalarMult(Q,0x000001)", Q, []byte{0, 0, 1}), sm("ScalarMult(P,n+1)", P, new(big.Int).Add(ref.N, big.NewInt(1)).Bytes()),
			{"ScalarBaseMult(1)", pt(one), func(a *arena) string {
				x, y := cv.ScalarBaseMult(a.buf(0, []byte{1}))
				f := fp(x.Text(16), y.Text(16))
				scribbleInts(x, y)
				return f
			}},
			{"Add(P,(0,0))", pt(P), func(a *arena) string {
				x, y := cv.Add(a.num(0, P.X), a.num(1, P.Y), a.num(2, new(big.Int)), a.num(3, new(big.Int)))
				f := fp(x.Text(16), y.Text(16))
				scribbleInts(x, y)
				return f
			}},
			{"Add((0,0),Q)", pt(Q), func(a *arena) string {
				x, y := cv.Add(a.num(2, new(big.Int)), a.num(3, new(big.Int)), a.num(0, Q.X), a.num(1, Q.Y))
				f := fp(x.Text(16), y.Text(16))
				scribbleInts(x, y)
				return f
			}},
		}
		return append([]hOp{sm("ScalarMult(P,k1)", P, k1), sm("ScalarMult(Q,k1)", Q, k1), sm("ScalarMult(P,n+9)", P, k2), sm("ScalarMult(G,k1)", ref.G(), k1),
			add("Add(P,Q)", P, Q), add("Add(Q,Q)", Q, Q), add("Add(P,-P)", P, ref.Neg(P)),
			{"ScalarBaseMult(k1)", pt(ref.Mul(ref.G(), new(big.Int).SetBytes(k1))), func(a *arena) string {
				x, y := cv.ScalarBaseMult(a.buf(0, k1))
				f := fp(x.Text(16), y.Text(16))
				scribbleInts(x, y)
				return f
			}},
			{"Double(Q)", pt(ref.Add(Q, Q)), func(a *arena) string {
				x, y := cv.Double(a.num(0, Q.X), a.num(1, Q.Y))
				f := fp(x.Text(16), y.Text(16))
				scribbleInts(x, y)
				return f
			}},
			{"IsOnCurve(P), IsOnCurve(P.x,Q.y)", fp(true, false), func(a *arena) string {
				return fp(cv.IsOnCurve(a.num(0, P.X), a.num(1, P.Y)), cv.IsOnCurve(a.num(0, P.X), a.num(1, Q.Y)))
			}},
		}, extra...)
	}

	// ---------------- vrf (C18) ----------------
	historyOps["C18"] = func(c *core.Ctx, salt int) []hOp {
		sA, sB := saltBytes(salt, 0x44, 32), saltBytes(salt, 0x99, 32)
		a1, a2 := append([]byte("alpha-one"), byte(salt), byte(salt>>8)), []byte{0x11, byte(salt)}
		piA, _ := rvrf.Prove(sA, a1)
		piB, _ := rvrf.Prove(sB, a2)
		pkA, pkB := rvrf.PublicKey(sA), rvrf.PublicKey(sB)
		small := ed.SmallOrderEncodings()
		ver := func(name string, pk, alpha, pi []byte) hOp {
			beta, ok := rvrf.Verify(pk, alpha, pi)
			want := fp(false, []byte(nil))
			if ok {
				want = fp(true, beta[:])
			}
			return hOp{name, want, func(a *arena) string {
				v, b := vrf.Verify(vrf.PublicKey(a.buf(0, pk)), a.buf(1, alpha), a.buf(2, pi))
				f := fp(v, b)
				scribble(b)
				return f
			}}
		}
		prove := func(name string, seed, alpha []byte, pi [80]byte) hOp {
			return hOp{name, fp(pi[:]), func(a *arena) string {
				k := vrf.NewKeyFromSeed(a.buf(3, seed))
				p := vrf.Prove(k, a.buf(1, alpha)).Bytes()
				f := fp(p)
				scribble(p, k)
				return f
			}}
		}
		betaA, _ := rvrf.ProofToHash(piA[:])
		return []hOp{ver("Verify(A)", pkA[:], a1, piA[:]), ver("Verify(B)", pkB[:], a2, piB[:]), ver("Verify(A's proof under B)", pkB[:], a1, piA[:]),
			ver("Verify(small-order key)", small[1][:], a1, piA[:]), ver("Verify(small-order key')", small[4][:], a2, piB[:]),
			prove("Prove(A)", sA, a1, piA), prove("Prove(B)", sB, a2, piB),
			{"ProofToHash(A)", fp(betaA[:], nil), func(a *arena) string {
				h, err := vrf.ProofToHash(a.buf(2, piA[:]))
				f := fp(h, err)
				scribble(h)
				return f
			}},
			// a proof decoded from a buffer the caller re-uses, kept as an object: its encoding and hash later on are still
			// those of the proof that was decoded
			{"Proof.SetBytes(A) kept", fp(piA[:], betaA[:]), func(a *arena) string {
				p, err := new(vrf.Proof).SetBytes(a.buf(2, piA[:]))
				if err != nil {
					return err.Error()
				}
				a.hold = func() string { return fp(p.Bytes(), p.Hash()) }
				return a.hold()
			}},
			{"Proof.UnmarshalBinary(B) kept", fp(piB[:]), func(a *arena) string {
				var p vrf.Proof
				if err := p.UnmarshalBinary(a.buf(2, piB[:])); err != nil {
					return err.Error()
				}
				a.hold = func() string { b, _ := p.MarshalBinary(); return fp(b) }
				return a.hold()
			}},
		}
	}

	// ---------------- bech32 / addresses / migration (C04, C05, C16, C19) ----------------
	bechOps := func(c *core.Ctx, salt int) []hOp {
		d1, d2 := saltBytes(salt, 0xA7, 33), []byte{1, 2, 3, byte(salt), byte(salt >> 8)}
		s1, _ := rb.Encode("iota", d1)
		s2, _ := rb.Encode("IOTA", d2)
		s3, _ := rb.Encode("iota", d2)
		corrupt := []byte(s1)
		if corrupt[10] == 'q' {
			corrupt[10] = 'p'
		} else {
			corrupt[10] = 'q'
		}
		enc := func(hrp string, d []byte) hOp {
			w, ok := rb.Encode(hrp, d)
			return hOp{fmt.Sprintf("Encode(%q,%d bytes)", hrp, len(d)), fp(w, !ok), func(a *arena) string {
				s, err := bech32.Encode(hrp, a.buf(0, d))
				a.hold = func() string { return strings.Clone(s) }
				return fp(s, err != nil)
			}}
		}
		dec := func(name, s string) hOp {
			h, d, ok := rb.Decode(s)
			return hOp{name, fp(h, d, !ok), func(a *arena) string {
				gh, gd, err := bech32.Decode(s)
				f := fp(gh, gd, err != nil)
				scribble(gd)
				return f
			}}
		}
		alias := append([]byte{8}, bytes.Repeat([]byte{3}, 20)...)
		aS, _ := rb.Encode("rms", alias)
		aS2, _ := rb.Encode("smr", append([]byte{0}, bytes.Repeat([]byte{0x77}, 32)...))
		parse := func(name, s string, prefix int, want []byte) hOp {
			return hOp{name, fp(prefix, want, nil), func(a *arena) string {
				p, ad, err := address.ParseBech32(s)
				if err != nil {
					return fp(err)
				}
				b := ad.Bytes()
				f := fp(int(p), b, nil)
				scribble(b)
				re, _ := address.Bech32(p, ad)
				a.hold = func() string { return strings.Clone(re) }
				if re != rb.Lower(s) {
					f += " re-encodes to " + re
				}
				return f
			}}
		}
		var mig [32]byte
		for i := range mig {
			mig[i] = byte(i*11 + 128)
		}
		migS := refMigrationEncode(mig)
		return []hOp{enc("iota", d1), enc("IOTA", d2), enc("iota", d2), enc("ioTa", d2), enc("iota", bytes.Repeat([]byte{1}, 60)),
			dec("Decode(valid lower)", s1), dec("Decode(valid upper)", s2), dec("Decode(valid short)", s3), dec("Decode(one substitution)", string(corrupt)), dec("Decode(char outside charset)", s1[:12]+"b"+s1[13:]), dec("Decode(5 data chars)", "iota1qqqqq"),
			parse("ParseBech32(alias)", aS, int(address.ShimmerDevnet), alias), parse("ParseBech32(ed25519)", aS2, int(address.ShimmerMainnet), append([]byte{0}, bytes.Repeat([]byte{0x77}, 32)...)),
			{"migration.Encode", migS, func(a *arena) string {
				var m [32]byte
				copy(m[:], a.buf(1, mig[:]))
				s := migration.Encode(m)
				a.hold = func() string { return strings.Clone(s) }
				return s
			}},
			{"migration.Decode", fp(mig, nil), func(a *arena) string { m, err := migration.Decode(migS); return fp(m, err) }},
		}
	}
	for _, id := range []string{"C04", "C05", "C16", "C19"} {
		historyOps[id] = bechOps
	}

	// ---------------- slip10 (C02, C08) ----------------
	slipOps := func(c *core.Ctx, salt int) []hOp {
		seed1, seed2 := append([]byte("history seed number one"), byte(salt), byte(salt>>8)), saltBytes(salt, 0x07, 16)
		type cv struct {
			name string
			impl slip10.Curve
			ref  rs.Plug
		}
		cvs := []cv{{"secp256k1", slipelliptic.Secp256k1(), rs.Secp256k1()}, {"nist256p1", slipelliptic.Nist256p1(), rs.Nist256p1()}, {"ed25519", eddsa.Ed25519(), rs.Ed{}}}
		refNode := func(p rs.Plug, seed []byte, path []uint32) string {
			n := rs.Master(p, seed)
			for _, i := range path {
				var err error
				if n, err = n.Child(p, i); err != nil {
					return "error"
				}
			}
			return fp(n.Priv, n.Chain, n.Pub, n.Fingerprint())
		}
		var ops []hOp
		for _, v := range cvs {
			v := v
			for _, path := range [][]uint32{{1 << 31}, {1 << 31, 1}, {0}} {
				path := path
				for si, seed := range [][]byte{seed1, seed2} {
					if si == 1 && len(path) != 2 {
						continue
					}
					seed := seed
					ops = append(ops, hOp{fmt.Sprintf("Derive(%s, seed%d, %v)", v.name, si+1, path), refNode(v.ref, seed, path), func(a *arena) string {
						k, err := slip10.DeriveKeyFromPath(a.buf(0, seed), v.impl, path)
						if err != nil {
							return "error"
						}
						f := fp(k.Key.Bytes(), k.ChainCode, k.Key.Public().Bytes(), k.Fingerprint())
						a.hold = func() string { return fp(k.Key.Bytes(), k.ChainCode, k.Key.Public().Bytes(), k.Fingerprint()) }
						return f
					}})
				}
			}
		}
		// same scalar on both Weierstrass curves, private and public side
		for _, v := range cvs[:2] {
			v := v
			w := v.ref.(rs.Weier)
			kb := be32(big.NewInt(0x5EED + int64(salt)*0x10001))
			sh := be32(new(big.Int).Sub(w.C.N, big.NewInt(3)))
			wantPriv, _ := w.ChildPriv(kb, sh)
			wantPub, _ := w.ChildPub(w.Pub(kb), sh)
			ops = append(ops, hOp{"Shift(" + v.name + ")", fp(w.Pub(kb), wantPriv, wantPub), func(a *arena) string {
				priv, err := v.impl.NewPrivateKey(a.buf(1, kb))
				if err != nil {
					return err.Error()
				}
				pub := priv.Public()
				p2, e1 := priv.Shift(a.buf(2, sh))
				q2, e2 := pub.Shift(a.buf(2, sh))
				if e1 != nil || e2 != nil {
					return fp(e1, e2)
				}
				return fp(pub.Bytes(), p2.Bytes(), q2.Bytes())
			}})
		}
		return ops
	}
	historyOps["C02"] = slipOps
	historyOps["C08"] = slipOps
}
