//go:build sched

package checks

import (
	"context"
	"encoding/binary"
	"fmt"
	"math"
	"sync"

	"github.com/iotaledger/iota.go/consts"
	"github.com/iotaledger/iota.go/trinary"
	"github.com/wollac/iota-crypto-demo/pkg/pow"
	powv2 "github.com/wollac/iota-crypto-demo/pkg/pow/v2"
	vbct "github.com/wollac/iota-crypto-demo/pkg/verifshim/vbct"
	"github.com/wollac/iota-crypto-demo/pkg/verifshim/vsched"

	"verifharness/core"
)

// powNonceSweep follows every worker of a Mine call batch by batch with a scripted hash that reads the nonce each lane
// actually encodes (trits 192..239 of the block, b1t6, little endian): lane j of batch b of a worker must carry
// start + 64*b + j, for every batch up to and beyond the first carries out of the low nonce bytes. Nothing qualifies
// before batch `until`; there every lane qualifies, and the nonce Mine returns must be the one its lane encoded.
func powNonceSweep(c *core.Ctx, id string, version int, workers int, until int) {
	var unq, qual [2][consts.HashTrinarySize]uint // l,h planes: unqualified (trit 1 everywhere) and qualified (all zero trits)
	for i := range unq[0] {
		unq[0][i], unq[1][i] = 0, ^uint(0)          // trit 1: l=0,h=1
		qual[0][i], qual[1][i] = ^uint(0), ^uint(0) // trit 0
	}
	if version == 2 {
		for i := range unq[0] {
			unq[0][i], unq[1][i] = ^uint(0), 0 // trit -1 everywhere: the largest hash
		}
	}
	var mu sync.Mutex
	starts := map[*vbct.Curl]uint64{}
	encoded := map[uint64]bool{} // nonces of the qualifying batch, as encoded
	var firstBad string
	bad := 0
	width := uint64(math.MaxUint64) / uint64(workers)
	decode := func(t trinary.Trits) (uint64, bool) {
		var b [8]byte
		for g := 0; g < 8; g++ {
			v, ok := refB1T6Group(t[192+6*g : 198+6*g])
			if !ok {
				return 0, false
			}
			b[g] = v
		}
		return binary.LittleEndian.Uint64(b[:]), true
	}
	vbct.ScriptEx = func(obj *vbct.Curl, batch int, src []trinary.Trits, l, h *[consts.HashTrinarySize]uint) {
		mu.Lock()
		defer mu.Unlock()
		n0, ok0 := decode(src[0])
		if batch == 0 {
			starts[obj] = n0
			if !ok0 || n0%width != 0 || n0/width >= uint64(workers) {
				bad++
				if firstBad == "" {
					firstBad = fmt.Sprintf("first batch of a worker starts at encoded nonce %d, which is not one of the %d start nonces i*floor((2^64-1)/%d)", n0, workers, workers)
				}
			}
		}
		st := starts[obj]
		for j := range src {
			n, ok := decode(src[j])
			want := st + 64*uint64(batch) + uint64(j)
			if !ok || n != want {
				bad++
				if firstBad == "" {
					firstBad = fmt.Sprintf("%d workers: the worker starting at %d encodes nonce %d (valid b1t6: %v) in lane %d of its batch %d; it reports that lane as nonce %d", workers, st, n, ok, j, batch, want)
				}
			}
			if batch == until {
				encoded[n] = true
			}
		}
		if batch >= until {
			*l, *h = qual[0], qual[1]
		} else {
			*l, *h = unq[0], unq[1]
		}
	}
	defer func() { vbct.ScriptEx = nil }()
	data := []byte("nonce sweep")
	var nonce uint64
	var err error
	p := core.Catch(func() {
		if version == 1 {
			nonce, err = pow.New(workers).Mine(context.Background(), data, math.Pow(3, 5)/float64(len(data)+8))
		} else {
			nonce, err = powv2.New(workers).Mine(context.Background(), data, 10)
		}
	})
	vsched.PassThroughWait()
	gp := vsched.PassThroughPanics()
	c.Eval(int64(until+1) * int64(workers) * 64)
	cas := map[string]interface{}{"version": version, "workers": workers, "batches_followed": until + 1}
	key := fmt.Sprintf("%s/nonce-encoding/v%d", id, version)
	mu.Lock()
	defer mu.Unlock()
	switch {
	case p != nil || err != nil || len(gp) > 0:
		c.Violate(key+"/error", fmt.Sprintf("%d workers: Mine failed under the scripted hash: %v %v %v", workers, p, err, gp), cas, "", nil)
	case bad > 0:
		c.Violate(key+"/lane-carries-other-nonce", firstBad+fmt.Sprintf(" (%d lanes in total); a hit in such a lane is returned under a nonce that was never hashed", bad), cas, "", nil)
	case !encoded[nonce]:
		c.Violate(key+"/returned-nonce-not-hashed", fmt.Sprintf("%d workers: Mine returned nonce %d, which no lane of the qualifying batch encoded", workers, nonce), cas, "", nil)
	}
}

func powNonceSweeps(c *core.Ctx, id string, version int) {
	until := 1030 // start nonces of workers >= 1 are not 64-aligned: the carry out of byte 1 happens inside a batch before 1024
	for _, n := range []int{1, 2, 3, 5, 7, 16} {
		powNonceSweep(c, id, version, n, until)
	}
	if c.Thorough() {
		powNonceSweep(c, id, version, 3, 262200) // carry out of byte 2
		powNonceSweep(c, id, version, 6, 262200)
	}
	c.Set("nonce_encoding_batches_followed_per_worker", int64(until+1))
}
