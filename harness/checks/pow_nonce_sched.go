//go:build sched

package checks

import (
	"context"
	"encoding/binary"
	"fmt"
	"math"
	"sync"
	"time"

	"github.com/iotaledger/iota.go/consts"
	"github.com/iotaledger/iota.go/trinary"
	"github.com/wollac/iota-crypto-demo/pkg/pow"
	powv2 "github.com/wollac/iota-crypto-demo/pkg/pow/v2"
	vbct "github.com/wollac/iota-crypto-demo/pkg/verifshim/vbct"
	"github.com/wollac/iota-crypto-demo/pkg/verifshim/vsched"

	"verifharness/core"
)

// powNonceSweep follows every worker of a Mine call batch by batch with a scripted hash that reads the nonce each lane
// actually encodes (trits 192..239 of the block, b1t6, little endian). Nothing qualifies before batch `until`; there every
// lane qualifies, and the nonce Mine returns must be one that a qualifying lane encoded.
//
// Lanes before `until` cannot be judged by a return value (they do not hit). They are screened with the structure the
// code uses today - lane j of batch b of the worker that started at st carries st + 64*b + j, start nonces i*floor(2^64/N) -
// but that structure is a mechanism, not the property: a deviation is only a SUSPECT. Each suspect is then decided on
// the property's terms by a confirmation run in which exactly that lane qualifies: Mine must return the nonce the lane
// encoded. A different but consistent numbering of lanes passes; a lane reported under a nonce it did not hash fails.
func powNonceSweep(c *core.Ctx, id string, version int, workers int, until int) {
	var unq, qual [2][consts.HashTrinarySize]uint // l,h planes: unqualified (trit 1 everywhere) and qualified (all zero trits)
	for i := range unq[0] {
		unq[0][i], unq[1][i] = 0, ^uint(0)          // trit 1: l=0,h=1
		qual[0][i], qual[1][i] = ^uint(0), ^uint(0) // trit 0
	}
	if version == 2 {
		for i := range unq[0] {
			unq[0][i], unq[1][i] = ^uint(0), 0 // trit -1 everywhere: the largest hash
		}
	}
	width := uint64(math.MaxUint64) / uint64(workers)
	decode := powDecodeNonce
	type suspect struct {
		st          uint64
		batch, lane int
		what        string
	}
	type outcome struct {
		nonce    uint64
		err      error
		p        interface{}
		gp       []string
		encoded  map[uint64]bool // nonces encoded by qualifying lanes
		invalid  bool            // a qualifying lane did not hold a valid b1t6 nonce
		hit      bool            // some lane was reported as qualifying
		suspects []suspect
		nsusp    int
	}
	// run: all lanes of batches >= until qualify; additionally the single lane `only` (if set) qualifies
	run := func(until int, only *suspect, screen bool) *outcome {
		o := &outcome{encoded: map[uint64]bool{}}
		var mu sync.Mutex
		starts := map[*vbct.Curl]uint64{}
		vbct.ScriptEx = func(obj *vbct.Curl, batch int, src []trinary.Trits, l, h *[consts.HashTrinarySize]uint) {
			mu.Lock()
			defer mu.Unlock()
			n0, ok0 := decode(src[0])
			if batch == 0 {
				starts[obj] = n0
				if screen && (!ok0 || n0%width != 0 || n0/width >= uint64(workers)) {
					o.nsusp++
					if len(o.suspects) < 3 {
						o.suspects = append(o.suspects, suspect{n0, 0, 0, fmt.Sprintf("first batch of a worker starts at encoded nonce %d, which is not one of the %d start nonces i*floor((2^64-1)/%d)", n0, workers, workers)})
					}
				}
			}
			st := starts[obj]
			if screen {
				for j := range src {
					n, ok := decode(src[j])
					want := st + 64*uint64(batch) + uint64(j)
					if !ok || n != want {
						o.nsusp++
						if len(o.suspects) < 3 {
							o.suspects = append(o.suspects, suspect{st, batch, j, fmt.Sprintf("%d workers: the worker starting at %d encodes nonce %d (valid b1t6: %v) in lane %d of its batch %d, where its lane numbering suggests nonce %d", workers, st, n, ok, j, batch, want)})
						}
					}
				}
			}
			myUntil := until
			if only != nil && st != only.st {
				myUntil = until + 4096 // confirmation run: the other workers only qualify far later (termination)
			}
			switch {
			case batch >= myUntil:
				o.hit = true
				for j := range src {
					n, ok := decode(src[j])
					if ok {
						o.encoded[n] = true
					} else {
						o.invalid = true
					}
				}
				*l, *h = qual[0], qual[1]
			case only != nil && st == only.st && batch == only.batch && only.lane < len(src):
				o.hit = true
				n, ok := decode(src[only.lane])
				if ok {
					o.encoded[n] = true
				} else {
					o.invalid = true
				}
				*l, *h = unq[0], unq[1]
				bit := uint(1) << uint(only.lane)
				for i := range l {
					l[i] = l[i]&^bit | qual[0][i]&bit
					h[i] = h[i]&^bit | qual[1][i]&bit
				}
			default:
				*l, *h = unq[0], unq[1]
			}
		}
		defer func() { vbct.ScriptEx = nil }()
		data := []byte("nonce sweep")
		o.p = core.Catch(func() {
			if version == 1 {
				o.nonce, o.err = pow.New(workers).Mine(context.Background(), data, math.Pow(3, 5)/float64(len(data)+8))
			} else {
				o.nonce, o.err = powv2.New(workers).Mine(context.Background(), data, 10)
			}
		})
		vsched.PassThroughWait()
		o.gp = vsched.PassThroughPanics()
		mu.Lock()
		defer mu.Unlock()
		vbct.ScriptEx = nil
		return o
	}
	key := fmt.Sprintf("%s/nonce-encoding/v%d", id, version)
	cas := map[string]interface{}{"version": version, "workers": workers, "batches_followed": until + 1}
	judge := func(o *outcome, how string) bool {
		switch {
		case o.p != nil || o.err != nil || len(o.gp) > 0:
			c.Violate(key+"/error", fmt.Sprintf("%d workers: Mine failed under the scripted hash (%s): %v %v %v", workers, how, o.p, o.err, o.gp), cas, "", nil)
			return false
		case !o.encoded[o.nonce]:
			c.Violate(key+"/returned-nonce-not-hashed", fmt.Sprintf("%d workers, %s: Mine returned nonce %d, but no qualifying lane had hashed that nonce (a qualifying lane holding an invalid b1t6 nonce: %v)", workers, how, o.nonce, o.invalid), cas, "", nil)
			return false
		}
		return true
	}
	o := run(until, nil, true)
	c.Eval(int64(until+1) * int64(workers) * 64)
	if !judge(o, fmt.Sprintf("every lane qualifies from batch %d on", until)) {
		return
	}
	for i := range o.suspects {
		sp := o.suspects[i]
		oc := run(sp.batch+8, &sp, false)
		c.Eval(int64(sp.batch+1) * int64(workers) * 64)
		c.Add("nonce_encoding_suspects_confirmed_by_a_single_lane_run", 1)
		if !oc.hit {
			continue // the worker could not be identified again: nothing qualified, nothing to judge
		}
		if !judge(oc, sp.what+"; confirmation run in which only that lane qualifies") {
			return
		}
	}
}

// powDecodeNonce reads the nonce a block carries: trits 192..239, b1t6, little endian (the layout the property states).
func powDecodeNonce(t trinary.Trits) (uint64, bool) {
	if len(t) < 240 {
		return 0, false
	}
	var b [8]byte
	for g := 0; g < 8; g++ {
		v, ok := refB1T6Group(t[192+6*g : 198+6*g])
		if !ok {
			return 0, false
		}
		b[g] = v
	}
	return binary.LittleEndian.Uint64(b[:]), true
}

// powIntercepted finds out whether Mine hashes through a package the overlay instruments: without that the scripted
// hashes below are never consulted and a scripted sweep would simply mine for real (for ever, with its targets).
func powIntercepted(version int) bool {
	before := vbct.Intercepted.Load()
	ctx, cancel := context.WithTimeout(context.Background(), 30*time.Second)
	defer cancel()
	core.Catch(func() {
		if version == 1 {
			pow.New(1).Mine(ctx, []byte("probe"), 3.0/13) // one trailing zero
		} else {
			powv2.New(1).Mine(ctx, []byte("probe"), 1)
		}
	})
	vsched.PassThroughWait()
	vsched.PassThroughPanics()
	return vbct.Intercepted.Load() > before
}

func powNonceSweeps(c *core.Ctx, id string, version int) {
	if !powIntercepted(version) {
		c.Set("nonce_encoding_sweep", "skipped: Mine does not hash through a package the overlay instruments")
		return
	}
	until := 1030 // start nonces of workers >= 1 are not 64-aligned: the carry out of byte 1 happens inside a batch before 1024
	for _, n := range []int{1, 2, 3, 5, 7, 16} {
		powNonceSweep(c, id, version, n, until)
	}
	if c.Thorough() {
		powNonceSweep(c, id, version, 3, 262200) // carry out of byte 2
		powNonceSweep(c, id, version, 6, 262200)
	}
	c.Set("nonce_encoding_batches_followed_per_worker", int64(until+1))
}
