package checks

import (
	"bytes"
	"context"
	"fmt"
	"os"
	"os/exec"
	"path/filepath"
	"strings"
	"time"

	"verifharness/core"
)

// standalonePass runs a consumer that links nothing but the package under test and the standard library
// (harness/cmd/standalone-*). The harness itself links reference implementations, x/crypto hashes and iota.go, whose
// init-time side effects (hash registration with package crypto, tables) would mask a package that no longer brings
// along what it needs.
func standalonePass(c *core.Ctx, id, name string) {
	bin := filepath.Join(core.VerifDir, "build", name)
	if _, err := os.Stat(bin); err != nil {
		c.Set("standalone_pass", "build/"+name+" not found: skipped")
		return
	}
	ctx, cancel := context.WithTimeout(context.Background(), 5*time.Minute)
	defer cancel()
	cmd := exec.CommandContext(ctx, bin)
	var out, errb bytes.Buffer
	cmd.Stdout, cmd.Stderr = &out, &errb
	err := cmd.Run()
	c.Eval(1)
	o := strings.TrimSpace(out.String())
	switch {
	case strings.HasPrefix(o, "STANDALONE ok") && strings.Contains(o, "meets=true"):
		c.Set("standalone_pass", o)
	case strings.HasPrefix(o, "STANDALONE ok"):
		c.Violate(id+"/standalone/score-below-target", "a program that imports only the package and the standard library: "+o, nil, "", nil)
	case strings.HasPrefix(o, "STANDALONE panic"), strings.HasPrefix(o, "STANDALONE error"):
		c.Violate(id+"/standalone/fails", "a program that imports only the package and the standard library cannot mine: "+o, nil, "", nil)
	case strings.Contains(errb.String(), "iota-crypto-demo/pkg/"):
		c.Violate(id+"/standalone/crash", "a program that imports only the package and the standard library dies inside the repository's code: "+tail(errb.String(), 1200), nil, "", nil)
	default:
		c.Set("standalone_pass", fmt.Sprintf("no result (%v): %s", err, tail(errb.String(), 300)))
	}
}
