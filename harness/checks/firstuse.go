package checks

import (
	"bytes"
	"fmt"

	stded "crypto/ed25519"

	"github.com/wollac/iota-crypto-demo/pkg/ed25519"
	"github.com/wollac/iota-crypto-demo/pkg/vrf"

	"verifharness/core"
	rvrf "verifharness/ref/vrf"
)

// First-use recheck: whatever a package remembers about the very first identities it saw in a process (slot 0 of a cache,
// an index entry that the first eviction forgets to delete) only shows when those identities come back after everything
// else. The check makes one fixed call before anything else and repeats it after all enumerations and history passes.

func edFirstUse(c *core.Ctx, id string) func() {
	seed := make([]byte, 32)
	k := stded.NewKeyFromSeed(seed)
	msg := []byte("the first call of this process")
	sig := stded.Sign(k, msg)
	pub := ed25519.PublicKey(k[32:])
	if !ed25519.Verify(pub, msg, sig) {
		c.Violate(id+"/first-use/verify", "the first Verify of the process rejects an honest signature", nil, "", nil)
	}
	return func() {
		c.Eval(2)
		if !ed25519.Verify(pub, msg, sig) {
			c.Violate(id+"/first-use/verify-again", "Verify of the triple that was the first call of the process, repeated after all other calls, rejects the honest signature", nil, "", nil)
		}
		if ed25519.Verify(pub, append([]byte("x"), msg...), sig) {
			c.Violate(id+"/first-use/verify-again", "Verify accepts the first triple of the process with another message", nil, "", nil)
		}
		if s2 := ed25519.Sign(ed25519.NewKeyFromSeed(seed), msg); !bytes.Equal(s2, sig) {
			c.Violate(id+"/first-use/sign-again", fmt.Sprintf("Sign for the first key of the process gives %x, crypto/ed25519 %x", s2, sig), nil, "", nil)
		}
	}
}

func vrfFirstUse(c *core.Ctx, id string) func() {
	seed := make([]byte, 32)
	alpha := []byte("the first call of this process")
	pi, _ := rvrf.Prove(seed, alpha)
	pk := rvrf.PublicKey(seed)
	beta, _ := rvrf.Verify(pk[:], alpha, pi[:])
	if ok, b := vrf.Verify(vrf.PublicKey(pk[:]), alpha, pi[:]); !ok || !bytes.Equal(b, beta[:]) {
		c.Violate(id+"/first-use/verify", "the first Verify of the process rejects an honest proof", nil, "", nil)
	}
	return func() {
		c.Eval(1)
		if ok, b := vrf.Verify(vrf.PublicKey(pk[:]), alpha, pi[:]); !ok || !bytes.Equal(b, beta[:]) {
			c.Violate(id+"/first-use/verify-again", "Verify of the triple that was the first call of the process, repeated after all other calls, rejects the honest proof", nil, "", nil)
		}
	}
}
