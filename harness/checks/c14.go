package checks

import (
	"bytes"
	"errors"
	"fmt"

	"github.com/iotaledger/iota.go/trinary"
	"github.com/wollac/iota-crypto-demo/pkg/encoding/b1t6"
	"github.com/wollac/iota-crypto-demo/pkg/encoding/b1t8"

	"verifharness/core"
)

func init() {
	core.Register(core.Check{ID: "C14", Level: "exploration", Run: func(c *core.Ctx) {
		waitArch := background(func() { arch386Pass(c, "C14") })
		runC14(c)
		historyPass(c, "C14")
		reentrancyPass(c, "C14")
		waitArch()
	}})
}

// ---- reference (digit by digit, shares nothing with the repository) ----

const refTryteAlphabet = "9ABCDEFGHIJKLMNOPQRSTUVWXYZ"

// refB1T6Enc: signed value of the byte in 6 balanced trits, least significant first.
func refB1T6Enc(b byte) [6]int8 {
	v := int(int8(b))
	var out [6]int8
	for k := 0; k < 6; k++ {
		r := ((v % 3) + 3) % 3
		switch r {
		case 2:
			out[k] = -1
			v = (v + 1) / 3
		default:
			out[k] = int8(r)
			v = (v - r) / 3
		}
	}
	return out
}

func refTritsValue(t []int8) int {
	v, p := 0, 1
	for _, x := range t {
		v += int(x) * p
		p *= 3
	}
	return v
}

// refB1T6Group: is the group a code word, and of which byte.
func refB1T6Group(t []int8) (byte, bool) {
	v := refTritsValue(t)
	if v < -128 || v > 127 {
		return 0, false
	}
	return byte(int8(v)), true
}

func refTryteChar(t []int8) byte {
	v := refTritsValue(t)
	if v < 0 {
		v += 27
	}
	return refTryteAlphabet[v]
}

func refTrytes(t []int8) string {
	var b []byte
	for i := 0; i+3 <= len(t); i += 3 {
		b = append(b, refTryteChar(t[i:i+3]))
	}
	return string(b)
}

func refB1T8Enc(b byte) [8]int8 {
	var out [8]int8
	for k := 0; k < 8; k++ {
		out[k] = int8((b >> uint(k)) & 1)
	}
	return out
}

func refB1T8Group(t []int8) (byte, bool) {
	var b byte
	for k, x := range t {
		if x != 0 && x != 1 {
			return 0, false
		}
		b |= byte(x) << uint(k)
	}
	return b, true
}

// all 3^n trit strings of length n, as digits of i
func tritsOfIndex(i, n int) []int8 {
	out := make([]int8, n)
	for k := 0; k < n; k++ {
		out[k] = int8(i%3) - 1
		i /= 3
	}
	return out
}

type c14case struct {
	Codec string `json:"codec"`
	Trits []int8 `json:"trits"`
}

// judgeDecode runs the real decoder on trits and compares with the reference.
// group: 6 or 8.
func c14JudgeDecode(c *core.Ctx, codec string, src []int8, tag string) (accepted bool) {
	group := 6
	if codec == "b1t8" {
		group = 8
	}
	nGroups := len(src) / group
	// reference
	want := make([]byte, 0, nGroups)
	firstBad := -1
	for g := 0; g < nGroups; g++ {
		var b byte
		var ok bool
		if codec == "b1t6" {
			b, ok = refB1T6Group(src[g*group : (g+1)*group])
		} else {
			b, ok = refB1T8Group(src[g*group : (g+1)*group])
		}
		if !ok {
			firstBad = g
			break
		}
		want = append(want, b)
	}
	rem := src[nGroups*group:]
	remBad := false // b1t8 defines behaviour for non-binary trits in the remainder
	if codec == "b1t8" {
		for _, x := range rem {
			if x != 0 && x != 1 {
				remBad = true
			}
		}
	}
	refAccept := firstBad < 0 && len(rem) == 0

	var n int
	var err error
	dstLen := nGroups
	dst := make([]byte, dstLen+1)
	for i := range dst {
		dst[i] = 0xA5
	}
	cp := append([]int8(nil), src...)
	run := func() interface{} {
		return core.Catch(func() {
			if codec == "b1t6" {
				n, err = b1t6.Decode(dst[:dstLen], trinary.Trits(cp))
			} else {
				n, err = b1t8.Decode(dst[:dstLen], trinary.Trits(cp))
			}
		})
	}
	p := run()
	c.Eval(1)
	cas := c14case{codec, append([]int8(nil), src...)}
	bad := func(class, what string) {
		c.Violate("C14/"+codec+"/"+tag+"/"+class, what, cas, "", nil)
	}
	if p != nil {
		bad("panic", fmt.Sprintf("Decode panicked: %v", p))
		return false
	}
	if !bytes.Equal(int8bytes(cp), int8bytes(src)) {
		bad("input-modified", "Decode modified its input")
	}
	if dst[dstLen] != 0xA5 {
		bad("overrun", "Decode wrote past DecodedLen")
	}
	var eTrits, eLen error
	if codec == "b1t6" {
		eTrits, eLen = b1t6.ErrInvalidTrits, b1t6.ErrInvalidLength
	} else {
		eTrits, eLen = b1t8.ErrInvalidTrit, b1t8.ErrInvalidLength
	}
	if refAccept {
		if err != nil {
			bad("reject-valid", fmt.Sprintf("valid encoding rejected: %v", err))
			return false
		}
		if n != nGroups || !bytes.Equal(dst[:n], want) {
			bad("wrong-bytes", fmt.Sprintf("decoded %x (n=%d), want %x", dst[:min(n, dstLen)], n, want))
		}
		return true
	}
	if err == nil {
		bad("accept-invalid", fmt.Sprintf("invalid input accepted (n=%d, first bad group %d, remainder %d trits)", n, firstBad, len(rem)))
		return false
	}
	isT, isL := errors.Is(err, eTrits), errors.Is(err, eLen)
	if !isT && !isL {
		bad("undocumented-error", fmt.Sprintf("error %q is neither invalid-trits nor invalid-length", err))
		return false
	}
	// the earliest fault is the one reported ("invalid group reported first"; b1t8: "check for invalid char before
	// reporting bad length, since the invalid trit is an earlier problem"), with the bytes decoded before it
	okErr := false
	switch {
	case firstBad >= 0:
		okErr = isT && n == firstBad
	case remBad:
		okErr = isT && n == nGroups
	default:
		okErr = isL && n == nGroups
	}
	if !okErr {
		bad("wrong-error-or-count", fmt.Sprintf("err=%q n=%d; first bad group=%d, whole groups=%d, remainder=%d trits (non-binary in remainder: %v)", err, n, firstBad, nGroups, len(rem), remBad))
	} else if n > 0 && !bytes.Equal(dst[:n], want[:n]) {
		bad("wrong-prefix-bytes", fmt.Sprintf("bytes before the fault %x, want %x", dst[:n], want[:n]))
	}
	return false
}

func int8bytes(t []int8) []byte {
	b := make([]byte, len(t))
	for i, x := range t {
		b[i] = byte(x)
	}
	return b
}

func runC14(c *core.Ctx) {
	c.Rule = "every byte, every 6-trit and 8-trit group alone and inside 3-group strings, all pairs of b1t6 groups (thorough: all pairs of b1t8 groups), every length 0..20 with every remainder content; non-trivial = distinct inputs the reference accepts (decode direction) plus distinct byte strings encoded"
	var nontriv int64

	// --- encode direction: all 256 bytes alone, all 65536 byte pairs ---
	for b := 0; b < 256; b++ {
		b := byte(b)
		dst := make(trinary.Trits, 7)
		dst[6] = 77
		if p := core.Catch(func() { b1t6.Encode(dst, []byte{b}) }); p != nil {
			c.Violate("C14/b1t6/encode/panic", fmt.Sprint(p), b, "", nil)
			continue
		}
		w := refB1T6Enc(b)
		if !bytes.Equal(int8bytes(dst[:6]), int8bytes(w[:])) || dst[6] != 77 {
			c.Violate("C14/b1t6/encode/wrong", fmt.Sprintf("Encode(%#x)=%v want %v", b, dst[:6], w), b, "", nil)
		}
		if s := b1t6.EncodeToTrytes([]byte{b}); s != refTrytes(w[:]) {
			c.Violate("C14/b1t6/encode/trytes", fmt.Sprintf("EncodeToTrytes(%#x)=%q want %q", b, s, refTrytes(w[:])), b, "", nil)
		}
		d8 := make(trinary.Trits, 9)
		d8[8] = 77
		b1t8.Encode(d8, []byte{b})
		w8 := refB1T8Enc(b)
		if !bytes.Equal(int8bytes(d8[:8]), int8bytes(w8[:])) || d8[8] != 77 {
			c.Violate("C14/b1t8/encode/wrong", fmt.Sprintf("Encode(%#x)=%v want %v", b, d8[:8], w8), b, "", nil)
		}
		c.Eval(3)
		nontriv += 2
	}
	c.Sample(map[string]interface{}{"encode": 0x80, "b1t6": refB1T6Enc(0x80), "b1t8": refB1T8Enc(0x80)})
	// all byte pairs and a few longer strings: encode == concatenation of reference groups; decode returns src;
	// trytes == trytes(trits)
	encStr := func(src []byte) {
		want6 := make([]int8, 0, 6*len(src))
		want8 := make([]int8, 0, 8*len(src))
		for _, b := range src {
			g := refB1T6Enc(b)
			want6 = append(want6, g[:]...)
			h := refB1T8Enc(b)
			want8 = append(want8, h[:]...)
		}
		d6 := make(trinary.Trits, b1t6.EncodedLen(len(src)))
		n6 := b1t6.Encode(d6, src)
		d8 := make(trinary.Trits, b1t8.EncodedLen(len(src)))
		n8 := b1t8.Encode(d8, src)
		c.Eval(2)
		if n6 != 6*len(src) || !bytes.Equal(int8bytes(d6), int8bytes(want6)) {
			c.Violate("C14/b1t6/encode/multi", fmt.Sprintf("Encode(%x) wrong", src), src, "", nil)
		}
		if n8 != 8*len(src) || !bytes.Equal(int8bytes(d8), int8bytes(want8)) {
			c.Violate("C14/b1t8/encode/multi", fmt.Sprintf("Encode(%x) wrong", src), src, "", nil)
		}
		ty := b1t6.EncodeToTrytes(src)
		if ty != refTrytes(want6) || (len(want6) > 0 && ty != trinary.MustTritsToTrytes(d6)) {
			c.Violate("C14/b1t6/encode/trytes-multi", fmt.Sprintf("EncodeToTrytes(%x)=%q want %q", src, ty, refTrytes(want6)), src, "", nil)
		}
		back := make([]byte, len(src))
		if n, err := b1t6.Decode(back, d6); err != nil || n != len(src) || !bytes.Equal(back, src) {
			c.Violate("C14/b1t6/roundtrip", fmt.Sprintf("Decode(Encode(%x)) = %x,%v", src, back, err), src, "", nil)
		}
		if bt, err := b1t6.DecodeTrytes(ty); err != nil || !bytes.Equal(bt, src) {
			c.Violate("C14/b1t6/roundtrip-trytes", fmt.Sprintf("DecodeTrytes(EncodeToTrytes(%x)) = %x,%v", src, bt, err), src, "", nil)
		}
		back8 := make([]byte, len(src))
		if n, err := b1t8.Decode(back8, d8); err != nil || n != len(src) || !bytes.Equal(back8, src) {
			c.Violate("C14/b1t8/roundtrip", fmt.Sprintf("Decode(Encode(%x)) = %x,%v", src, back8, err), src, "", nil)
		}
	}
	encStr(nil)
	encStr([]byte{})
	core.Par(256, func(a int) {
		for b := 0; b < 256; b++ {
			encStr([]byte{byte(a), byte(b)})
		}
	})
	nontriv += 65536
	for l := 3; l <= 40; l++ {
		for _, fill := range []byte{0x00, 0xFF, 0x80, 0x7F} {
			encStr(bytes.Repeat([]byte{fill}, l))
		}
		ramp := make([]byte, l)
		for i := range ramp {
			ramp[i] = byte(i*37 + l)
		}
		encStr(ramp)
		nontriv += 5
	}

	// --- roomy buffers: dst longer than needed (scratch / block buffers), src a prefix of a longer buffer ---
	// Encode writes EncodedLen(len(src)) trits and returns that; Decode writes DecodedLen(len(src)) bytes: whatever lies
	// behind (in dst or behind src) is neither written nor read.
	for l := 0; l <= 5; l++ {
		for _, slack := range []int{0, 1, 5, 6, 7, 8, 9, 12, 16, 17, 40, 48, 64} {
			for shape := 0; shape < 2; shape++ {
				for _, codec := range []string{"b1t6", "b1t8"} {
					group := 6
					if codec == "b1t8" {
						group = 8
					}
					backing := make([]byte, l+9)
					for i := range backing {
						backing[i] = byte(0x93 + 29*i + l)
					}
					src := backing[:l:l]
					if shape == 1 {
						src = backing[:l] // bytes follow behind len(src)
					}
					var want []int8
					for _, b := range src {
						if group == 6 {
							g := refB1T6Enc(b)
							want = append(want, g[:]...)
						} else {
							g := refB1T8Enc(b)
							want = append(want, g[:]...)
						}
					}
					dst := make(trinary.Trits, group*l+slack)
					for i := range dst {
						dst[i] = -77
					}
					var n int
					p := core.Catch(func() {
						if group == 6 {
							n = b1t6.Encode(dst, src)
						} else {
							n = b1t8.Encode(dst, src)
						}
					})
					c.Eval(1)
					nontriv++
					cas := map[string]interface{}{"codec": codec, "src": fmt.Sprintf("%x", src), "cap_src": cap(src), "len_dst": len(dst)}
					key := "C14/" + codec + "/encode/roomy-buffers"
					switch {
					case p != nil:
						c.Violate(key, fmt.Sprintf("Encode of %d bytes (cap %d) into a dst of %d trits panics: %v", l, cap(src), len(dst), p), cas, "", nil)
					case n != group*l:
						c.Violate(key, fmt.Sprintf("Encode of %d bytes (cap %d) into a dst of %d trits returns %d, want %d", l, cap(src), len(dst), n, group*l), cas, "", nil)
					case !bytes.Equal(int8bytes(dst[:n]), int8bytes(want)):
						c.Violate(key, fmt.Sprintf("Encode of %x into a dst of %d trits writes the wrong trits", src, len(dst)), cas, "", nil)
					default:
						for _, x := range dst[n:] {
							if x != -77 {
								c.Violate(key, fmt.Sprintf("Encode of %d bytes into a dst of %d trits writes behind EncodedLen", l, len(dst)), cas, "", nil)
								break
							}
						}
					}
					// and back: the valid encoding as a prefix of a longer trit buffer, into a longer dst
					tb := make(trinary.Trits, len(want)+11)
					for i := range tb {
						tb[i] = 1
					}
					copy(tb, want)
					tsrc := tb[:len(want):len(want)]
					if shape == 1 {
						tsrc = tb[:len(want)]
					}
					out := make([]byte, l+slack)
					for i := range out {
						out[i] = 0xA5
					}
					var err error
					p = core.Catch(func() {
						if group == 6 {
							n, err = b1t6.Decode(out, tsrc)
						} else {
							n, err = b1t8.Decode(out, tsrc)
						}
					})
					c.Eval(1)
					key = "C14/" + codec + "/decode/roomy-buffers"
					if p != nil || err != nil || n != l || !bytes.Equal(out[:l], backing[:l]) || !bytes.Equal(out[l:], bytes.Repeat([]byte{0xA5}, slack)) {
						c.Violate(key, fmt.Sprintf("Decode of %d groups (cap %d trits) into a dst of %d bytes: n=%d err=%v panic=%v out=%x", l, cap(tsrc), len(out), n, err, p, out), cas, "", nil)
					}
				}
			}
		}
	}

	// --- decode direction, b1t6: all 729 groups alone and at each position of a 3-group string ---
	valid6 := [][]int8{}
	for i := 0; i < 729; i++ {
		g := tritsOfIndex(i, 6)
		if c14JudgeDecode(c, "b1t6", g, "single") {
			nontriv++
			valid6 = append(valid6, g)
		}
	}
	if len(valid6) != 256 {
		c.Violate("C14/b1t6/codeword-count", fmt.Sprintf("%d of 729 groups accepted, want 256", len(valid6)), nil, "", nil)
	}
	fix6a, fix6b := refB1T6Enc(0x5A), refB1T6Enc(0x80)
	for i := 0; i < 729; i++ {
		g := tritsOfIndex(i, 6)
		for pos := 0; pos < 3; pos++ {
			s := [][]int8{fix6a[:], fix6b[:], fix6a[:]}
			s[pos] = g
			cat := append(append(append([]int8{}, s[0]...), s[1]...), s[2]...)
			if c14JudgeDecode(c, "b1t6", cat, "in3") {
				nontriv++
			}
		}
	}
	// all pairs of groups
	var acc [729]int64
	core.Par(729, func(i int) {
		g := tritsOfIndex(i, 6)
		for j := 0; j < 729; j++ {
			cat := append(append([]int8{}, g...), tritsOfIndex(j, 6)...)
			if c14JudgeDecode(c, "b1t6", cat, "pair") {
				acc[i]++
			}
		}
	})
	for _, a := range acc {
		nontriv += a
	}
	c.Sample(c14case{"b1t6", append(tritsOfIndex(364+3, 6), tritsOfIndex(728, 6)...)})

	// every length 0..20 with every remainder content: prefix of valid groups, remainder all 3^r combos
	for L := 0; L <= 20; L++ {
		r := L % 6
		ng := L / 6
		for _, pre := range [][6]int8{fix6a, fix6b, refB1T6Enc(0)} {
			prefix := []int8{}
			for k := 0; k < ng; k++ {
				prefix = append(prefix, pre[:]...)
			}
			combos := 1
			for k := 0; k < r; k++ {
				combos *= 3
			}
			for ci := 0; ci < combos; ci++ {
				src := append(append([]int8{}, prefix...), tritsOfIndex(ci, r)...)
				if c14JudgeDecode(c, "b1t6", src, "length") {
					nontriv++
				}
			}
		}
		// bad group followed by a remainder (both faults apply)
		if ng >= 1 && r > 0 {
			src := append([]int8{}, tritsOfIndex(728, 6)...)
			for k := 1; k < ng; k++ {
				src = append(src, fix6a[:]...)
			}
			src = append(src, tritsOfIndex(0, r)...)
			c14JudgeDecode(c, "b1t6", src, "length+bad")
		}
	}

	// tryte decoder: all 729 tryte pairs agree with the trit decoder; lengths 0..7
	for i := 0; i < 27; i++ {
		for j := 0; j < 27; j++ {
			s := string([]byte{refTryteAlphabet[i], refTryteAlphabet[j]})
			trits := trinary.MustTrytesToTrits(s)
			wb, wok := refB1T6Group(trits)
			var got []byte
			var err error
			p := core.Catch(func() { got, err = b1t6.DecodeTrytes(s) })
			c.Eval(1)
			switch {
			case p != nil:
				c.Violate("C14/b1t6/trytes/panic", fmt.Sprint(p), s, "", nil)
			case wok && (err != nil || len(got) != 1 || got[0] != wb):
				c.Violate("C14/b1t6/trytes/reject-valid", fmt.Sprintf("DecodeTrytes(%q)=%x,%v want %x", s, got, err, wb), s, "", nil)
			case !wok && err == nil:
				c.Violate("C14/b1t6/trytes/accept-invalid", fmt.Sprintf("DecodeTrytes(%q) accepted", s), s, "", nil)
			case !wok && !errors.Is(err, b1t6.ErrInvalidTrits):
				c.Violate("C14/b1t6/trytes/wrong-error", fmt.Sprintf("DecodeTrytes(%q): %v", s, err), s, "", nil)
			}
			if wok {
				nontriv++
				if re := b1t6.EncodeToTrytes(got); err == nil && re != s {
					c.Violate("C14/b1t6/trytes/not-canonical", fmt.Sprintf("%q accepted but re-encodes to %q", s, re), s, "", nil)
				}
			}
			// 3-tryte strings: odd length
			for _, third := range []byte{'9', 'A', 'Z', 'M', 'N'} {
				s3 := s + string(third)
				var e3 error
				p := core.Catch(func() { _, e3 = b1t6.DecodeTrytes(s3) })
				c.Eval(1)
				if p != nil {
					c.Violate("C14/b1t6/trytes/panic", fmt.Sprint(p), s3, "", nil)
				} else if e3 == nil {
					c.Violate("C14/b1t6/trytes/accept-odd", fmt.Sprintf("DecodeTrytes(%q) accepted", s3), s3, "", nil)
				} else if !errors.Is(e3, b1t6.ErrInvalidTrits) && !errors.Is(e3, b1t6.ErrInvalidLength) {
					c.Violate("C14/b1t6/trytes/wrong-error", fmt.Sprintf("DecodeTrytes(%q): %v", s3, e3), s3, "", nil)
				} else if wok && !errors.Is(e3, b1t6.ErrInvalidLength) {
					c.Violate("C14/b1t6/trytes/wrong-error", fmt.Sprintf("DecodeTrytes(%q): %v, want invalid length", s3, e3), s3, "", nil)
				}
			}
		}
	}
	for _, s := range []string{"", "9", "A", "Z"} {
		var got []byte
		var err error
		p := core.Catch(func() { got, err = b1t6.DecodeTrytes(s) })
		c.Eval(1)
		if p != nil {
			c.Violate("C14/b1t6/trytes/panic", fmt.Sprint(p), s, "", nil)
		} else if s == "" && (err != nil || len(got) != 0) {
			c.Violate("C14/b1t6/trytes/empty", fmt.Sprintf("DecodeTrytes(\"\")=%x,%v", got, err), s, "", nil)
		} else if s != "" && !errors.Is(err, b1t6.ErrInvalidLength) {
			c.Violate("C14/b1t6/trytes/wrong-error", fmt.Sprintf("DecodeTrytes(%q): %v, want invalid length", s, err), s, "", nil)
		}
	}

	// --- b1t8: all 6561 groups alone, in 3-group strings, lengths ---
	valid8 := 0
	for i := 0; i < 6561; i++ {
		g := tritsOfIndex(i, 8)
		if c14JudgeDecode(c, "b1t8", g, "single") {
			nontriv++
			valid8++
		}
	}
	if valid8 != 256 {
		c.Violate("C14/b1t8/codeword-count", fmt.Sprintf("%d of 6561 groups accepted, want 256", valid8), nil, "", nil)
	}
	fix8a, fix8b := refB1T8Enc(0x5A), refB1T8Enc(0x81)
	var acc8 [6561]int64
	core.Par(6561, func(i int) {
		g := tritsOfIndex(i, 8)
		for pos := 0; pos < 3; pos++ {
			s := [][]int8{fix8a[:], fix8b[:], fix8a[:]}
			s[pos] = g
			cat := append(append(append([]int8{}, s[0]...), s[1]...), s[2]...)
			if c14JudgeDecode(c, "b1t8", cat, "in3") {
				acc8[i]++
			}
		}
	})
	for _, a := range acc8 {
		nontriv += a
	}
	// groups with out-of-alphabet trit values (the decoder defines behaviour for them)
	for pos := 0; pos < 8; pos++ {
		for _, v := range []int8{2, 3, -2, -128, 127} {
			g := append([]int8{}, fix8a[:]...)
			g[pos] = v
			c14JudgeDecode(c, "b1t8", g, "nontrit")
			c14JudgeDecode(c, "b1t8", append(append([]int8{}, fix8b[:]...), g...), "nontrit")
		}
	}
	remAlpha := []int8{-1, 0, 1, 2, -128, 127}
	for L := 0; L <= 20; L++ {
		r := L % 8
		ng := L / 8
		prefix := []int8{}
		for k := 0; k < ng; k++ {
			prefix = append(prefix, fix8b[:]...)
		}
		combos := 1
		for k := 0; k < r; k++ {
			combos *= len(remAlpha)
		}
		if combos > 50000 && !c.Thorough() {
			// quick: restrict the remainder alphabet to trits for long remainders
			combos = 1
			for k := 0; k < r; k++ {
				combos *= 3
			}
			for ci := 0; ci < combos; ci++ {
				src := append(append([]int8{}, prefix...), tritsOfIndex(ci, r)...)
				c14JudgeDecode(c, "b1t8", src, "length")
			}
			continue
		}
		for ci := 0; ci < combos; ci++ {
			rem := make([]int8, r)
			x := ci
			for k := 0; k < r; k++ {
				rem[k] = remAlpha[x%len(remAlpha)]
				x /= len(remAlpha)
			}
			src := append(append([]int8{}, prefix...), rem...)
			if c14JudgeDecode(c, "b1t8", src, "length") {
				nontriv++
			}
		}
	}
	// large input (1 MiB, beyond 16-bit and 20-bit sizes), nil and empty arguments
	{
		big := make([]byte, 1<<20+3)
		for i := range big {
			big[i] = byte(i*31 + i>>11)
		}
		t6 := make(trinary.Trits, b1t6.EncodedLen(len(big)))
		t8 := make(trinary.Trits, b1t8.EncodedLen(len(big)))
		n6, n8 := b1t6.Encode(t6, big), b1t8.Encode(t8, big)
		d6, d8 := make([]byte, len(big)), make([]byte, len(big))
		m6, e6 := b1t6.Decode(d6, t6)
		m8, e8 := b1t8.Decode(d8, t8)
		c.Eval(4)
		if n6 != 6*len(big) || n8 != 8*len(big) || e6 != nil || e8 != nil || m6 != len(big) || m8 != len(big) || !bytes.Equal(d6, big) || !bytes.Equal(d8, big) {
			c.Violate("C14/environment/large-input", fmt.Sprintf("1 MiB round trip: n6=%d n8=%d m6=%d m8=%d e6=%v e8=%v", n6, n8, m6, m8, e6, e8), nil, "", nil)
		}
		for i := 0; i < len(big); i += 4099 { // spot the reference on the big encoding
			w := refB1T6Enc(big[i])
			if !bytes.Equal(int8bytes(t6[6*i:6*i+6]), int8bytes(w[:])) {
				c.Violate("C14/environment/large-input", fmt.Sprintf("byte %d of a 1 MiB input encoded wrongly", i), i, "", nil)
				break
			}
		}
		ty := b1t6.EncodeToTrytes(big[:70000])
		if back, err := b1t6.DecodeTrytes(ty); err != nil || !bytes.Equal(back, big[:70000]) {
			c.Violate("C14/environment/large-input", "70000-byte tryte round trip fails", nil, "", nil)
		}
		for _, f := range []func() (int, error){
			func() (int, error) { return b1t6.Decode(nil, nil) }, func() (int, error) { return b1t6.Decode([]byte{}, trinary.Trits{}) },
			func() (int, error) { return b1t8.Decode(nil, nil) }, func() (int, error) { return b1t8.Decode([]byte{}, trinary.Trits{}) },
			func() (int, error) { return b1t6.Encode(nil, nil), nil }, func() (int, error) { return b1t8.Encode(trinary.Trits{}, []byte{}), nil },
		} {
			var n int
			var err error
			if p := core.Catch(func() { n, err = f() }); p != nil || n != 0 || err != nil {
				c.Violate("C14/environment/nil-or-empty", fmt.Sprintf("nil/empty arguments: n=%d err=%v panic=%v", n, err, p), nil, "", nil)
			}
		}
		if d, err := b1t6.DecodeTrytes(""); err != nil || len(d) != 0 {
			c.Violate("C14/environment/nil-or-empty", "DecodeTrytes(\"\")", nil, "", nil)
		}
	}
	// long inputs (12 and 16 groups, beyond any 64-trit block) with one and two faults at every pair of positions
	for _, codec := range []string{"b1t8", "b1t6"} {
		group, ngroups := 8, 12
		faults := []int8{-1, 2}
		if codec == "b1t6" {
			group, ngroups = 6, 16
			faults = nil // b1t6 faults are whole groups out of range: replace a group by 1,1,1,1,1,1 (= 364)
		}
		base := make([]int8, 0, group*ngroups+group)
		for g := 0; g < ngroups; g++ {
			if codec == "b1t8" {
				e := refB1T8Enc(byte(g*37 + 5))
				base = append(base, e[:]...)
			} else {
				e := refB1T6Enc(byte(g*37 + 5))
				base = append(base, e[:]...)
			}
		}
		n := len(base)
		var jobs [][2]int
		for p := 0; p < n; p++ {
			for q := p; q < n; q++ {
				jobs = append(jobs, [2]int{p, q})
			}
		}
		core.Par(len(jobs), func(i int) {
			p, q := jobs[i][0], jobs[i][1]
			if codec == "b1t8" {
				for _, fp := range faults {
					for _, fq := range faults {
						src := append([]int8{}, base...)
						src[p], src[q] = fp, fq
						c14JudgeDecode(c, codec, src, "long-two-faults")
						c14JudgeDecode(c, codec, append(src, 0, 1, 0), "long-two-faults") // plus a bad-length remainder
					}
				}
			} else if p%6 == 0 && q%6 == 0 {
				src := append([]int8{}, base...)
				for k := 0; k < 6; k++ {
					src[p+k], src[q+k] = 1, 1
				}
				c14JudgeDecode(c, codec, src, "long-two-faults")
				c14JudgeDecode(c, codec, append(src, 0, 1), "long-two-faults")
			}
		})
	}
	// two invalid groups of every kind pairing (far too large, far too small, just above 127, just below -128) at every pair
	// of positions of a 40-group string, as trytes and as trits: faults must not cancel each other (sums, XORs, counters),
	// the first one is reported with the bytes before it
	{
		const groups = 40
		var valid []byte
		for g := 0; g < groups; g++ {
			valid = append(valid, byte(g*37+5))
		}
		base := []byte(b1t6.EncodeToTrytes(valid))
		kinds := []string{"MM", "NN", "TE", "FV"} // 364, -364, 128, -129 as tryte pairs (low tryte first)
		type pr struct{ p, q int }
		var prs []pr
		for p := 0; p < groups; p++ {
			for q := p + 1; q < groups; q++ {
				prs = append(prs, pr{p, q})
			}
		}
		core.Par(len(prs), func(i int) {
			p, q := prs[i].p, prs[i].q
			for _, kp := range kinds {
				for _, kq := range kinds {
					ty := append([]byte{}, base...)
					copy(ty[2*p:], kp)
					copy(ty[2*q:], kq)
					var got []byte
					var err error
					pn := core.Catch(func() { got, err = b1t6.DecodeTrytes(trinary.Trytes(ty)) })
					c.Eval(1)
					if pn != nil || err == nil || !errors.Is(err, b1t6.ErrInvalidTrits) || got != nil {
						c.Violate("C14/b1t6/trytes/two-invalid-groups", fmt.Sprintf("DecodeTrytes of %d groups with the invalid groups %q at %d and %q at %d: result %x, error %v (panic %v); want nil and invalid trits", groups, kp, p, kq, q, got, err, pn), map[string]interface{}{"trytes": string(ty)}, "", nil)
						return
					}
					tr, terr := trinary.TrytesToTrits(trinary.Trytes(ty))
					if terr == nil {
						src := make([]int8, len(tr))
						copy(src, tr)
						c14JudgeDecode(c, "b1t6", src, "two-invalid-groups")
					}
				}
			}
		})
	}
	if c.Thorough() {
		// all pairs of b1t8 groups: 43 M
		var accp [6561]int64
		core.Par(6561, func(i int) {
			g := tritsOfIndex(i, 8)
			for j := 0; j < 6561; j++ {
				cat := append(append([]int8{}, g...), tritsOfIndex(j, 8)...)
				if c14JudgeDecode(c, "b1t8", cat, "pair") {
					accp[i]++
				}
			}
		})
		for _, a := range accp {
			nontriv += a
		}
		c.Set("b1t8_all_pairs", true)
	}
	c.Sample(c14case{"b1t8", []int8{1, 0, 0, 0, 0, 0, 0, 1, 1, -1}})
	c.NonTrivial(nontriv)
	c.SetExhaustive(true)
	c.Assume = []string{"b1t6 inputs are trits in {-1,0,1} (the decoder documents other values as undefined)", "iota.go trinary helpers used by the repository are part of the code under test, the reference does its own digit arithmetic"}
}
