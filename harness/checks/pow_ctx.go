package checks

import (
	"context"
	"errors"
	"sync"
	"time"
)

// Contexts a caller may hand to Mine: every way a context can end. The soundness clause of C11/C12 ("a nonce returned
// without error meets the target") is stated for every call, whatever its context does; the family below pairs each
// kind with an unattainable target (nothing can be found, so anything returned without error is wrong) and with an
// easy one (a nonce may be returned; it must be valid).

type endedCtx struct {
	context.Context
	done chan struct{}
	mu   sync.Mutex
	err  error
	end  error
}

func (e *endedCtx) Done() <-chan struct{} { return e.done }
func (e *endedCtx) Err() error {
	e.mu.Lock()
	defer e.mu.Unlock()
	return e.err
}
func (e *endedCtx) finish() {
	e.mu.Lock()
	if e.err == nil {
		e.err = e.end
		close(e.done)
	}
	e.mu.Unlock()
}

var errShutdown = errors.New("service is shutting down")

type powCtxKind struct {
	Name string
	Make func() (context.Context, context.CancelFunc)
}

func powCtxKinds() []powCtxKind {
	after := func(d time.Duration, f func()) { time.AfterFunc(d, f) }
	custom := func(end error, d time.Duration) (context.Context, context.CancelFunc) {
		e := &endedCtx{Context: context.Background(), done: make(chan struct{}), end: end}
		if d == 0 {
			e.finish()
		} else {
			after(d, e.finish)
		}
		return e, e.finish
	}
	return []powCtxKind{
		{"cancelled before the call", func() (context.Context, context.CancelFunc) {
			ctx, cancel := context.WithCancel(context.Background())
			cancel()
			return ctx, cancel
		}},
		{"cancelled 2ms into the call", func() (context.Context, context.CancelFunc) {
			ctx, cancel := context.WithCancel(context.Background())
			after(2*time.Millisecond, cancel)
			return ctx, cancel
		}},
		{"deadline already expired", func() (context.Context, context.CancelFunc) {
			return context.WithDeadline(context.Background(), time.Now().Add(-time.Hour))
		}},
		{"timeout of 2ms expires during the call", func() (context.Context, context.CancelFunc) {
			return context.WithTimeout(context.Background(), 2*time.Millisecond)
		}},
		{"child of a context whose timeout expires during the call", func() (context.Context, context.CancelFunc) {
			p, pc := context.WithTimeout(context.Background(), 2*time.Millisecond)
			ctx, cc := context.WithCancel(p)
			return ctx, func() { cc(); pc() }
		}},
		{"cancelled with a cause before the call", func() (context.Context, context.CancelFunc) {
			ctx, cancel := context.WithCancelCause(context.Background())
			cancel(errShutdown)
			return ctx, func() { cancel(nil) }
		}},
		{"far deadline, cancelled 2ms into the call", func() (context.Context, context.CancelFunc) {
			ctx, cancel := context.WithTimeout(context.Background(), time.Hour)
			after(2*time.Millisecond, cancel)
			return ctx, cancel
		}},
		{"own Context implementation, ended before the call with its own error", func() (context.Context, context.CancelFunc) {
			return custom(errShutdown, 0)
		}},
		{"own Context implementation, ends 2ms into the call with DeadlineExceeded", func() (context.Context, context.CancelFunc) {
			return custom(context.DeadlineExceeded, 2*time.Millisecond)
		}},
	}
}
