package checks

import (
	"bytes"
	stdelliptic "crypto/elliptic"
	"fmt"
	"math/big"

	"github.com/wollac/iota-crypto-demo/pkg/slip10/btccurve"
	slipelliptic "github.com/wollac/iota-crypto-demo/pkg/slip10/elliptic"

	"verifharness/core"
	"verifharness/ref/wei"
)

func init() {
	core.Register(core.Check{ID: "C17", Level: "exploration", Run: func(c *core.Ctx) {
		waitArch := background(func() { arch386Pass(c, "C17") })
		runC17(c)
		historyPass(c, "C17")
		reentrancyPass(c, "C17")
		waitArch()
	}})
}

type c17pt struct {
	Name string `json:"name"`
	X    string `json:"x"`
	Y    string `json:"y"`
}

func c17Copies() map[string]stdelliptic.Curve {
	m := map[string]stdelliptic.Curve{"exported": btccurve.Secp256k1()}
	if ic, ok := slipelliptic.Secp256k1().(stdelliptic.Curve); ok {
		m["internal"] = ic
	}
	return m
}

func runC17(c *core.Ctx) {
	ref := wei.Secp256k1()
	n, p := ref.N, ref.P
	c.Rule = "both copies of the curve: all ordered pairs of a 60-point set (O, +-jG for j=1..16, +-(n-1)/2 G, +-(n+1)/2 G, fixed multiples) for Add, all of them for Double, 60 scalar byte strings (empty, zeros, 1..16, n-1..n+2, 2n, 2^256-1, 33-byte, zero-padded) x 6 base points for ScalarMult and ScalarBaseMult, IsOnCurve for x=0..2000 x {both roots, root+-1, 0, 1, p-1} and for all points where x^3, x^3+7 or y^2 is within 20 of the modulus (cube/square roots); oracle: affine math/big group law with identity (0,0); non-trivial = distinct (operation, operands) cases compared"
	copies := c17Copies()
	if len(copies) != 2 {
		c.Set("internal_copy_reachable", false)
	}
	// point set
	type np struct {
		name string
		k    *big.Int // multiple of G, nil for O
		pt   wei.Pt
	}
	var pts []np
	pts = append(pts, np{"O", nil, wei.O()})
	addMul := func(name string, k *big.Int) {
		pt := ref.Mul(ref.G(), k)
		pts = append(pts, np{name, k, pt})
		nk := new(big.Int).Sub(n, k)
		pts = append(pts, np{"-" + name, nk, ref.Neg(pt)})
	}
	for j := int64(1); j <= 16; j++ {
		addMul(fmt.Sprintf("%dG", j), big.NewInt(j))
	}
	// the curve's endomorphism (x, y) -> (beta*x, y), beta^3 = 1 mod p: DIFFERENT points with the SAME y coordinate (and, for
	// the third root, the same again). lambda with lambda*(x,y) = (beta*x, y) solves lambda^2 + lambda + 1 = 0 mod n.
	var lambdas []*big.Int
	if r := new(big.Int).ModSqrt(new(big.Int).Sub(n, big.NewInt(3)), n); r != nil {
		inv2 := new(big.Int).ModInverse(big.NewInt(2), n)
		for _, root := range []*big.Int{r, new(big.Int).Sub(n, r)} {
			l := new(big.Int).Sub(root, big.NewInt(1))
			l.Mul(l, inv2).Mod(l, n)
			if q := ref.Mul(ref.G(), l); q.Y.Cmp(ref.G().Y) == 0 && q.X.Cmp(ref.G().X) != 0 {
				lambdas = append(lambdas, l)
			}
		}
	}
	for li, l := range lambdas {
		for _, j := range []int64{1, 2, 5} {
			addMul(fmt.Sprintf("lambda%d*%dG (same y as %dG)", li+1, j, j), new(big.Int).Mod(new(big.Int).Mul(l, big.NewInt(j)), n))
		}
	}
	c.Set("equal_y_point_families", int64(len(lambdas)))
	h1 := new(big.Int).Rsh(new(big.Int).Sub(n, big.NewInt(1)), 1)
	h2 := new(big.Int).Rsh(new(big.Int).Add(n, big.NewInt(1)), 1)
	addMul("((n-1)/2)G", h1)
	addMul("((n+1)/2)G", h2)
	for i, s := range []string{"1f3a9c", "deadbeefcafebabe0123456789abcdef", "8000000000000000000000000000000000000000000000000000000000000000",
		"7fffffffffffffffffffffffffffffff5d576e7357a4501ddfe92f46681b20a0", "123456789abcdef0fedcba9876543210aa55aa55aa55aa5500ff00ff00ff00ff"} {
		k, _ := new(big.Int).SetString(s, 16)
		k.Mod(k, n)
		addMul(fmt.Sprintf("k%dG", i), k)
	}
	enc := func(q np) c17pt { return c17pt{q.name, q.pt.X.Text(16), q.pt.Y.Text(16)} }
	cp := func(v *big.Int) *big.Int { return new(big.Int).Set(v) }
	var nontriv int64

	for cname, cur := range copies {
		cur := cur
		// ---- Add: all ordered pairs ----
		for _, a := range pts {
			for _, b := range pts {
				want := ref.Add(a.pt, b.pt)
				class := "generic"
				switch {
				case a.pt.IsO() && b.pt.IsO():
					class = "O+O"
				case a.pt.IsO():
					class = "O+P"
				case b.pt.IsO():
					class = "P+O"
				case a.pt.Eq(b.pt):
					class = "P==Q"
				case want.IsO():
					class = "P==-Q"
				}
				var x, y *big.Int
				ax, ay, bx, by := cp(a.pt.X), cp(a.pt.Y), cp(b.pt.X), cp(b.pt.Y)
				pn := core.Catch(func() { x, y = cur.Add(ax, ay, bx, by) })
				c.Eval(1)
				nontriv++
				cas := map[string]interface{}{"copy": cname, "op": "Add", "P": enc(a), "Q": enc(b)}
				key := fmt.Sprintf("C17/%s/Add/%s", cname, class)
				gt := fmt.Sprintf("// %s: Add(%s, %s)\nfunc TestC17(t *testing.T) { c := btccurve.Secp256k1(); x1,_ := new(big.Int).SetString(%q,16); y1,_ := new(big.Int).SetString(%q,16); x2,_ := new(big.Int).SetString(%q,16); y2,_ := new(big.Int).SetString(%q,16); x,y := c.Add(x1,y1,x2,y2); t.Log(x,y) /* want %s,%s */ }",
					cname, a.name, b.name, a.pt.X.Text(16), a.pt.Y.Text(16), b.pt.X.Text(16), b.pt.Y.Text(16), want.X.Text(16), want.Y.Text(16))
				if pn != nil {
					c.Violate(key+"/panic", fmt.Sprintf("Add(%s, %s) panicked: %v", a.name, b.name, pn), cas, gt, nil)
				} else if x == nil || y == nil || x.Cmp(want.X) != 0 || y.Cmp(want.Y) != 0 {
					c.Violate(key+"/wrong", fmt.Sprintf("Add(%s, %s) = (%v,%v), group sum is (%s,%s)", a.name, b.name, x, y, want.X.Text(16), want.Y.Text(16)), cas, gt, nil)
				}
				if ax.Cmp(a.pt.X) != 0 || ay.Cmp(a.pt.Y) != 0 || bx.Cmp(b.pt.X) != 0 || by.Cmp(b.pt.Y) != 0 {
					c.Violate(key+"/input-modified", "Add modified its arguments", cas, gt, nil)
				}
			}
		}
		// ---- Double ----
		for _, a := range pts {
			want := ref.Add(a.pt, a.pt)
			class := "generic"
			if a.pt.IsO() {
				class = "O"
			}
			var x, y *big.Int
			pn := core.Catch(func() { x, y = cur.Double(cp(a.pt.X), cp(a.pt.Y)) })
			c.Eval(1)
			nontriv++
			cas := map[string]interface{}{"copy": cname, "op": "Double", "P": enc(a)}
			key := fmt.Sprintf("C17/%s/Double/%s", cname, class)
			if pn != nil {
				c.Violate(key+"/panic", fmt.Sprintf("Double(%s) panicked: %v", a.name, pn), cas, "", nil)
			} else if x == nil || y == nil || x.Cmp(want.X) != 0 || y.Cmp(want.Y) != 0 {
				c.Violate(key+"/wrong", fmt.Sprintf("Double(%s) = (%v,%v), want (%s,%s)", a.name, x, y, want.X.Text(16), want.Y.Text(16)), cas, "", nil)
			}
		}
		// ---- ScalarMult / ScalarBaseMult ----
		type sc struct {
			name string
			b    []byte
		}
		var scalars []sc
		scalars = append(scalars, sc{"empty", []byte{}}, sc{"00", []byte{0}}, sc{"32x00", make([]byte, 32)}, sc{"nil", nil})
		for j := int64(1); j <= 16; j++ {
			scalars = append(scalars, sc{fmt.Sprint(j), big.NewInt(j).Bytes()})
		}
		for _, d := range []int64{-2, -1, 0, 1, 2} {
			v := new(big.Int).Add(n, big.NewInt(d))
			scalars = append(scalars, sc{fmt.Sprintf("n%+d", d), v.Bytes()})
			scalars = append(scalars, sc{fmt.Sprintf("0-padded n%+d", d), append([]byte{0, 0}, v.Bytes()...)})
		}
		two256 := new(big.Int).Lsh(big.NewInt(1), 256)
		scalars = append(scalars, sc{"2n", new(big.Int).Lsh(n, 1).Bytes()}, sc{"2n+1", new(big.Int).Add(new(big.Int).Lsh(n, 1), big.NewInt(1)).Bytes()},
			sc{"2^256-1", new(big.Int).Sub(two256, big.NewInt(1)).Bytes()}, sc{"2^256 (33 bytes)", two256.Bytes()},
			sc{"33 bytes ff", append([]byte{0xff}, two256.Bytes()[1:]...)}, sc{"(n-1)/2", h1.Bytes()}, sc{"(n+1)/2", h2.Bytes()},
			sc{"p", p.Bytes()}, sc{"0-padded 5", []byte{0, 0, 0, 5}}, sc{"32-byte 1", append(make([]byte, 31), 1)})
		for i := 0; i < 12; i++ {
			k := new(big.Int).Exp(big.NewInt(int64(3+i)), big.NewInt(int64(97+i*13)), two256)
			scalars = append(scalars, sc{fmt.Sprintf("r%d", i), k.Bytes()})
		}
		for li, l := range lambdas { // k*B passes through the sum of two points with equal y
			for _, d := range []int64{-1, 1, 2} {
				v := new(big.Int).Add(l, big.NewInt(d))
				scalars = append(scalars, sc{fmt.Sprintf("lambda%d%+d", li+1, d), v.Mod(v, n).Bytes()})
			}
		}
		// scalars whose leading bits are a multiple of the group order: a left-to-right ladder holds the identity in the
		// middle of the computation (j*n + r, and (j*n)*2^s + r: the accumulator is the identity after the bits of j*n)
		longFrom := len(scalars)
		for j := int64(0); j <= 20; j++ {
			for r := int64(0); r <= 15; r++ {
				v := new(big.Int).Add(new(big.Int).Mul(n, big.NewInt(j)), big.NewInt(r))
				scalars = append(scalars, sc{fmt.Sprintf("%dn+%d", j, r), v.Bytes()})
			}
		}
		for _, j := range []int64{1, 2, 3, 5, 255, 256} {
			for s := uint(1); s <= 9; s++ {
				for _, r := range []int64{0, 1, 3, 1<<s - 1, 1 << (s - 1)} {
					v := new(big.Int).Add(new(big.Int).Lsh(new(big.Int).Mul(n, big.NewInt(j)), s), big.NewInt(r))
					scalars = append(scalars, sc{fmt.Sprintf("(%dn<<%d)+%d", j, s, r), v.Bytes()})
				}
			}
		}
		bases := []np{pts[1], pts[2], pts[3], pts[len(pts)-1], pts[len(pts)-4], pts[33]}
		for si, s := range scalars {
			k := new(big.Int).SetBytes(s.b)
			kr := new(big.Int).Mod(k, n)
			class := "generic"
			switch {
			case k.Sign() == 0:
				class = "zero"
			case kr.Sign() == 0:
				class = "multiple-of-n"
			case k.Cmp(n) >= 0:
				class = ">=n"
			}
			run := func(op string, base np, f func() (*big.Int, *big.Int)) {
				want := ref.Mul(base.pt, k)
				var x, y *big.Int
				pn := core.Catch(func() { x, y = f() })
				c.Eval(1)
				nontriv++
				cas := map[string]interface{}{"copy": cname, "op": op, "P": enc(base), "scalar_hex": fmt.Sprintf("%x", s.b), "scalar": s.name}
				key := fmt.Sprintf("C17/%s/%s/%s", cname, op, class)
				if pn != nil {
					c.Violate(key+"/panic", fmt.Sprintf("%s(%s, %s) panicked: %v", op, base.name, s.name, pn), cas, "", nil)
				} else if x == nil || y == nil {
					c.Violate(key+"/nil", fmt.Sprintf("%s(%s, %s) returned nil coordinates; the identity must be (0,0)", op, base.name, s.name), cas, "", nil)
				} else if x.Cmp(want.X) != 0 || y.Cmp(want.Y) != 0 {
					c.Violate(key+"/wrong", fmt.Sprintf("%s(%s, %s) = (%s,%s), want (%s,%s)", op, base.name, s.name, x.Text(16), y.Text(16), want.X.Text(16), want.Y.Text(16)), cas, "", nil)
				}
			}
			sb := append([]byte(nil), s.b...)
			run("ScalarBaseMult", pts[1], func() (*big.Int, *big.Int) { return cur.ScalarBaseMult(sb) })
			useBases := bases
			if si >= longFrom && !c.Thorough() {
				useBases = bases[:2]
			}
			for _, b := range useBases {
				b := b
				bx, by := cp(b.pt.X), cp(b.pt.Y)
				run("ScalarMult", b, func() (*big.Int, *big.Int) { return cur.ScalarMult(bx, by, sb) })
				if bx.Cmp(b.pt.X) != 0 || by.Cmp(b.pt.Y) != 0 || !bytes.Equal(sb, s.b) {
					c.Violate(fmt.Sprintf("C17/%s/ScalarMult/argument-modified", cname), fmt.Sprintf("ScalarMult(%s, %s) changed the caller's point or scalar: now (%s,%s)", b.name, s.name, bx.Text(16), by.Text(16)), map[string]interface{}{"copy": cname, "P": enc(b), "scalar_hex": fmt.Sprintf("%x", s.b)}, "", nil)
				}
			}
			if g := cur.Params(); g.Gx.Cmp(ref.G().X) != 0 || g.Gy.Cmp(ref.G().Y) != 0 {
				c.Violate(fmt.Sprintf("C17/%s/params-modified", cname), fmt.Sprintf("after ScalarBaseMult/ScalarMult with scalar %s the curve parameters hold another base point: (%s,%s)", s.name, g.Gx.Text(16), g.Gy.Text(16)), map[string]interface{}{"copy": cname, "scalar_hex": fmt.Sprintf("%x", s.b)}, "", nil)
				g.Gx.Set(ref.G().X)
				g.Gy.Set(ref.G().Y)
			}
		}
		// ---- IsOnCurve ----
		one := big.NewInt(1)
		for xi := int64(0); xi <= 2000; xi++ {
			x := big.NewInt(xi)
			var ys []*big.Int
			if pt, ok := ref.LiftX(x); ok {
				ys = append(ys, pt.Y, new(big.Int).Sub(p, pt.Y), new(big.Int).Add(pt.Y, one), new(big.Int).Sub(pt.Y, one))
			}
			ys = append(ys, big.NewInt(0), big.NewInt(1), new(big.Int).Sub(p, one))
			for _, y := range ys {
				if y.Sign() < 0 || y.Cmp(p) >= 0 {
					continue
				}
				want := ref.OnCurve(wei.Pt{X: x, Y: y})
				var got bool
				pn := core.Catch(func() { got = cur.IsOnCurve(cp(x), cp(y)) })
				c.Eval(1)
				if want {
					nontriv++
				}
				if pn != nil || got != want {
					c.Violate(fmt.Sprintf("C17/%s/IsOnCurve", cname), fmt.Sprintf("IsOnCurve(%d, %s) = %v (panic %v), want %v", xi, y.Text(16), got, pn, want), map[string]interface{}{"x": xi, "y": y.Text(16)}, "", nil)
				}
			}
		}
		// boundary family: coordinates for which an intermediate value of the curve equation lands next to 0 or p
		// (x^3 mod p, x^3+7 mod p or y^2 mod p within 20 of the modulus), found with cube and square roots
		{
			nine := big.NewInt(9)
			if new(big.Int).Mod(p, nine).Int64() == 7 {
				e3 := new(big.Int).Div(new(big.Int).Add(p, big.NewInt(2)), nine) // cube root exponent for p = 7 mod 9
				var omega *big.Int
				for h := int64(2); omega == nil; h++ {
					w := new(big.Int).Exp(big.NewInt(h), new(big.Int).Div(new(big.Int).Sub(p, one), big.NewInt(3)), p)
					if w.Cmp(one) != 0 {
						omega = w
					}
				}
				cubeRoots := func(a *big.Int) []*big.Int {
					x := new(big.Int).Exp(a, e3, p)
					if new(big.Int).Exp(x, big.NewInt(3), p).Cmp(new(big.Int).Mod(a, p)) != 0 {
						return nil
					}
					x2 := new(big.Int).Mod(new(big.Int).Mul(x, omega), p)
					x3 := new(big.Int).Mod(new(big.Int).Mul(x2, omega), p)
					return []*big.Int{x, x2, x3}
				}
				var cand []wei.Pt
				for d := int64(-20); d <= 20; d++ {
					// x^3 = d  (so x^3+7 is d+7), and x^3 + 7 = d
					for _, a := range []*big.Int{new(big.Int).Mod(big.NewInt(d), p), new(big.Int).Mod(big.NewInt(d-7), p)} {
						for _, x := range cubeRoots(a) {
							if pt, ok := ref.LiftX(x); ok {
								cand = append(cand, pt, ref.Neg(pt))
							} else {
								cand = append(cand, wei.Pt{X: x, Y: big.NewInt(1)}, wei.Pt{X: x, Y: new(big.Int).Sub(p, one)})
							}
						}
					}
					// y = d (small or just below p): x^3 = y^2 - 7
					y := new(big.Int).Mod(big.NewInt(d), p)
					a := new(big.Int).Mod(new(big.Int).Sub(new(big.Int).Mul(y, y), big.NewInt(7)), p)
					for _, x := range cubeRoots(a) {
						cand = append(cand, wei.Pt{X: x, Y: y})
					}
				}
				onc := 0
				for _, q := range cand {
					want := ref.OnCurve(q)
					if want {
						onc++
						nontriv++
					}
					var got bool
					pn := core.Catch(func() { got = cur.IsOnCurve(cp(q.X), cp(q.Y)) })
					c.Eval(1)
					if pn != nil || got != want {
						c.Violate(fmt.Sprintf("C17/%s/IsOnCurve/boundary", cname), fmt.Sprintf("IsOnCurve(%s, %s) = %v (panic %v), want %v (x^3+7 or y^2 next to the modulus)", q.X.Text(16), q.Y.Text(16), got, pn, want), map[string]interface{}{"x": q.X.Text(16), "y": q.Y.Text(16)}, "", nil)
					}
					if want { // a genuine curve point: the group law must hold for it too
						nq := ref.Mul(q, big.NewInt(5))
						x5, y5 := cur.ScalarMult(cp(q.X), cp(q.Y), []byte{5})
						if x5 == nil || x5.Cmp(nq.X) != 0 || y5.Cmp(nq.Y) != 0 {
							c.Violate(fmt.Sprintf("C17/%s/ScalarMult/boundary-point", cname), "5*P wrong for a boundary point", map[string]interface{}{"x": q.X.Text(16), "y": q.Y.Text(16)}, "", nil)
						}
					}
				}
				c.Set("boundary_points_on_curve_"+cname, int64(onc))
			}
		}
		for _, a := range pts {
			want := !a.pt.IsO()
			var got bool
			pn := core.Catch(func() { got = cur.IsOnCurve(cp(a.pt.X), cp(a.pt.Y)) })
			c.Eval(1)
			if pn != nil || got != want {
				c.Violate(fmt.Sprintf("C17/%s/IsOnCurve", cname), fmt.Sprintf("IsOnCurve(%s) = %v (panic %v), want %v", a.name, got, pn, want), enc(a), "", nil)
			}
			// a point with x of the curve and y of another point
			if !a.pt.IsO() {
				if cur.IsOnCurve(cp(a.pt.X), cp(pts[1].pt.Y)) != ref.OnCurve(wei.Pt{X: a.pt.X, Y: pts[1].pt.Y}) {
					c.Violate(fmt.Sprintf("C17/%s/IsOnCurve", cname), "mixed coordinates", enc(a), "", nil)
				}
			}
		}
		pr := cur.Params()
		if pr.P.Cmp(p) != 0 || pr.N.Cmp(n) != 0 || pr.Gx.Cmp(ref.Gx) != 0 || pr.Gy.Cmp(ref.Gy) != 0 || pr.B.Cmp(ref.B) != 0 || pr.BitSize != 256 {
			c.Violate(fmt.Sprintf("C17/%s/params", cname), "curve parameters differ from SEC 2 2.4.1", nil, "", nil)
		}
	}
	c.Sample(map[string]interface{}{"op": "Add", "P": "G", "Q": "-G", "want": "(0,0)"})
	c.Sample(map[string]interface{}{"op": "ScalarBaseMult", "scalar": "n+2", "want": "2G"})
	c.NonTrivial(nontriv)
	c.SetExhaustive(true)
	c.Assume = []string{"reference: affine math/big arithmetic, itself checked against crypto/elliptic P-256 and known secp256k1 multiples in its unit tests", "ScalarMult with the identity as base point is outside the enumerated space (crypto/elliptic leaves it undefined)"}
}
