// Package core holds the plumbing shared by all checks: evidence, violations, known findings,
// replay files and a small parallel-for.
package core

import (
	"bufio"
	"encoding/json"
	"fmt"
	"os"
	"path/filepath"
	"regexp"
	"runtime"
	"sort"
	"strconv"
	"strings"
	"sync"
	"sync/atomic"
	"time"
)

// VerifDir is the root of the verification tree.
var VerifDir = func() string {
	if d := os.Getenv("VERIF_DIR"); d != "" {
		return d
	}
	return "/verif"
}()

// RepoDir is the repository under verification.
var RepoDir = func() string {
	if d := os.Getenv("VERIF_REPO"); d != "" {
		return d
	}
	return "/repo"
}()

// Violation is one failing case.
type Violation struct {
	Key    string      `json:"key"`    // input-class specific key, e.g. C17/Add/P==Q
	What   string      `json:"what"`   // human description: observed vs expected
	Case   interface{} `json:"case"`   // the failing input / op list / schedule
	GoTest string      `json:"gotest"` // plain Go test reproducing it (optional)
	Count  int64       `json:"count"`  // how many cases fell into this key
}

// Ctx is the per-run context of one check.
type Ctx struct {
	ID    string
	Tier  string
	Seed  int64
	Level string

	start time.Time
	mu    sync.Mutex
	viol  map[string]*Violation
	order []string

	evals      atomic.Int64
	nontrivial atomic.Int64
	Rule       string
	samples    []interface{}
	extra      map[string]interface{}
	Assume     []string
	exhaustive bool
	exhSet     bool
	deadline   time.Time
	capHit     atomic.Bool
	abort      string
}

// New creates the context. Level is the evidence level.
func New(id, tier, level string) *Ctx {
	seed := int64(1)
	if s := os.Getenv("VERIF_SEED"); s != "" {
		if v, err := strconv.ParseInt(s, 10, 64); err == nil {
			seed = v
		}
	}
	c := &Ctx{ID: id, Tier: tier, Seed: seed, Level: level, start: time.Now(),
		viol: map[string]*Violation{}, extra: map[string]interface{}{}}
	// internal time budget: never turns into a violation, only into exhaustive:false
	budget := 20 * time.Minute
	if tier == "quick" {
		budget = 4 * time.Minute
	}
	if s := os.Getenv("VERIF_BUDGET_S"); s != "" {
		if v, err := strconv.Atoi(s); err == nil {
			budget = time.Duration(v) * time.Second
		}
	}
	c.deadline = c.start.Add(budget)
	return c
}

// Thorough reports whether the tier is thorough.
func (c *Ctx) Thorough() bool { return c.Tier == "thorough" }

// OverBudget reports whether the internal time budget is used up; it records that a cap was hit.
func (c *Ctx) OverBudget() bool {
	if time.Now().After(c.deadline) {
		c.capHit.Store(true)
		return true
	}
	return false
}

// CapHit records that some internal cap was reached (the run is reported as not exhaustive).
func (c *Ctx) CapHit() { c.capHit.Store(true) }

// Eval counts evaluated cases.
func (c *Ctx) Eval(n int64) { c.evals.Add(n) }

// NonTrivial counts distinct non-trivial cases (the caller guarantees distinctness by construction).
func (c *Ctx) NonTrivial(n int64) { c.nontrivial.Add(n) }

// Evals returns the current count.
func (c *Ctx) Evals() int64 { return c.evals.Load() }

// Sample records an example case (at most 12 are kept).
func (c *Ctx) Sample(s interface{}) {
	c.mu.Lock()
	defer c.mu.Unlock()
	if len(c.samples) < 12 {
		c.samples = append(c.samples, s)
	}
}

// Set records an extra coverage key.
func (c *Ctx) Set(k string, v interface{}) {
	c.mu.Lock()
	defer c.mu.Unlock()
	c.extra[k] = v
}

// Add adds to an integer coverage key.
func (c *Ctx) Add(k string, n int64) {
	c.mu.Lock()
	defer c.mu.Unlock()
	old, _ := c.extra[k].(int64)
	c.extra[k] = old + n
}

// SetExhaustive states whether the stated space was enumerated completely.
func (c *Ctx) SetExhaustive(b bool) { c.exhaustive, c.exhSet = b, true }

// Abort makes the run end with exit 3 (machinery failure, not a violation).
func (c *Ctx) Abort(format string, a ...interface{}) {
	c.mu.Lock()
	defer c.mu.Unlock()
	if c.abort == "" {
		c.abort = fmt.Sprintf(format, a...)
	}
}

// Violate records a violation under an input-class key. recheck (optional) re-executes the case
// and must return true if it still violates; it is run 5 times and a disagreement aborts the run.
func (c *Ctx) Violate(key, what string, cas interface{}, gotest string, recheck func() bool) {
	c.mu.Lock()
	v, ok := c.viol[key]
	if ok {
		v.Count++
		c.mu.Unlock()
		return
	}
	v = &Violation{Key: key, What: what, Case: cas, GoTest: gotest, Count: 1}
	c.viol[key] = v
	c.order = append(c.order, key)
	c.mu.Unlock()
	if recheck != nil {
		for i := 0; i < 5; i++ {
			if !recheck() {
				// The case was judged while other cases ran on other goroutines; evaluated again on its own it gives the
				// specified result. The harness' inputs are immutable, so the code under test returned two different results
				// for the same arguments: calls interfere with each other (shared scratch state). That breaks a property
				// stated per call, and is reported as such, under its own key.
				c.mu.Lock()
				v.Key = key + "/only-under-concurrent-calls"
				v.What = what + " [the same call evaluated alone afterwards gives the specified result: concurrent calls interfere]"
				delete(c.viol, key)
				if _, dup := c.viol[v.Key]; !dup {
					c.viol[v.Key] = v
					for i, k := range c.order {
						if k == key {
							c.order[i] = v.Key
						}
					}
				} else {
					for i, k := range c.order {
						if k == key {
							c.order = append(c.order[:i], c.order[i+1:]...)
							break
						}
					}
				}
				c.mu.Unlock()
				return
			}
		}
	}
}

// NumViolations returns the number of distinct violation keys so far.
func (c *Ctx) NumViolations() int {
	c.mu.Lock()
	defer c.mu.Unlock()
	return len(c.viol)
}

type knownLine struct {
	kind, prop, key, rest string
}

var kfRe = regexp.MustCompile(`^(known|fixed):\s+property=(\S+)\s+(.*)$`)

func loadKnown() []knownLine {
	f, err := os.Open(filepath.Join(VerifDir, "known_findings.txt"))
	if err != nil {
		return nil
	}
	defer f.Close()
	var out []knownLine
	sc := bufio.NewScanner(f)
	for sc.Scan() {
		line := strings.TrimSpace(sc.Text())
		if line == "" || strings.HasPrefix(line, "#") {
			continue
		}
		m := kfRe.FindStringSubmatch(line)
		if m == nil {
			continue
		}
		kl := knownLine{kind: m[1], prop: m[2], rest: m[3]}
		if kl.kind == "known" {
			f := strings.Fields(m[3])
			if len(f) > 0 && strings.HasPrefix(f[0], "key=") {
				kl.key = strings.TrimPrefix(f[0], "key=")
				kl.rest = strings.TrimSpace(strings.TrimPrefix(m[3], f[0]))
			}
		}
		out = append(out, kl)
	}
	return out
}

// Finish writes evidence and replay files, prints the verdict lines and returns the exit code.
func (c *Ctx) Finish() int {
	wall := time.Since(c.start).Seconds()
	known := loadKnown()
	nviol := 0
	var lines []string
	sort.Strings(c.order)
	for _, k := range c.order {
		v := c.viol[k]
		isKnown := false
		for _, kl := range known {
			if kl.kind == "known" && kl.prop == c.ID && kl.key == v.Key {
				isKnown = true
				lines = append(lines, fmt.Sprintf("KNOWN-FINDING: property=%s key=%s %s", c.ID, v.Key, kl.rest))
			}
		}
		if isKnown {
			continue
		}
		nviol++
		safe := regexp.MustCompile(`[^A-Za-z0-9_.=-]+`).ReplaceAllString(v.Key, "_")
		if len(safe) > 100 {
			safe = safe[:100]
		}
		path := filepath.Join(VerifDir, "replays", safe+".json")
		os.MkdirAll(filepath.Dir(path), 0o755)
		b, _ := json.MarshalIndent(map[string]interface{}{
			"property": c.ID, "key": v.Key, "what": v.What, "case": v.Case, "gotest": v.GoTest,
			"cases_in_class": v.Count, "tier": c.Tier,
		}, "", " ")
		os.WriteFile(path, b, 0o644)
		if nviol <= 25 {
			lines = append(lines, fmt.Sprintf("VIOLATION property=%s replay=%s", c.ID, path))
			lines = append(lines, fmt.Sprintf("  key=%s cases=%d: %s", v.Key, v.Count, v.What))
		}
	}

	cov := map[string]interface{}{}
	for k, v := range c.extra {
		cov[k] = v
	}
	cov["evaluations"] = c.evals.Load()
	cov["distinct_nontrivial"] = c.nontrivial.Load()
	cov["rule"] = c.Rule
	if len(c.samples) == 0 {
		c.samples = append(c.samples, "none recorded")
	}
	cov["samples"] = c.samples
	exh := c.exhaustive && c.exhSet && !c.capHit.Load()
	cov["exhaustive"] = exh
	if c.capHit.Load() {
		cov["cap_hit"] = "internal time budget reached; counts above are what was covered completely"
	}
	ev := map[string]interface{}{
		"property_id": c.ID, "tier": c.Tier, "seed": c.Seed, "level": c.Level,
		"coverage": cov, "assumptions": c.Assume, "wall_s": wall, "violations": nviol,
	}
	if c.Assume == nil {
		ev["assumptions"] = []string{}
	}
	b, _ := json.MarshalIndent(ev, "", " ")
	os.MkdirAll(filepath.Join(VerifDir, "evidence"), 0o755)
	if err := os.WriteFile(filepath.Join(VerifDir, "evidence", c.ID+".json"), b, 0o644); err != nil {
		fmt.Fprintln(os.Stderr, "cannot write evidence:", err)
		return 3
	}
	if c.abort != "" {
		fmt.Printf("ABORT property=%s: %s\n", c.ID, c.abort)
		return 3
	}
	for _, l := range lines {
		fmt.Println(l)
	}
	fmt.Printf("%s %s: evaluations=%d nontrivial=%d violations=%d exhaustive=%v wall=%.1fs\n",
		c.ID, c.Tier, c.evals.Load(), c.nontrivial.Load(), nviol, exh, wall)
	if nviol > 0 {
		return 1
	}
	return 0
}

// Par runs f(i) for i in [0,n) on all cores.
func Par(n int, f func(i int)) {
	w := runtime.GOMAXPROCS(0)
	if w > n {
		w = n
	}
	if w <= 1 {
		for i := 0; i < n; i++ {
			f(i)
		}
		return
	}
	var next atomic.Int64
	var wg sync.WaitGroup
	for k := 0; k < w; k++ {
		wg.Add(1)
		go func() {
			defer wg.Done()
			for {
				i := int(next.Add(1) - 1)
				if i >= n {
					return
				}
				f(i)
			}
		}()
	}
	wg.Wait()
}

// Catch runs f and returns the recovered panic value (nil if none).
func Catch(f func()) (p interface{}) {
	defer func() {
		if r := recover(); r != nil {
			p = r
			if p == nil {
				p = "nil panic"
			}
		}
	}()
	f()
	return nil
}

// Check is a registered check.
type Check struct {
	ID    string
	Level string
	Run   func(c *Ctx)
}

var registry = map[string]Check{}

// Register adds a check.
func Register(ch Check) { registry[ch.ID] = ch }

// Lookup finds a check.
func Lookup(id string) (Check, bool) { ch, ok := registry[id]; return ch, ok }

// IDs lists registered ids.
func IDs() []string {
	var s []string
	for k := range registry {
		s = append(s, k)
	}
	sort.Strings(s)
	return s
}
