#!/bin/bash
# usage: tools/recheck_benign.sh [Cxx ...] — applies every stored property-PRESERVING change (benign/<id>-<x>/patch.diff) of
# the given properties (all if none given), runs the quick check, which must stay silent (exit 0, no VIOLATION), and
# restores /repo. Prints SILENT / ALARM / BROKEN per change.
cd "$(dirname "$0")/.."
IDS="$*"; [ -z "$IDS" ] && IDS=$(ls benign | sed 's/-.*//' | sort -u)
for id in $IDS; do
  for d in benign/$id-*; do
    [ -f "$d/patch.diff" ] || continue
    git -C /repo apply "$(pwd)/$d/patch.diff" || { echo "$d: patch does not apply"; continue; }
    OUT=$(timeout 3000 ./run.sh "$id" quick 2>&1); RC=$?
    git -C /repo checkout -- . ; git -C /repo clean -fdq -e pkg/curl/asm/asm
    case $RC in
      0) echo "$d SILENT $(echo "$OUT" | tail -1 | cut -c1-160)";;
      1) echo "$d ALARM $(echo "$OUT" | grep -m1 'key=' | cut -c1-200)";;
      *) echo "$d BROKEN exit=$RC $(echo "$OUT" | tail -2 | cut -c1-200)";;
    esac
  done
done
