#!/bin/bash
# usage: tools/try_benign.sh <Cxx> <dir with patch.diff> [tier] — applies a property-PRESERVING change to /repo, runs the
# check (which must stay silent: exit 0, no VIOLATION), and restores /repo.
ID="$1"; SRC="$2"; TIER="${3:-quick}"
cd "$(dirname "$0")/.."
git -C /repo apply --check "$SRC/patch.diff" || { echo "BENIGN $ID $SRC: patch does not apply"; exit 2; }
git -C /repo apply "$SRC/patch.diff"
OUT=$(./run.sh "$ID" "$TIER" 2>&1); RC=$?
git -C /repo checkout -- . ; git -C /repo clean -fdq -e pkg/curl/asm/asm
echo "BENIGN $ID $SRC: exit=$RC"
echo "$OUT" | grep -E "VIOLATION|key=|ABORT|BUILD-FAILED|PRE-STEP|note:|$ID $TIER:" | cut -c1-400 | head -12
exit $RC
