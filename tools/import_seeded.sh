#!/bin/bash
# usage: tools/import_seeded.sh <Cxx> <variant> — confirms /tmp/seeded/<Cxx>/<variant>, runs the check, stores under seeded/
ID="$1"; X="$2"; ROOT="${3:-/tmp/seeded}"; DX="${4:-$X}"; SRC=$ROOT/$ID/$X
cd "$(dirname "$0")/.."
[ -f "$SRC/patch.diff" ] || exit 0
OUT=$(tools/try_seeded.sh "$ID" "$SRC" 2>&1)
DST=seeded/$ID-$DX
mkdir -p "$DST"
cp "$SRC/patch.diff" "$DST/patch.diff"
DEMO=$(ls "$SRC"/demo_test.go "$SRC"/demo/main.go 2>/dev/null | head -1)
cp "$DEMO" "$DST/$(basename "$DEMO").txt"   # .txt: not compiled by accident
python3 - "$SRC/meta.json" "$DST/meta.json" "$ID" <<PY
import json,sys
m=json.load(open(sys.argv[1]))
out=open('/dev/stdin').read() if False else None
m['property']=sys.argv[3]
m['origin']='written by an independent sub-agent from the property text only (no access to /verif)'
json.dump(m,open(sys.argv[2],'w'),indent=1)
PY
printf '%s' "$OUT" > /tmp/import_out.$$
python3 - "$DST/meta.json" /tmp/import_out.$$ "$ID" "$DX" <<'PY'
import json,sys,re
out=open(sys.argv[2],errors='replace').read()
ID,X=sys.argv[3],sys.argv[4]
m=json.load(open(sys.argv[1]))
res=[l for l in out.splitlines() if l.startswith('RESULT')]
keys=sorted(set(re.findall(r'key=(\S+?)(?: cases=|:| |$)', out)))
m['confirmed']=res[0] if res else 'no result'
m['check_cmd']='git -C /repo apply seeded/%s-%s/patch.diff && ./run.sh %s quick; git -C /repo checkout -- .' % (ID,X,ID)
m['caught']=bool(keys)
m['violation_keys']=keys
json.dump(m,open(sys.argv[1],'w'),indent=1)
print('%s-%s'%(ID,X), 'CAUGHT' if keys else 'MISSED', res[0] if res else '', keys[:3])
PY
rm -f /tmp/import_out.$$
