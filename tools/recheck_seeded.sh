#!/bin/bash
# usage: tools/recheck_seeded.sh [Cxx ...] — re-runs the quick check of every stored seeded change of the given properties
# (all if none given) and prints CAUGHT / MISSED per change. /repo is restored after every run.
cd "$(dirname "$0")/.."
IDS="$*"; [ -z "$IDS" ] && IDS=$(ls seeded | sed 's/-.*//' | sort -u)
for id in $IDS; do
  for d in seeded/$id-*; do
    [ -f "$d/patch.diff" ] || continue
    git -C /repo apply "$(pwd)/$d/patch.diff" || { echo "$d: patch does not apply"; continue; }
    # a change that breaks another property than the one it was written for names that check in its meta.json
    run=$(python3 -c "import json;print(json.load(open('$d/meta.json')).get('caught_by_other_check',{}).get('check','$id'))" 2>/dev/null || echo "$id")
    OUT=$(./run.sh "$run" quick 2>&1); RC=$?
    git -C /repo checkout -- . ; git -C /repo clean -fdq -e pkg/curl/asm/asm
    if [ $RC -eq 1 ] && echo "$OUT" | grep -q "^VIOLATION property=$run"; then
      echo "$d CAUGHT $(echo "$OUT" | grep -m1 'key=' | cut -c1-160)"
    else
      echo "$d MISSED exit=$RC $(echo "$OUT" | tail -1 | cut -c1-200)"
    fi
  done
done
