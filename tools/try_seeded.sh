#!/bin/bash
# usage: tools/try_seeded.sh <Cxx> <variant dir e.g. /tmp/seeded/C01/a> [tier]
# Confirms an independently written property-breaking change (suite passes with it, its demonstration fails with it
# and passes without it) in a scratch worktree, then applies it to /repo, runs the check, and reverts /repo.
ID="$1"; SRC="$2"; TIER="${3:-quick}"
export GOFLAGS=-mod=mod GOPROXY=off GOSUMDB=off GOTOOLCHAIN=local
cd "$(dirname "$0")/.."
V=/tmp/wt/verify-$$
git -C /repo worktree add -q --detach "$V" HEAD || exit 3
cleanup() { git -C /repo worktree remove --force "$V" >/dev/null 2>&1; }
trap cleanup EXIT
res() { echo "RESULT $ID $(basename "$SRC"): $*"; }
git -C "$V" apply --check "$SRC/patch.diff" 2>/dev/null || { res "patch does not apply"; exit 0; }
DEMO_PATH=$(python3 -c "import json;print(json.load(open('$SRC/meta.json')).get('demo_path',''))")
DEMO_CMD=$(python3 -c "import json;print(json.load(open('$SRC/meta.json')).get('demo_cmd',''))")
DEMO_FILE=$(ls "$SRC"/demo_test.go "$SRC"/demo/main.go 2>/dev/null | head -1)
[ -n "$DEMO_FILE" ] || { res "no demo file"; exit 0; }
# demo on the pristine tree
mkdir -p "$V/$(dirname "$DEMO_PATH")"; cp "$DEMO_FILE" "$V/$DEMO_PATH"
DEMO_CMD_V=$(echo "$DEMO_CMD" | sed -E -e "s#/tmp/wt[0-9]*/$ID#$V#g" -e "s#<repo>#$V#g" -e "s#<worktree>#$V#g")
( cd "$V" && timeout 900 bash -c "$DEMO_CMD_V" ) >/tmp/demo_pristine.$$ 2>&1; P=$?
git -C "$V" apply "$SRC/patch.diff"
( cd "$V" && timeout 900 bash -c "$DEMO_CMD_V" ) >/tmp/demo_mut.$$ 2>&1; M=$?
rm -f "$V/$DEMO_PATH"
( cd "$V" && go build ./... && go test -vet=off -count=1 ./... 2>&1 | grep -v "no test files" | grep -v "internal/wordlists" | grep -E "^(FAIL|---|ok|panic)" | grep -v "^ok" | grep -v "TestEnglish\|TestJapanese" | grep -v "^FAIL$" ) >/tmp/suite.$$ 2>&1
SUITE="passes"; [ -s /tmp/suite.$$ ] && SUITE="FAILS: $(head -3 /tmp/suite.$$ | tr '\n' ' ')"
# the check(s) against /repo with the patch applied
git -C /repo apply "$SRC/patch.diff" || { res "cannot apply to /repo"; exit 0; }
OUT=$(./run.sh "$ID" "$TIER" 2>&1 | grep -E "VIOLATION|KNOWN|ABORT|BUILD|PRE-STEP|CRASH|key=|^$ID " | cut -c1-260 | head -8)
git -C /repo checkout -- . ; git -C /repo clean -fdq -e pkg/curl/asm/asm
DIRTY=$(git -C /repo status --short | grep -v 'asm/asm')
res "demo pristine exit=$P, demo with change exit=$M, suite $SUITE"
echo "$OUT"
[ -n "$DIRTY" ] && echo "WARNING /repo dirty: $DIRTY"
rm -f /tmp/demo_pristine.$$ /tmp/demo_mut.$$ /tmp/suite.$$
