#!/usr/bin/env python3
"""Regenerates /verif/MANIFEST.json from the table below (single source of truth for claimed checks)."""
import json, os
HERE = os.path.dirname(os.path.dirname(os.path.abspath(__file__)))
props = [json.loads(l) for l in open(os.path.join(HERE, 'properties.jsonl'))]

E1 = "exhaustive bounded input enumeration (deviation-bounded + complete products of small alphabets), every case executed on the real code and judged by an independent reference model"
# id -> (category, engine, technique, text, note)
CHECKS = {
 "C10": ("exploration", "E1", E1,
   "all strings of length <=6 (thorough <=7) over a 10-symbol alphabet that contains every shortcut visible in the parser (digits incl. 0/8/9, m, /, both hardened markers, an out-of-alphabet byte), complete component product around 2^31/2^32/2^64, and the String/Parse round trip on all paths of length <=3 over boundary indices; oracle = hand-written grammar of the property",
   "bounded alphabet/length; every byte outside the alphabet is assumed to behave like the representative 'x'"),
 "C14": ("exploration", "E1", E1,
   "complete enumeration of all 256 bytes, all byte pairs, all 729 b1t6 / 6561 b1t8 groups alone and embedded, all pairs of b1t6 groups (thorough: all 43M pairs of b1t8 groups) and every length 0..20 with every remainder content, against a digit-by-digit reference",
   "b1t6 decoder inputs restricted to trits {-1,0,1} (documented precondition); longer strings are covered through the per-group independence that pairs/triples exercise"),
 "C15": ("exploration", "E1", E1,
   "every leaf count 0..1200 (thorough 0..20000) and around powers of two up to 2^17 against an independent bottom-up construction, RFC 9162 audit paths for every leaf of every n<=300, every set of <=2 failing leaves for n<=33, four hash functions, four leaf-content families",
   "bounded n; trusts Go's hash implementations"),
}
ORDER = sorted(CHECKS)
checks = []
for pid in ORDER:
    cat, eng, tech, text, note = CHECKS[pid]
    checks.append({
        "property_id": pid,
        "quick_cmd": f"./run.sh {pid} quick",
        "thorough_cmd": f"./run.sh {pid} thorough",
        "evidence_file": f"evidence/{pid}.json",
        "engine": eng,
        "level_claimed": {"category": cat, "text": text, "design_ref": f"DESIGN.md section 2, {pid}"},
        "level_note": note,
        "technique": tech,
    })
na = [{"property_id": p["id"], "reason": "check under construction in this session (design in DESIGN.md section 2); not claimed until it runs clean"} for p in props if p["id"] not in CHECKS]
m = {
 "version": 1,
 "setup_cmd": "./setup.sh",
 "hooks": {"guard": "verif", "enable": "go build -tags verif (run.sh builds the harness module /verif/harness, which replaces github.com/wollac/iota-crypto-demo => /repo, so every check rebuilds from /repo's working tree)",
           "baseline_off_cmd": "cd /repo && GOFLAGS=-mod=mod go test -vet=off -count=1 -timeout 25m ./... && cd pkg/curl/asm && GOFLAGS=-mod=mod go test -vet=off -count=1 ./...",
           "source_commits": ["bb9477e"], "add_only": True},
 "engines": [
   {"name": "E1", "path": "harness/checks", "serves_properties": [p for p in ORDER if CHECKS[p][1] == "E1"], "kind_free_text": "deviation-bounded exhaustive input enumeration against reference models"},
 ],
 "checks": checks,
 "not_applicable": na,
 "notes": "All checks: cd /verif && ./run.sh <id> <quick|thorough>. known_findings.txt lists fixed/known defects. See DESIGN.md.",
}
json.dump(m, open(os.path.join(HERE, 'MANIFEST.json'), 'w'), indent=1)
print("claimed:", ORDER, "not applicable:", [x["property_id"] for x in na])
