#!/usr/bin/env python3
"""Regenerates /verif/MANIFEST.json from the table below (single source of truth for claimed checks)."""
import json, os
HERE = os.path.dirname(os.path.dirname(os.path.abspath(__file__)))
props = [json.loads(l) for l in open(os.path.join(HERE, 'properties.jsonl'))]

E1 = "exhaustive bounded input enumeration (deviation-bounded + complete products of small alphabets), every case executed on the real code and judged by an independent reference model"
# id -> (category, engine, technique, text, note)
CHECKS = {
 "C02": ("exploration", "E1+E2", E1 + "; retry branches: explicit-state exploration of every scripted curve-answer sequence (environment answers) up to length 4",
   "three real curves x seeds x all 259 paths of length <=3 over boundary indices: every node (private key, chain code, public key, fingerprint) against a SLIP-0010 reference written from the specification over independent affine math/big arithmetic, the prefix/extension law, undefined derivations; all 90 scripted curve-answer sequences (valid / ErrInvalidKey / wrapped / permanent) with the input of every retry compared to the specification's chain; a toy curve rejecting 3/4 of all candidates over 256 seeds x 21 paths so that hash-driven retries actually occur (histogram in evidence)",
   "bounded seeds/paths; HMAC/SHA/RIPEMD from the standard libraries are trusted; the reference is validated on SLIP-0010 vector 1 for all three curves"),
 "C04": ("exploration", "E1", E1,
   "all byte strings of length <=2 and length 3 over 48 bytes (thorough: all 16.8M 3-byte strings), all strings of <=6 (thorough 7) runes over a 12-rune alphabet including DEL, 0x80 and U+212A, checksum-valid strings for every data length 0..84 x every last symbol and all symbol sequences of length <=3, ~200k deviations (every byte substitution, deletion, insertion, case flip, multi-byte rune, case-flip+substitution pairs) from 13 valid base strings, the 89/90/91 length boundary; oracle = transcription of the BIP-173 reference incl. strict 5->8 regrouping; also checks panics, SyntaxError.Offset inside the input and no result alongside an error",
   "bounded deviation depth (<=2 from a valid string); the BIP-173 reference transcription is validated against BIP-173's vector lists at start-up"),
 "C05": ("exploration", "E1", E1,
   "the complete 84x52 product of hrp length 0..83 and data length 0..51 with several fillings, every single byte and selected runes as hrp character, all case placements, every data byte value at every 8->5 residue; oracle = BIP-173 reference; Decode(Encode) checked on every success",
   "contents per (length,length) cell are representative fillings, not all strings"),
 "C08": ("exploration", "E1", E1,
   "per curve all pairs of 18 private scalars x ~22 shifts chosen to hit shift=0, shift=k, shift=n-k, shift>=n and neighbours, through PrivateKey.Shift and PublicKey.Shift (both-invalid or matching results, no panic, equal to the reference), and 6 extended parents x 128 (thorough 512) non-hardened indices through both derivation sides incl. chain code and fingerprint",
   "bounded scalar/shift alphabets; reference arithmetic ref/wei"),
 "C16": ("model_checking", "E5", "explicit-state enumeration of the checksum's linear syndrome model (all single and pair error syndromes inside the 89-symbol window, taken from the real polymod) + conformance replay of every weight-1/2 (thorough: weight-3) pattern on the real polymod and through the real Decode",
   "decides the <=4-error claim for every string length up to 90 at the level of syndromes: no zero single, all 2759 singles distinct, no pair equal to a single, all 3,763,276 pair syndromes distinct; the model is bound to the code by replaying additivity for every weight-2 pattern on three base vectors (thorough: every weight-3 pattern) and every weight<=2 (short words <=3, thorough <=4) substitution incl. same-kind hrp substitutions through the real Decode; a model collision is only reported after it is realised as an accepted corrupted string",
   "GF(2)-linearity of the polymod beyond the replayed weights for long strings; window fixed at 89 symbols (90 would be a false alarm, see DESIGN)"),
 "C17": ("exploration", "E1", E1,
   "both copies of the curve (the exported package and the internal one reached through elliptic.Secp256k1()): all 3600 ordered pairs of a 60-point set containing O, +-jG, +-(n+-1)/2 G for Add, all for Double, 60 scalar byte strings x 6 base points for ScalarMult/ScalarBaseMult (empty, zero, >=n, 33-byte, zero-padded), IsOnCurve for x=0..2000 with both roots and neighbours; oracle = affine math/big group law with identity (0,0)",
   "bounded point/scalar sets chosen to contain every special case of Jacobian arithmetic; ScalarMult with the identity as base point excluded"),
 "C19": ("exploration", "E1", E1,
   "11 hrps x every version byte 0..255 x every payload length that fits x 2 fillings through ParseBech32 (accept iff known prefix, known version, exact length; re-encoding equals the lower-cased input), invalid Bech32 spellings, round trip of the 3 address kinds x 4 prefixes x 64 hashes, migration: 300 addresses, every single-tryte substitution, non-tryte characters, length/prefix/suffix changes: accepted => canonical",
   "bounded payload contents; BIP-173 reference builds the inputs"),
 "C10": ("exploration", "E1", E1,
   "all strings of length <=6 (thorough <=7) over a 10-symbol alphabet that contains every shortcut visible in the parser (digits incl. 0/8/9, m, /, both hardened markers, an out-of-alphabet byte), complete component product around 2^31/2^32/2^64, and the String/Parse round trip on all paths of length <=3 over boundary indices; oracle = hand-written grammar of the property",
   "bounded alphabet/length; every byte outside the alphabet is assumed to behave like the representative 'x'"),
 "C14": ("exploration", "E1", E1,
   "complete enumeration of all 256 bytes, all byte pairs, all 729 b1t6 / 6561 b1t8 groups alone and embedded, all pairs of b1t6 groups (thorough: all 43M pairs of b1t8 groups) and every length 0..20 with every remainder content, against a digit-by-digit reference",
   "b1t6 decoder inputs restricted to trits {-1,0,1} (documented precondition); longer strings are covered through the per-group independence that pairs/triples exercise"),
 "C15": ("exploration", "E1", E1,
   "every leaf count 0..1200 (thorough 0..20000) and around powers of two up to 2^17 against an independent bottom-up construction, RFC 9162 audit paths for every leaf of every n<=300, every set of <=2 failing leaves for n<=33, four hash functions, four leaf-content families",
   "bounded n; trusts Go's hash implementations"),
}
ORDER = sorted(CHECKS)
checks = []
for pid in ORDER:
    cat, eng, tech, text, note = CHECKS[pid]
    checks.append({
        "property_id": pid,
        "quick_cmd": f"./run.sh {pid} quick",
        "thorough_cmd": f"./run.sh {pid} thorough",
        "evidence_file": f"evidence/{pid}.json",
        "engine": eng,
        "level_claimed": {"category": cat, "text": text, "design_ref": f"DESIGN.md section 2, {pid}"},
        "level_note": note,
        "technique": tech,
    })
na = [{"property_id": p["id"], "reason": "check under construction in this session (design in DESIGN.md section 2); not claimed until it runs clean"} for p in props if p["id"] not in CHECKS]
m = {
 "version": 1,
 "setup_cmd": "./setup.sh",
 "hooks": {"guard": "verif", "enable": "go build -tags verif (run.sh builds the harness module /verif/harness, which replaces github.com/wollac/iota-crypto-demo => /repo, so every check rebuilds from /repo's working tree)",
           "baseline_off_cmd": "cd /repo && GOFLAGS=-mod=mod go test -vet=off -count=1 -timeout 25m ./... && cd pkg/curl/asm && GOFLAGS=-mod=mod go test -vet=off -count=1 ./...",
           "source_commits": ["bb9477e"], "add_only": True},
 "engines": [
   {"name": "E1", "path": "harness/checks", "serves_properties": [p for p in ORDER if "E1" in CHECKS[p][1]], "kind_free_text": "deviation-bounded exhaustive input enumeration against reference models (harness/ref)"},
   {"name": "E2", "path": "harness/checks", "serves_properties": [p for p in ORDER if "E2" in CHECKS[p][1]], "kind_free_text": "explicit-state search over operation / environment-answer sequences of the real object against a reference model"},
   {"name": "E5", "path": "harness/checks/c16.go", "serves_properties": [p for p in ORDER if "E5" in CHECKS[p][1]], "kind_free_text": "linear syndrome model enumerated exhaustively + conformance replay against the real polymod and Decode"},
 ],
 "checks": checks,
 "not_applicable": na,
 "notes": "All checks: cd /verif && ./run.sh <id> <quick|thorough>. known_findings.txt lists fixed/known defects. See DESIGN.md.",
}
json.dump(m, open(os.path.join(HERE, 'MANIFEST.json'), 'w'), indent=1)
print("claimed:", ORDER, "not applicable:", [x["property_id"] for x in na])
