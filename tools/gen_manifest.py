#!/usr/bin/env python3
"""Regenerates /verif/MANIFEST.json from the table below (single source of truth for claimed checks)."""
import json, os
HERE = os.path.dirname(os.path.dirname(os.path.abspath(__file__)))
props = [json.loads(l) for l in open(os.path.join(HERE, 'properties.jsonl'))]

E1 = "exhaustive bounded input enumeration (deviation-bounded + complete products of small alphabets), every case executed on the real code and judged by an independent reference model"
# id -> (category, engine, technique, text, note)
CHECKS = {
 "C01": ("exploration", "E1", E1,
   "structural product for ZIP-215: honest signatures, all 8x8 torsion shifts of A and R in every encoding with matching S (must verify) and S+1 (must not), S+j*L for every j that fits 256 bits, all pairs of the 14 small-order and ~40 low-y non-canonical encodings as (A,R) x boundary S values, canonical S with bit 252 set, all single-bit flips of signature and key, all lengths 0..66, off-curve values; every triple judged two-sided by a math/big ZIP-215 predicate and one-sided by crypto/ed25519",
   "hash pre-images are not enumerable: 'random bytes' is covered structurally; ref/ed validated against RFC 8032 vectors, crypto/ed25519 and filippo decoding"),
 "C03": ("exploration", "E1+E2", E1 + "; word-list selection: explicit-state search over all operation sequences of length <=4",
   "both word lists read index by index through the API and compared with the SHA-256 of the official files; every entropy length 0..70; per allowed length every position x all 256 byte values and all position pairs x {00,01,7F,80,FF}^2 on all-00/all-FF (leading-zero runs of every length); decode direction on word indices: every position x all 2048 words, position pairs x a 12-word alphabet, counts 0..51, out-of-list and other-list words, error classes; 1555 selection histories against a one-variable model",
   "bounded deviation depth 2 from structured bases; the position-pair enumeration of the quick tier uses lengths {16,20,32,64}, thorough all 13"),
 "C06": ("model_checking", "E2", "explicit-state breadth-first search over operation histories of the real object (fresh instance + replay), de-duplicated on a hash of all live instances' states, every step compared with a reference model of 64 independent one-lane sponges; repeated in the purego build",
   "all histories of depth <=4 (thorough 5) over 34 operations (Absorb/Squeeze with batch {1,2,63,64} x {0,1,2} blocks, Clone, Reset, 8 rejected calls): after every step every lane of every live instance (incl. instances left behind by Clone) equals its independent Curl-P-81 sponge, rejected calls leave the state untouched, absorb-after-squeeze is refused without effect; one-hot family for every lane; the same search in the purego build must give identical outputs",
   "depth bound; 4 block patterns per lane position; reference = one-lane Curl-P-81 validated against testdata and iota.go"),
 "C07": ("exploration", "E1", E1,
   "274 seeds (all-00, all-FF, all 256 single-bit seeds, 16 fixed) x every message length 0..130 (thorough 0..300, crossing both SHA-512 padding boundaries of both hashes) x 3 contents: keys and signatures byte-equal to crypto/ed25519, deterministic, accepted by Verify, crypto.Signer wrapper equal, every crypto.Hash 1..19 refused, GenerateKey over scripted readers (short reads, failing reader)",
   "crypto/ed25519 is the RFC 8032 oracle"),
 "C09": ("exploration", "E1", E1,
   "valid sentences of 12/24/48 words in both lists (incl. the NFC spelling of the Japanese one) x all passphrases of length <=2 over a 36-code-point alphabet chosen for NFKD behaviour against an own PBKDF2-HMAC-SHA512 and a table-driven NFKD generated from Python's unicodedata; invalid sentences give an error and no seed; parser: all strings of <=4 (thorough 5) symbols over 14 symbols (letters, kana composed/decomposed, 8 white-space kinds, ZWSP, U+FDFA) and a 3-word sentence with every separator combination, parse(print(parse)) fixpoint",
   "alphabet restricted to code points assigned before Unicode 13 (x/text v0.4.0 tables); bounded string length"),
 "C11": ("exploration", "E1", E1 + "; Mine's float zero-count observed through a scripted hash (build overlay) in a single-worker Mine",
   "lane test for all n=0..243 x every lane / lane pair x zero-count classes; Score against an own BLAKE2b/b1t6/Curl-P-81 chain; real-hash Mine for 1,2,3,16 workers; scripted hash: every message length 8..1100 (thorough: ~7000 lengths up to 40000) x k=0..60 x targets fl(3^k/len) -2..+2 ulp and 13 trivially low targets per length class: the zero count Mine demands must reach the target in Score's own formula and no goroutine may panic",
   "schedule dimension is covered by C13 with the same validity oracle; targets needing >243 zeros are outside the space"),
 "C12": ("exploration", "E1", E1 + "; end-to-end pass-over check on real hashes; scripted batches through Mine (build overlay)",
   "~230 (thorough ~480) configurations with length*target around 3^k (k=2..40), 1 and 2^64 x ~17 hash classes at every threshold of the three-stage lane test x 3 unqualified backgrounds x <=2 deviating lanes x all class pairs, judged by the property itself (returned lane qualifies; a lane with difficulty > length*target is never passed over); toInt on all single-trit and chunk-boundary patterns; Score on real and scripted digests (uint64 path, big-int path, saturation); real single-worker Mine: every nonce of every earlier block checked with a reference difficulty",
   "bounded configuration set; worker counts >1 soundness only"),
 "C13": ("model_checking", "E3", "stateless model checking of the real Mine under a controlled scheduler (build overlay routes sync, atomic, channel, select and go through shims): depth-first exploration of all interleavings, unbounded with state-key pruning for N<=2 (thorough N<=3), iterated preemption bound for larger N; separate free-running -race pass",
   "141 (thorough ~170) closed scenarios = PoW version x N workers x which worker finds in which batch x cancellation never/before/concurrent; every schedule: Mine returns, nonce valid or ErrCancelled only if cancelled, no goroutine panic, no goroutine left behind, no worker ignores the done flag for 4+ batches; every 64th and every violating schedule replayed twice for determinism; data races by a free-running -race pass (sampling, reported separately)",
   "SC semantics for atomics; a worker that polled 3 times fruitlessly is treated as waiting; unbuffered-channel rendezvous and channels of other element types than uint64/struct{} are not modelled (reported as unsupported, never as violation)"),
 "C18": ("exploration", "E1", E1,
   "12 (thorough 42) seeds x alphas {empty, every single byte value, ramps up to 40/130 bytes}: proofs byte-equal to an RFC 9381 reference over math/big (try-and-increment counters 0..7 all occur), Verify/ProofToHash/Proof.Hash agree; all 640 single-bit flips, s+j*L, Gamma+T for all 8 torsion points, every small-order/non-canonical encoding as Gamma and as key, torsion-shifted keys, forged proofs that only key validation rejects, lengths 0..82: verdict, beta and decode-iff-canonical equal to the reference",
   "'all 80-byte strings' covered structurally; ref/vrf validated on the RFC's TAI vectors"),
 "C20": ("model_checking", "E4", "instruction-level explicit execution of the checked-in amd64 assembly text and of the go/ssa form of the portable code in a provenance-tracking executor: single control path executed completely, every memory access bounds-checked, per round all 729 positions x 16 s-box input rows enumerated; conformance of the executors with the native binaries on a structured corpus and with the purego build",
   "for all 81 rounds of both front ends: reads only the source pair, writes every destination word exactly once, each output word is lane-wise with dependency set = the two positions the definition names and its 64 lanes equal the complete truth table; source/destination swap, round count 81, result in lto/hto; all loads/stores inside the four 729-word buffers; executor results = native assembly = compiled portable code = 64 x one-lane reference on ~500 (thorough ~3000) states; purego build gives identical digests; a purego variant that does not build is reported",
   "trusts the executor's semantics of ~20 integer instructions / SSA instruction kinds (cross-checked against native code); unsupported instruction => exhaustive:false, never a violation"),
 "C02": ("exploration", "E1+E2", E1 + "; retry branches: explicit-state exploration of every scripted curve-answer sequence (environment answers) up to length 4",
   "three real curves x seeds x all 259 paths of length <=3 over boundary indices: every node (private key, chain code, public key, fingerprint) against a SLIP-0010 reference written from the specification over independent affine math/big arithmetic, the prefix/extension law, undefined derivations; all 90 scripted curve-answer sequences (valid / ErrInvalidKey / wrapped / permanent) with the input of every retry compared to the specification's chain; a toy curve rejecting 3/4 of all candidates over 256 seeds x 21 paths so that hash-driven retries actually occur (histogram in evidence)",
   "bounded seeds/paths; HMAC/SHA/RIPEMD from the standard libraries are trusted; the reference is validated on SLIP-0010 vector 1 for all three curves"),
 "C04": ("exploration", "E1", E1,
   "all byte strings of length <=2 and length 3 over 48 bytes (thorough: all 16.8M 3-byte strings), all strings of <=6 (thorough 7) runes over a 12-rune alphabet including DEL, 0x80 and U+212A, checksum-valid strings for every data length 0..84 x every last symbol and all symbol sequences of length <=3, ~200k deviations (every byte substitution, deletion, insertion, case flip, multi-byte rune, case-flip+substitution pairs) from 13 valid base strings, the 89/90/91 length boundary; oracle = transcription of the BIP-173 reference incl. strict 5->8 regrouping; also checks panics, SyntaxError.Offset inside the input and no result alongside an error",
   "bounded deviation depth (<=2 from a valid string); the BIP-173 reference transcription is validated against BIP-173's vector lists at start-up"),
 "C05": ("exploration", "E1", E1,
   "the complete 84x52 product of hrp length 0..83 and data length 0..51 with several fillings, every single byte and selected runes as hrp character, all case placements, every data byte value at every 8->5 residue; oracle = BIP-173 reference; Decode(Encode) checked on every success",
   "contents per (length,length) cell are representative fillings, not all strings"),
 "C08": ("exploration", "E1", E1,
   "per curve all pairs of 18 private scalars x ~22 shifts chosen to hit shift=0, shift=k, shift=n-k, shift>=n and neighbours, through PrivateKey.Shift and PublicKey.Shift (both-invalid or matching results, no panic, equal to the reference), and 6 extended parents x 128 (thorough 512) non-hardened indices through both derivation sides incl. chain code and fingerprint",
   "bounded scalar/shift alphabets; reference arithmetic ref/wei"),
 "C16": ("model_checking", "E5", "explicit-state enumeration of the checksum's linear syndrome model (all single and pair error syndromes inside the 89-symbol window, taken from the real polymod) + conformance replay of every weight-1/2 (thorough: weight-3) pattern on the real polymod and through the real Decode",
   "decides the <=4-error claim for every string length up to 90 at the level of syndromes: no zero single, all 2759 singles distinct, no pair equal to a single, all 3,763,276 pair syndromes distinct; the model is bound to the code by replaying additivity for every weight-2 pattern on three base vectors (thorough: every weight-3 pattern) and every weight<=2 (short words <=3, thorough <=4) substitution incl. same-kind hrp substitutions through the real Decode; a model collision is only reported after it is realised as an accepted corrupted string",
   "GF(2)-linearity of the polymod beyond the replayed weights for long strings; window fixed at 89 symbols (90 would be a false alarm, see DESIGN)"),
 "C17": ("exploration", "E1", E1,
   "both copies of the curve (the exported package and the internal one reached through elliptic.Secp256k1()): all 3600 ordered pairs of a 60-point set containing O, +-jG, +-(n+-1)/2 G for Add, all for Double, 60 scalar byte strings x 6 base points for ScalarMult/ScalarBaseMult (empty, zero, >=n, 33-byte, zero-padded), IsOnCurve for x=0..2000 with both roots and neighbours; oracle = affine math/big group law with identity (0,0)",
   "bounded point/scalar sets chosen to contain every special case of Jacobian arithmetic; ScalarMult with the identity as base point excluded"),
 "C19": ("exploration", "E1", E1,
   "11 hrps x every version byte 0..255 x every payload length that fits x 2 fillings through ParseBech32 (accept iff known prefix, known version, exact length; re-encoding equals the lower-cased input), invalid Bech32 spellings, round trip of the 3 address kinds x 4 prefixes x 64 hashes, migration: 300 addresses, every single-tryte substitution, non-tryte characters, length/prefix/suffix changes: accepted => canonical",
   "bounded payload contents; BIP-173 reference builds the inputs"),
 "C10": ("exploration", "E1", E1,
   "all strings of length <=6 (thorough <=7) over a 10-symbol alphabet that contains every shortcut visible in the parser (digits incl. 0/8/9, m, /, both hardened markers, an out-of-alphabet byte), complete component product around 2^31/2^32/2^64, and the String/Parse round trip on all paths of length <=3 over boundary indices; oracle = hand-written grammar of the property",
   "bounded alphabet/length; every byte outside the alphabet is assumed to behave like the representative 'x'"),
 "C14": ("exploration", "E1", E1,
   "complete enumeration of all 256 bytes, all byte pairs, all 729 b1t6 / 6561 b1t8 groups alone and embedded, all pairs of b1t6 groups (thorough: all 43M pairs of b1t8 groups) and every length 0..20 with every remainder content, against a digit-by-digit reference",
   "b1t6 decoder inputs restricted to trits {-1,0,1} (documented precondition); longer strings are covered through the per-group independence that pairs/triples exercise"),
 "C15": ("exploration", "E1", E1,
   "every leaf count 0..1200 (thorough 0..20000) and around powers of two up to 2^17 against an independent bottom-up construction, RFC 9162 audit paths for every leaf of every n<=300, every set of <=2 failing leaves for n<=33, four hash functions, four leaf-content families",
   "bounded n; trusts Go's hash implementations"),
}
ORDER = sorted(CHECKS)
# passes every check shares (DESIGN.md 8.5)
SHARED = ("; shared passes: all call histories of length <=3 over the property's operation alphabet executed the way a caller that recycles memory would "
          "(arguments in re-used arena buffers, results overwritten, kept results re-read, arguments compared afterwards) against the reference, plus a salted pass with fresh identities; "
          "every ordered pair of operations run concurrently under the race detector (exhaustive over pairs, sampling over schedules), also as the first use of the package in a fresh process (cold start); "
          "every exported method of the API's types called through reflection as one more history operation; capacity pass (the same call with 1..260 other identities in between, then the first again)")
ARCH386_QUICK = {"C01", "C02", "C03", "C04", "C05", "C07", "C08", "C09", "C10", "C11", "C12", "C14", "C15", "C16", "C17", "C18", "C19"}
ARCH386_THOROUGH = set()
EXTRA = {
 "C03": "; every allowed entropy length in both tiers (bases and every position x all byte values); caller-supplied word lists as an explicit-state search (see C09)",
 "C18": "; encodings that look like p in the bytes a byte-wise comparison examines, as Gamma and as key; proof objects decoded from re-used buffers and kept; the first call of the process repeated after everything else; public keys of other lengths than 32 bytes (too short; a valid key followed by junk with the proof its holder computes over the whole string) are never accepted; zero-value Proof and key objects as receivers of every method in the method sweep",
 "C01": "; R related to A (R = A, -A, 2A, 8A) with the S of either sign; the first call of the process repeated after everything else",
 "C02": "; extended keys restored by the caller from stored k||c material in three memory layouts, every alphabet index, stored bytes compared afterwards; children whose intermediate I_L starts with 00 or FF (found by scanning 8192 indices per parent with an own HMAC), derived privately and from the extended public key; kept objects: all operation sequences of length <=3 (thorough 4) on ONE master key and ONE extended public key object (private, public, re-neutered, hardened-from-public derivations), result and both kept objects compared with the reference after every step; seeds passed as windows of larger buffers (spare capacity) in the scripted and toy-curve parts, buffer compared afterwards",
 "C04": "; every code point of the BMP (quick: every third above U+0800) and every other single byte inside the prefix with the checksum that is right for the raw bytes; strings whose checksum is right for another final constant (Bech32m, 0, all ones, every single bit); valid strings with 0..3 data symbols through address.ParseBech32; a valid string of every total length up to 90 (prefix lengths 1, 2, 40, 83) with 1..6 further characters behind it or in front of it, judged by the reference",
 "C05": "; every code point of the BMP (quick: every third above U+0800) as prefix character; last six data symbols / prefix characters solved for so that the running checksum is 0, 1, 2, all ones, a single bit or the Bech32m constant after the data / after the expanded prefix; an invalid character at every data index followed by Encode of every length on one OS thread",
 "C08": "; the same pairs and derivations on keys assembled from the exported fields with every exported curve object denoting the curve; indices whose I_L starts with 00 or FF",
 "C11": "; a consumer that links only pkg/pow and the standard library; nine kinds of ending context x unattainable/easy target x 1 and 4 workers; nonce-encoding sweep following every worker for 1031 (thorough 262201) batches; Worker reuse sequences; worker counts none..1000; data sizes at and around multiples of 64 KiB and 1 MiB up to 16 MiB; Workers created while pow.Hash was another function; messages rebuilt in the SAME buffer (same backing array and length, other content) on one Worker and on a new Worker per call",
 "C12": "; a consumer that links only pkg/pow/v2 and the standard library; nine kinds of ending context x unattainable/easy target x 1 and 4 workers; nonce-encoding sweep; Worker reuse sequences; worker counts none..1000; data sizes at and around multiples of 1 MiB up to 16 MiB; the same data on the same Worker after a timed-out call with a higher target (pass-over oracle); message lengths that divide 2^64-1; messages rebuilt in the SAME buffer (same backing array and length, other content) on one Worker and on a new Worker per call",
 "C13": "; cold starts (first use of the package = an N-worker Mine in a fresh process under the race detector); low-target scenarios (every nonce qualifies) and contexts with a far deadline cancelled by their CancelFunc, under the scheduler and in the free-running pass; two calls on one Worker; length x target exactly 2^64-1 cancelled; another Worker mining with twice GOMAXPROCS goroutines while this call is cancelled; the free-running scenarios once more in the GOARCH=386 build (alignment of 64-bit atomics, 32-bit counters), incl. cold starts",
 "C14": "; roomy and exactly sized buffers (slack 0..64, source with and without bytes behind its length); the earliest fault decides the error class and the count; two invalid groups of every kind pairing at every pair of 40 positions, as trytes and as trits",
 "C16": "; the real polymod against the BIP-173 transcription on every single-symbol sequence of length <=100; all 2^25 (thorough 2^30) checksum tails through the real Decode for extra accepted constants",
 "C17": "; scalar 1 / n+1 and additions with the identity in the history pass (results overwritten by the caller, arguments and generator compared afterwards); the endomorphism images lambda*P (same y, other x) for both roots of lambda^2+lambda+1 and the scalars lambda-1, lambda+1, lambda+2; scalars whose leading bits are a multiple of the group order (j*n+r for j<=20, r<=15 and (j*n)*2^s+r): the ladder passes through the identity; the caller's point, the scalar and the curve parameters compared after every multiplication",
 "C06": "; a behavioural probe (one squeezed block of all lanes on a clone) of the current instance after every history, so that state the state key does not see is not merged away; word-size generic permutation/sponge comparison in the GOARCH=386 and GOAMD64=v3 builds; re-entrancy pass also in the purego race build; ONE Absorb call with every block count 1..130 and ONE Squeeze call with 1..40 blocks against the one-lane reference, and every such input absorbed in another split; batches beyond the word size (33..65 lanes in the 386 build): refused or lane-wise correct",
 "C07": "; for every crypto.Hash a message of its digest length (and 16..64 bytes) announced through every kind of opts value must be refused; Options with a context and hash 0 sign like Sign; the first call of the process repeated after everything else",
 "C09": "; a valid sentence starting with every word of both lists: print, parse (same sentence), seed (succeeds, equals the reference); every sentence byte length that valid sentences of 12..24 words reach among 40000 candidates per word count, every passphrase length 0..300; three different valid sentences of EVERY word count 12..48 one after the other, twice; caller-supplied word lists (bip39.RegisterWordList) as an explicit-state search: all sequences of length <=3 (thorough 4) over 14 operations that select a correct, a nil, an incomplete list or one whose constructor panics, against a one-variable model of the selection; receiver re-use: all sequences of length <=3 (thorough 4) of Mnemonic.UnmarshalText over 7 texts on ONE receiver x 3 initial receivers",
 "C10": "; every byte value and 13 look-alike runes substituted and inserted at every position of 9 templates; every component length 1..1100 (zero padding); kept MarshalText results; receiver re-use: all sequences of length <=3 (thorough 4) of UnmarshalText over 9 texts on ONE receiver x 4 initial receivers",
 "C15": "; every hash function package crypto knows and the binary links (18), counts 0..40; 100/65/300-byte leaves that differ only behind a common prefix; trees of trees (a leaf whose MarshalBinary hashes a sub-list with the same Hasher) and struct copies of a used Hasher; environment answers: a scripted hash constructor in the place of SHA-512/256 that fails (panics like an unavailable hash) on calls chosen by the explorer - all histories of length <=3 over 8 operations on one Hasher x every single failing constructor call (thorough: every pair), a Hasher first used before the hash was available, marshalers that fail or panic; every call that was not interrupted itself must return the tree hash",
 "C19": "; addresses whose checksum is right for another final constant (Bech32m, ...), valid Bech32 strings without data, the 90-tryte checksummed form of a migration address",
 "C20": "; word-size generic permutation/sponge comparison in the GOARCH=386 and GOAMD64=v3 builds; re-entrancy pass also in the purego race build; public hash entered from fresh goroutines at every recursion depth 0..3000 (thorough 9000) x 4 word offsets",
}
checks = []
for pid in ORDER:
    cat, eng, tech, text, note = CHECKS[pid]
    text += EXTRA.get(pid, "") + SHARED
    if pid in ARCH386_QUICK:
        text += "; the whole quick tier once more in a GOARCH=386 build (32-bit int/uint)"
    elif pid in ARCH386_THOROUGH:
        text += "; thorough tier: the quick tier once more in a GOARCH=386 build"
    checks.append({
        "property_id": pid,
        "quick_cmd": f"./run.sh {pid} quick",
        "thorough_cmd": f"./run.sh {pid} thorough",
        "evidence_file": f"evidence/{pid}.json",
        "engine": eng,
        "level_claimed": {"category": cat, "text": text, "design_ref": f"DESIGN.md section 2, {pid}"},
        "level_note": note,
        "technique": tech,
    })
na = [{"property_id": p["id"], "reason": "check under construction in this session (design in DESIGN.md section 2); not claimed until it runs clean"} for p in props if p["id"] not in CHECKS]
m = {
 "version": 1,
 "setup_cmd": "./setup.sh",
 "hooks": {"guard": "verif", "enable": "go build -tags verif (run.sh builds the harness module /verif/harness, which replaces github.com/wollac/iota-crypto-demo => /repo, so every check rebuilds from /repo's working tree)",
           "baseline_off_cmd": "cd /repo && GOFLAGS=-mod=mod go test -vet=off -count=1 -timeout 25m ./... && cd pkg/curl/asm && GOFLAGS=-mod=mod go test -vet=off -count=1 ./...",
           "source_commits": ["bb9477e"], "add_only": True},
 "engines": [
   {"name": "E1", "path": "harness/checks", "serves_properties": [p for p in ORDER if "E1" in CHECKS[p][1]], "kind_free_text": "deviation-bounded exhaustive input enumeration against reference models (harness/ref)"},
   {"name": "E2", "path": "harness/checks", "serves_properties": [p for p in ORDER if "E2" in CHECKS[p][1]], "kind_free_text": "explicit-state search over operation / environment-answer sequences of the real object against a reference model"},
   {"name": "E3", "path": "harness/shim/vsched + harness/cmd/rewrite + harness/checks/sched_explore.go", "serves_properties": [p for p in ORDER if "E3" in CHECKS[p][1]], "kind_free_text": "controlled cooperative scheduler with preemption-bounded / state-key-pruned DFS over the real Mine (stateless model checking of the implementation)"},
   {"name": "E4", "path": "harness/bitexec", "serves_properties": [p for p in ORDER if "E4" in CHECKS[p][1]], "kind_free_text": "instruction-level explicit execution of the assembly text and the go/ssa form with provenance tracking"},
   {"name": "E5", "path": "harness/checks/c16.go", "serves_properties": [p for p in ORDER if "E5" in CHECKS[p][1]], "kind_free_text": "linear syndrome model enumerated exhaustively + conformance replay against the real polymod and Decode"},
 ],
 "checks": checks,
 "not_applicable": na,
 "notes": "All checks: cd /verif && ./run.sh <id> <quick|thorough>. known_findings.txt lists fixed/known defects. See DESIGN.md.",
}
json.dump(m, open(os.path.join(HERE, 'MANIFEST.json'), 'w'), indent=1)
print("claimed:", ORDER, "not applicable:", [x["property_id"] for x in na])
