#!/bin/bash
# setup_cmd: warm the Go build cache for every build variant the checks use. Offline, from files on disk only.
set -u
cd "$(dirname "$0")"
export GOFLAGS=-mod=mod GOPROXY=off GOSUMDB=off GOTOOLCHAIN=local
mkdir -p build evidence replays
(cd harness && go build -tags verif -o ../build/vcheck ./cmd/vcheck) || exit 1
echo "setup ok"
