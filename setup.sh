#!/bin/bash
# setup_cmd: warm the Go build cache for every build variant the checks use. Offline, from files on disk only.
set -u
cd "$(dirname "$0")"
export GOFLAGS=-mod=mod GOPROXY=off GOSUMDB=off GOTOOLCHAIN=local
mkdir -p build evidence replays
build() { local out="$1" tags="$2"; shift 2; (cd harness && go build -tags "$tags" "$@" -o "../build/$out" ./cmd/vcheck); }
build vcheck verif || exit 1
build vcheck-purego "verif purego" || echo "setup: purego variant does not build (C20 will report it)"
build vcheck-race verif -race || echo "setup: race variant does not build"
(cd harness && GOARCH=386 CGO_ENABLED=0 go build -tags verif -o ../build/vcheck-386 ./cmd/vcheck) || echo "setup: 386 variant does not build"
(cd harness && GOAMD64=v3 go build -tags verif -o ../build/vcheck-v3 ./cmd/vcheck) || echo "setup: GOAMD64=v3 variant does not build"
build vcheck-purego-race "verif purego" -race || echo "setup: purego race variant does not build"
(cd harness && go build -o ../build/standalone-powv1 ./cmd/standalone-powv1 && go build -o ../build/standalone-powv2 ./cmd/standalone-powv2) || echo "setup: standalone consumers do not build"
ID=C13
. scripts/sched-variant.sh || true
(cd harness && go vet ./core ./ref/... >/dev/null 2>&1 || true)
echo "setup ok"
