# Pre-step of check C06; sourced by run.sh. Builds the purego variant of the harness so that the same
# history search can be repeated with the portable permutation. If it does not build, C06 carries on
# without it (exhaustive:false); the broken purego build itself is reported by C20.
rm -f build/vcheck-purego
build vcheck-purego "verif purego" || echo "pre-C06: purego variant does not build; C06 runs without it"
# race-detector build of the portable variant (re-entrancy pass of the purego code's own statics)
rm -f build/vcheck-purego-race
build vcheck-purego-race "verif purego" -race || echo "purego race variant does not build"
