. scripts/sched-variant.sh
# a consumer that links only the package under test and the standard library (see harness/checks/standalone.go)
rm -f build/standalone-powv2
(cd harness && go build -o ../build/standalone-powv2 ./cmd/standalone-powv2) || echo "standalone consumer does not build"
