. scripts/sched-variant.sh
# a consumer that links only the package under test and the standard library (see harness/checks/standalone.go)
rm -f build/standalone-powv1
(cd harness && go build -o ../build/standalone-powv1 ./cmd/standalone-powv1) || echo "standalone consumer does not build"
