. scripts/sched-variant.sh
