# Shared pre-step of C11, C12, C13 (sourced by run.sh; cwd = /verif; `build` available).
# 1. regenerate the overlay from the CURRENT /repo sources (rewritten pow/worker.go, pow/v2/worker.go + shim packages
#    mounted as virtual packages inside the repository module);
# 2. build build/vcheck-sched with it (tags "verif sched"); on success the check runs in that binary (BIN);
# 3. C13 only: build build/vcheck-race (plain sources, -race) for the free-running pass.
# If the rewriter meets a construct it does not know, or the rewritten sources do not compile, the check runs in the
# plain binary and reports that the scheduler part is missing (exhaustive:false) - never a violation.
rm -f build/vcheck-sched
rm -rf build/overlay
if (cd harness && go run ./cmd/rewrite /repo "$(pwd)/shim" "$(pwd)/../build/overlay"); then
  if build vcheck-sched "verif sched" -overlay "$(pwd)/build/overlay/overlay.json"; then
    BIN=vcheck-sched
    echo "sched variant built"
  else
    echo "sched variant does not build: falling back to the plain binary"
  fi
else
  echo "rewriter refused: falling back to the plain binary"
fi
true
