. scripts/sched-variant.sh
