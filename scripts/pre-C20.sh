# Pre-step of check C20; sourced by run.sh (cwd = /verif, function `build <out> <tags>` available,
# output goes to build/pre-C20.log).
#
# Builds the harness a second time with the purego tag: in build/vcheck-purego the repository's
# curl.transform is the portable code compiled through transform_noasm.go instead of the amd64
# assembly. C20 runs `build/vcheck-purego C20purego <tier>` as a child process and compares its
# digests (permutation outputs on the corpus, public-API hashes) with those of the default build.
#
# A stale helper must never be used, so it is removed first. If the purego variant does not build although
# the default variant does (run.sh builds that next), the code selected by the purego tag is broken, which
# nothing else in the tree would notice: run.sh reports that as a C20 violation (the hash must not depend
# on the purego tag; there is no hash at all). If neither variant builds it is a machinery failure (exit 3).
rm -f build/vcheck-purego
if ! build vcheck-purego "verif purego"; then
  echo "pre-C20: building the purego variant failed"
  VARIANT_FAILED="purego variant (go build -tags 'verif purego') does not build while the default variant does"
else
  echo "pre-C20: built build/vcheck-purego"
fi
# race-detector build of the portable variant (re-entrancy pass of the purego code's own statics)
rm -f build/vcheck-purego-race
build vcheck-purego-race "verif purego" -race || echo "purego race variant does not build"
