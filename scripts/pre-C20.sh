# Pre-step of check C20; sourced by run.sh (cwd = /verif, function `build <out> <tags>` available,
# output goes to build/pre-C20.log).
#
# Builds the harness a second time with the purego tag: in build/vcheck-purego the repository's
# curl.transform is the portable code compiled through transform_noasm.go instead of the amd64
# assembly. C20 runs `build/vcheck-purego C20purego <tier>` as a child process and compares its
# digests (permutation outputs on the corpus, public-API hashes) with those of the default build.
#
# A stale helper must never be used, so it is removed first. If the purego variant does not build,
# the pre-step fails (run.sh then reports PRE-STEP-FAILED and exits 2): the code selected by the
# purego tag does not compile, which nothing else in the tree would notice.
rm -f build/vcheck-purego
if ! build vcheck-purego "verif purego"; then
  echo "pre-C20: building the purego variant failed"
  return 1
fi
echo "pre-C20: built build/vcheck-purego"
