#!/bin/bash
# usage: ./mut.sh <Cxx> <file-relative-to-repo> <sed-expression> [tier]
# Applies a one-off sed mutation to /repo, runs the check, reverts. For detection demonstrations only.
ID="$1"; F="$2"; EXPR="$3"; TIER="${4:-quick}"
cd "$(dirname "$0")"
cp "/repo/$F" "/tmp/mut.$$.orig"
sed -i -E "$EXPR" "/repo/$F"
if cmp -s "/repo/$F" "/tmp/mut.$$.orig"; then echo "MUTATION DID NOT APPLY"; rm -f /tmp/mut.$$.orig; exit 3; fi
(cd /repo && git diff --stat -- "$F" | tail -1)
./run.sh "$ID" "$TIER" | grep -E "VIOLATION|KNOWN|ABORT|BUILD|^C[0-9]+ |key=" | head -12 | cut -c1-400
cp "/tmp/mut.$$.orig" "/repo/$F"; rm -f /tmp/mut.$$.orig
(cd /repo && git status --short | grep -v 'asm/asm' )
